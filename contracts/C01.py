"""C01 -- SQLite WHERE clause selects exactly the rows the OData filter denotes.

Two layers, reported separately.

 Layer 1  (contracts on the real code, unbounded; counted)
     For every handler of the SQLite visitor (MRO-resolved: sql/sqlite.py over sql/base.py) and every path:
       the text is well-formed SQL, reads (SQLite precedence) as the translation S_sqlite(node) prescribed below with the
       children's translations as operands in the filter's order and grouping, string contents arrive as one literal
       with doubled quotes (obligations of C09, SQLite families only), and for every built-in function
         post.template   the reader's tree of the result *is* the table entry S_sqlite[f/n] (CALL_TEMPLATES): which SQL
                         function, which argument in which position, which constant (the `+ 1` of substring, the `- 1`
                         of indexof, the strftime format letter of year/month/day/hour/minute).
     The overload choice driven by typing.infer_type is executed as part of the handler, so a change there that reroutes
     `length` / `contains` fails here too.

 Layer 2  (bounded, labelled; never counted)
     That S_sqlite means what the filter denotes *on SQLite* is a statement about SQLite's evaluator, which no contract on
     repository code can decide.  It is exercised natively: a battery of filters over the scalar fragment is translated
     by the real visitor and run as a WHERE clause on an in-memory SQLite against a table drawn from the property's
     adversarial value domain (NULL, negative/zero/positive integers, halves, empty strings, quotes, %, _, upper/lower
     case), and the selected row ids are compared with `den` (contracts/sqlite_den.py: three-valued logic, null tests,
     0-based case-sensitive string functions, round half away from zero).  Genuine mismatches are recorded findings.

Refuted Layer-1 obligations are replayed the same way: the witness call / expression is completed to a predicate, run
on SQLite, and compared with `den`.
"""
import json
import os
import time

import z3

from contracts import C09
from contracts import sqlcommon as Q
from vc import reader as R
from vc.runner import native_run

PROPERTY = "C01"
NEEDS_MODULES = C09.NEEDS_MODULES
KNOWN = []
FRAGMENT_OUT = ("geo.", "hassubset", "hassubsequence", "matchespattern")     # not in the property's scalar fragment


def A(i):
    return ("arg", i)


def PAT(i, pre, suf):
    return ("pattern", i, pre, suf)


def strf(letter, arg):
    return ("call", "CAST", (("call", "STRFTIME", (("strlit", "%" + letter), arg)), ("type", "INTEGER")))


# S_sqlite for the built-in functions: from the OData function definitions and the SQLite documentation
CALL_TEMPLATES = {
    "concat/2": ("bin", "||", A(0), A(1)),
    "contains/2": ("bin", "LIKE", A(0), PAT(1, "%", "%")),
    "startswith/2": ("bin", "LIKE", A(0), PAT(1, "", "%")),
    "endswith/2": ("bin", "LIKE", A(0), PAT(1, "%", "")),
    "indexof/2": ("bin", "-", ("call", "INSTR", (A(0), A(1))), ("num", "1")),          # INSTR is 1-based, 0 when absent
    "length/1": ("call", "LENGTH", (A(0),)),
    "substring/2": ("call", "SUBSTR", (A(0), ("bin", "+", A(1), ("num", "1")))),       # SUBSTR is 1-based
    "substring/3": ("call", "SUBSTR", (A(0), ("bin", "+", A(1), ("num", "1")), A(2))),
    "tolower/1": ("call", "LOWER", (A(0),)),
    "toupper/1": ("call", "UPPER", (A(0),)),
    "trim/1": ("call", "TRIM", (A(0),)),
    "year/1": strf("Y", A(0)), "month/1": strf("m", A(0)), "day/1": strf("d", A(0)), "hour/1": strf("H", A(0)), "minute/1": strf("M", A(0)),
    "date/1": ("call", "DATE", (A(0),)),
    "now/0": ("call", "DATETIME", (("strlit", "now"),)),
    "round/1": ("call", "ROUND", (A(0),)),              # SQLite ROUND rounds half away from zero, like OData
    "floor/1": ("call", "FLOOR", (A(0),)),
    "ceiling/1": ("call", "CEILING", (A(0),)),
}


def families(facts):
    fams = []
    for f in C09.families(facts):
        if "[sqlite]" not in f:
            continue
        if f.startswith("call[") and any(x in f.lower() for x in FRAGMENT_OUT):
            continue
        fams.append(f)
    return fams + ["literal[sqlite][Boolean]", "bounded.semantics", "canary"]


def boolean_literal(facts, timeout, t0):
    """SQLite has no boolean type: `true` must be rendered 1 and `false` 0, whatever the letter case of the keyword"""
    from vc.propkit import explore, judge, src_of
    from vc.speclib import fresh_node
    from vc.symexec import FuncRef, Sym
    c = Q.build(facts)
    E, U, PV = c["E"], c["U"], c["PV"]
    cls = Q.VISITORS["sqlite"][0]
    cf = facts.classes[cls]
    Q.install_visit_contract(c, "sqlite")
    mk_self, alias = Q.make_self(c, "sqlite", symbolic_alias=False)
    m = cf["members"]["visit"]
    handler = cf["members"].get("visit_Boolean") or cf["members"]["generic_visit"]
    holder = {}

    def runner(path):
        nd, consts = fresh_node(E, path, "Boolean")
        holder["node"] = nd
        path.assume(c["shape"](nd))
        return E.run_function(path, FuncRef(m, defcls=m["definer"]), [mk_self(path), Sym(nd)])
    rs = explore(E, runner)
    lower = E.uf("str_lower", z3.StringSort(), z3.StringSort())
    out = []
    name = f"C01:sqlite:{handler['qualname']}[Boolean]:post.value"
    for i, (path, oc) in enumerate(rs):
        if oc[0] != "return":
            continue
        v = oc[1]
        is_true = lower(PV.s(U.field("Boolean", "val", holder["node"]))) == z3.StringVal("true")
        if isinstance(v, str) and v in ("0", "1"):
            goal = is_true if v == "1" else z3.Not(is_true)
        else:
            goal = z3.BoolVal(False)
        out.append(judge(E, name, "post.value", path.pc + path.insts, goal, src_of(handler), timeout, {"e": holder["node"]},
                         extra={"info": {"result": repr(v)[:80]}, "dialect": "sqlite"}, path_idx=i))
    if not out:
        out.append({"name": name, "clause": "cover", "status": "undecided", "seconds": 0.0, "selfcheck_failed": True, "reason": "no returning path"})
    return out


def match(t, want, args):
    """does the reader's tree `t` equal the template `want` (argument translations compared by term)?"""
    t = C09.strip_paren(t)
    w = want[0]
    if w == "arg":
        return C09.is_hole_of(t, args[want[1]])
    if w == "num":
        return t[0] == "num" and t[1] == want[1]
    if w == "strlit":
        return t[0] == "str" and tuple(t[1]) == (want[1],)
    if w == "type":
        return t[0] == "type" and t[1] == want[1]
    if w == "bin":
        return t[0] == "bin" and t[1] == want[1] and match(t[2], want[2], args) and match(t[3], want[3], args)
    if w == "call":
        return t[0] == "call" and t[1] == want[1] and len(t[2]) == len(want[2]) and all(match(x, y, args) for x, y in zip(t[2], want[2]))
    if w == "pattern":
        _, i, pre, suf = want
        a = args[i]
        if t[0] == "str":
            parts = [p for p in t[1] if p != ""]
            exp = ([pre] if pre else []) + ["<data>"] + ([suf] if suf else [])
            if len(parts) != len(exp):
                return False
            for p, e in zip(parts, exp):
                if e == "<data>":
                    if not (isinstance(p, R.Hole) and p.kind == "data" and C09._rooted_at(p.payload.base_term, a)):
                        return False
                elif p != e:
                    return False
            return True
        # a non-literal pattern: '<pre>' || translation || '<suf>'
        seq = flatten_concat(t)
        exp = ([("strlit", pre)] if pre else []) + [("arg", i)] + ([("strlit", suf)] if suf else [])
        return len(seq) == len(exp) and all(match(x, y, args) for x, y in zip(seq, exp))
    return False


def flatten_concat(t):
    t = C09.strip_paren(t)
    if t[0] == "bin" and t[1] == "||":
        return flatten_concat(t[2]) + flatten_concat(t[3])
    return [t]


def call_template(fn, tree, used, arg_terms, path):
    key = f"{fn}/{len(arg_terms)}"
    want = CALL_TEMPLATES.get(key)
    if want is None:
        return False, f"the SQLite dialect translates {key}, for which the specification table has no entry"
    ok = match(tree, want, arg_terms)
    return ok, "" if ok else f"the text reads as {show(tree)}, the specification prescribes {show(want)}"


def show(t):
    if isinstance(t, tuple):
        if t and t[0] == "hole":
            return "<arg>"
        return "(" + " ".join(show(x) for x in t) + ")"
    if isinstance(t, R.Hole):
        return "<data>"
    return str(t)


def known_template(fam):
    ids = {f["id"] for f in KNOWN}
    return "C01-sqlite-round-negative-halves" in ids and fam.startswith("call[sqlite][round/")


def run_family(facts, fam, tier):
    timeout = C09.TIMEOUT[tier]
    t0 = time.time()
    if fam == "canary":
        # must be refuted: SUBSTR without the +1 is not the prescribed translation
        a0, a1 = object(), object()
        c = Q.build(facts)
        PV = c["PV"]
        x, y = z3.Const("x", PV), z3.Const("y", PV)
        tree = ("call", "SUBSTR", (("hole", R.Hole("expr", x)), ("hole", R.Hole("expr", y))), (",",))
        ok, why = call_template("substring", tree, [], [x, y], None)
        good = not ok
        return [{"name": "C01:canary:substr-without-plus-one", "clause": "canary", "seconds": time.time() - t0, "canary": True,
                 "status": "discharged" if good else "undecided", "selfcheck_failed": not good, "reason": why or "canary NOT refuted"}]
    if fam == "bounded.semantics":
        return bounded_semantics(facts, tier)
    if fam == "literal[sqlite][Boolean]":
        return boolean_literal(facts, timeout, t0)
    C09.KNOWN = [f for f in KNOWN if f["id"].startswith("C09-")]
    c = Q.build(facts)
    U = c["U"]
    kindpart = fam[fam.index("[") + 1:]
    dkey = kindpart[:kindpart.index("]")]
    what = kindpart[kindpart.index("][") + 2:-1]
    extra = None
    if ":" in what and not fam.startswith("call["):
        what, opk = what.split(":")
        fld = C09.OPSPLIT[what][0]
        extra = lambda path, nd: path.assume(U.is_kind(opk, U.field(what, fld, nd)))
    is_call = fam.startswith("call[")
    rs = C09.run_one(c, facts, dkey, is_call, what, timeout, "C01", C09.CLAUSES, extra_pre=extra,
                     call_template=call_template if is_call else None)
    out = []
    for r in rs:
        if r["clause"] in ("safety.raise", "rel.path"):
            continue            # refusal behaviour is C12's, injection 2-safety is C07's
        if is_call and r["clause"] == "post.tree":
            r["clause"] = "post.template"
            r["name"] = r["name"].replace(":post.tree", ":post.template")
            if r["status"] == "refuted" and known_template(fam):
                continue
        r["family_name"] = fam
        out.append(r)
    if not out:
        out.append({"name": f"C01:{fam}:excluded", "clause": "excluded", "status": "discharged", "seconds": 0.0,
                    "backend": "known-finding", "reason": "every obligation of this family lies in a recorded finding's region or is a refusal"})
    return out


# ------------------------------------------------------------------------------------------
FILTERS = [
    "a eq 1", "a ne b", "a lt b", "a le 0", "a gt b", "a ge b", "a eq null", "a ne null", "s eq 'a'", "s ne 'A'", "s eq 'o''r'", "s eq '%'",
    "a add b eq 2", "a sub b gt 0", "a mul b le 2", "a div b eq 1", "a mod b eq 1", "a sub (b sub 1) eq 0", "a mul (b add 1) eq 2",
    "(a add b) mul 2 eq 4", "a div (b mul 2) eq 0", "-a eq 1", "-(a add b) lt 0", "a add -b eq 0", "- a mul 2 eq -2",
    "a in (1, 2)", "a in (0,)", "s in ('a', 'ab')", "s in ('%', '_')", "not (a in (1, 2))", "a in (1, 2) eq true",
    "a eq 1 and b eq 1", "a eq 1 or b eq 1", "not (a eq 1)", "not (a eq 1 and b eq 1)", "a eq 1 or b eq 1 and f eq 1",
    "(a eq 1 or b eq 1) and f eq 1", "not (a eq 1) or b eq 1", "f eq true", "f eq false", "(a gt 0) eq (b gt 0)", "(a eq 1) eq true",
    "not (f eq true)",
    "contains(s, 'a')", "contains(s, 'A')", "contains(s, '%')", "contains(s, '_')", "contains(s, 'o''r')", "contains(s, t)", "contains(s, '')",
    "startswith(s, 'a')", "startswith(s, '%')", "startswith(s, t)", "endswith(s, 'b')", "endswith(s, '_')", "endswith(s, t)",
    "not contains(s, 'a')", "contains(s, 'a') eq true", "contains(s, 'a') and a eq 1", "contains(s, 'x')", "endswith(s, 'y')", "startswith(s, 'x')",
    "length(s) eq 1", "length(s) gt a", "indexof(s, 'b') eq 1", "indexof(s, 'a') eq 0", "indexof(s, 'z') eq -1", "indexof(s, t) ge 0",
    "indexof(s, 'b') mul 2 eq 2", "substring(s, 1) eq 'b'", "substring(s, 0, 1) eq 'a'", "substring(s, 1, 2) eq 'ab'",
    "tolower(s) eq 'a'", "toupper(s) eq 'A'", "trim(s) eq 'a'", "concat(s, t) eq 'ab'", "concat(concat(s, 'x'), t) eq 'axb'",
    "length(concat(s, t)) eq 2",
    "round(x) eq 2", "round(x) eq -2", "round(x) eq -1", "round(x) eq 0", "round(x) eq 1", "floor(x) eq -2", "ceiling(x) eq -1", "floor(x) eq 1",
    "ceiling(x) eq 2", "year(d) eq 2020", "month(d) eq 12", "day(d) eq 2", "hour(d) eq 10", "minute(d) eq 59", "date(d) eq 2020-01-02",
    "x gt 0.5", "x le -0.5", "x mul 2 eq 3", "x add a gt 1", "a div 2 eq 0", "a mod 2 eq 1", "a mod 2 eq -1",
    # literals on both sides of every comparator (parameter order of bound values)
    "a add 1 ne 2", "a mul 2 ne 4", "a add 1 eq 2", "a sub 1 lt 2", "a mul 3 le 6", "a add 2 gt 3", "a sub 2 ge -1", "1 add a ne b sub 1",
    "not (a add 1 ne 2)", "length(s) add 1 ne 2", "2 ne a add 1", "3 lt a mul 2", "(a add 1) in (2, 3)", "s ne 'a' and a add 1 ne 2",
]


def known_filters():
    out = {}
    for f in KNOWN:
        for t in f.get("inputs", []):
            out[t] = f["id"]
    return out


def bounded_semantics(facts, tier):
    from contracts.sqlite_den import DEN
    t0 = time.time()
    seed = int(os.environ.get("VERIF_SEED", "0") or 0)
    nrows = 400 if tier == "quick" else 4000
    script = DEN + f"""
FILTERS = {FILTERS!r}
table = rows({seed}, {nrows})
bad = []
for f in FILTERS:
    tree = ODataParser().parse(ODataLexer().tokenize(f))
    p = check_filter(tree, table)
    if p:
        bad.append([f, p])
print(json.dumps({{"violates": bool(bad), "problems": bad, "filters": len(FILTERS), "rows": len(table)}}))
"""
    nat = native_run(script, timeout=1500)
    if "problems" not in nat:
        return [{"name": "C01:semantics:bounded", "clause": "bounded", "bounded": True, "status": "undecided", "seconds": time.time() - t0,
                 "reason": json.dumps(nat)[:300], "bound": "native run failed"}]
    known = known_filters()
    new = [p for p in nat["problems"] if p[0] not in known]
    hit = sorted({known[p[0]] for p in nat["problems"] if p[0] in known})
    ok = not new
    native = DEN + f"""
FILTERS = {[p[0] for p in new]!r}
table = rows({seed}, {nrows})
bad = [[f, check_filter(ODataParser().parse(ODataLexer().tokenize(f)), table)] for f in FILTERS]
bad = [b for b in bad if b[1]]
print(json.dumps({{"violates": bool(bad), "problems": bad[:5]}}))
"""
    return [{"name": "C01:semantics:bounded", "clause": "bounded", "bounded": True,
             "status": "discharged" if ok else "refuted", "seconds": time.time() - t0,
             "backend": "real sqlite3 vs reference semantics (bounded, not a proof)",
             "bound": f"{nat['filters']} filters over the scalar fragment x {nat['rows']} rows from the adversarial domain (seed {seed}); "
                      f"{len(nat['problems']) - len(new)} mismatching filters explained by recorded findings {hit}",
             "reason": json.dumps(new[:3])[:400] if new else "selected rows equal the denoted rows for every filter outside the recorded findings",
             "native_script": native, "solver_output": json.dumps(new[:3])[:600]}]


def replay_spec(facts, r):
    if r.get("bounded") and r.get("native_script"):
        return {"native_script": r["native_script"], "input_text": r.get("bound"), "required": "SQLite selects exactly the denoted rows"}
    from vc.pyval import to_py_source
    from contracts.sqlite_den import DEN
    from contracts.native_ref import NATIVE_REF
    w = r.get("witness") or {}
    if "e" not in w:
        return None
    es = to_py_source(w["e"])
    script = NATIVE_REF + DEN + f"""
COLN = {{"Integer": ["a", "b"], "Float": ["x"], "String": ["s", "t"], "DateTime": ["d"], "Boolean": ["f"]}}
def fit(n, want=None):
    # map identifiers to fixture columns, by position
    names = iter(["a", "b", "s", "t", "x", "d", "f"] * 4)
    def go(n):
        if isinstance(n, list):
            return [go(x) for x in n]
        if isinstance(n, ast.Identifier):
            return ast.Identifier(next(names), ())
        if dataclasses.is_dataclass(n) and not isinstance(n, type):
            return type(n)(**{{f.name: go(getattr(n, f.name)) for f in dataclasses.fields(n)}})
        return n
    return go(n)
STR_FUNCS = {{"contains": "ss", "startswith": "ss", "endswith": "ss", "concat": "ss", "indexof": "ss", "length": "s", "tolower": "s", "toupper": "s",
             "trim": "s", "substring": "sii", "round": "x", "floor": "x", "ceiling": "x", "year": "d", "month": "d", "day": "d", "hour": "d",
             "minute": "d", "date": "d"}}
def typed_variants(n):
    # the witness's arguments are arbitrary nodes: rebuild calls with arguments of the parameter types
    out = [n]
    if isinstance(n, ast.Call) and n.func.name in STR_FUNCS:
        sig = STR_FUNCS[n.func.name][:len(n.args)]
        pools = {{"s": [ast.Identifier("s"), ast.Identifier("t"), ast.String("a"), ast.String("b")], "i": [ast.Integer("1"), ast.Integer("0"), ast.Identifier("a")],
                 "x": [ast.Identifier("x")], "d": [ast.Identifier("d")]}}
        for combo in itertools.islice(itertools.product(*[pools[c] for c in sig]), 24):
            out.append(ast.Call(n.func, list(combo)))
    return out
def predicates(n):
    k = type(n).__name__
    if k in ("Compare", "BoolOp") or (k == "UnaryOp" and isinstance(n.op, ast.Not)):
        return [n]
    if k == "Call" and n.func.name in ("contains", "startswith", "endswith"):
        return [n, ast.UnaryOp(ast.Not(), n)]
    outs = []
    for lit in (ast.Integer("0"), ast.Integer("1"), ast.Integer("2"), ast.Integer("-1"), ast.Integer("-2"), ast.String("a"), ast.String("b"), ast.String("ab"),
                ast.Integer("2020"), ast.Integer("12"), ast.Integer("10"), ast.Integer("59"), ast.Date("2020-01-02")):
        outs.append(ast.Compare(ast.Eq(), n, lit))
    outs.append(ast.Compare(ast.Eq(), ast.BinOp(ast.Mult(), n, ast.Integer("2")), ast.Integer("2")))
    return outs
try:
    w = sanitize({es})
except Exception:
    w = None
table = rows(1, 300)
problems = []
if w is not None:
    for v in typed_variants(w) + typed_variants(fit(w)):
        for p in predicates(v):
            pr = check_filter(p, table)
            if pr:
                problems.append([ref_render(p)[:160], pr[:300]])
                break
        if len(problems) >= 3:
            break
print(json.dumps({{'violates': bool(problems), 'problems': problems[:3]}}))
"""
    return {"native_script": script, "input_text": f"e={es[:300]}", "required": "the WHERE clause selects exactly the rows the filter denotes"}


def evidence(facts, results):
    return {"trusted_base": C09.TRUSTED + ["CALL_TEMPLATES in contracts/C01.py (S_sqlite for the built-in functions, from the OData function "
                                           "definitions and the SQLite documentation)"],
            "assumptions": C09.ASSUME + [
                "SQLite's evaluator gives S_sqlite(n) the meaning den(n): not decidable by contracts on repository code; exercised by the bounded "
                "family bounded.semantics against the real sqlite3 module (labelled bounded, never counted); its mismatches are recorded findings",
                "date-time columns hold ISO-8601 text; booleans are 0/1 integers (SQLite has no other representation)",
                "geo.*, hassubset, hassubsequence, matchesPattern, durations and lambdas are outside the property's scalar fragment"],
            "explanation": "Layer 1: per SQLite handler per path, the text reads as the prescribed translation (operators: C09's mirrored tree; "
                           "functions: exact template incl. index shifts). Layer 2 (bounded): real SQLite vs reference semantics."}


if __name__ == "__main__":
    import sys
    from vc.runner import main
    sys.exit(main(sys.modules[__name__]))
