"""C02 -- Django apply_odata_query returns exactly the objects the filter denotes.

Layer 1 (contracts on the real Django visitor, unbounded, counted): for every operator handler and every built-in
function handler of AstToDjangoQVisitor, on every path, the expression term returned is the entry of the Django
translation table (contracts/ormtemplates.py, written from the property statement and Django's documentation of its
lookups and database functions): lookup class per comparator, IsNull for null tests, operand order, StrIndex - 1,
Substr(.., i + 1, n), Extract*/Trunc*, Lower/Upper/Trim/Length/Concat, Q composition for and/or/not.
Layer 2 (bounded, labelled, never counted): which rows Django's compiler and SQLite select for such an expression is
outside any contract on repository code; the battery of C01 is executed through the real backend on an in-memory
SQLite against the reference semantics.  See contracts/ormsem.py.
"""
from contracts import ormsem as S
from contracts import ormtemplates as T

PROPERTY = "C02"
NEEDS_MODULES = ["odata_query.ast", "odata_query.visitor", "odata_query.typing", "odata_query.exceptions", "odata_query.django.django_q",
                 "odata_query.django.utils"]
KNOWN = []
BACKENDS = ["django"]


def families(facts):
    return S.families(facts, BACKENDS, T.DJANGO_CALLS)


def run_family(facts, fam, tier):
    if fam == "canary":
        return S.canary(PROPERTY, T.DJANGO_CALLS)
    if fam.startswith("bounded.semantics["):
        return S.bounded(PROPERTY, fam[len("bounded.semantics["):-1], tier, KNOWN)
    return S.run_layer1(facts, fam, tier, PROPERTY, KNOWN, T.DJANGO_CALLS, T.DJANGO_OPS, top_q=True)


def replay_spec(facts, r):
    return S.replay_spec(facts, r, S.OP_SAMPLES)


def evidence(facts, results):
    return {"trusted_base": ["z3 5.1.0", "pyvc symbolic executor and Python semantics of DESIGN section 4",
                             "DJANGO_CALLS / DJANGO_OPS in contracts/ormtemplates.py (translation table from the property statement and Django's documentation)",
                             "uninterpreted-constructor model of Django calls (DESIGN 4.8)"],
            "assumptions": ["what rows a Django expression selects is decided by Django's SQL compiler and SQLite: bounded family only (labelled, never counted); "
                            "its mismatches are recorded findings",
                            "literal values reach Value(py_val): the values themselves are C06's py_val obligations",
                            "geo functions, lambdas and navigation paths are outside the scalar fragment (C04 is not applicable)"],
            "explanation": "Layer 1: per Django operator / function handler per path, the returned expression term equals the translation-table entry. "
                           "Layer 2 (bounded): the real backend executed on in-memory SQLite vs reference semantics."}


if __name__ == "__main__":
    import sys
    from vc.runner import main
    sys.exit(main(sys.modules[__name__]))
