"""C02 -- Django apply_odata_query returns exactly the objects the filter denotes.

Layer 1 (contracts on the real Django visitor, unbounded, counted): for every operator handler and every built-in
function handler of AstToDjangoQVisitor, on every path, the expression term returned is the entry of the Django
translation table (contracts/ormtemplates.py, written from the property statement and Django's documentation of its
lookups and database functions): lookup class per comparator, IsNull for null tests, operand order, StrIndex - 1,
Substr(.., i + 1, n), Extract*/Trunc*, Lower/Upper/Trim/Length/Concat, Q composition for and/or/not.
Layer 2 (bounded, labelled, never counted): which rows Django's compiler and SQLite select for such an expression is
outside any contract on repository code; the battery of C01 is executed through the real backend on an in-memory
SQLite against the reference semantics.  See contracts/ormsem.py.
"""
from contracts import ormsem as S
from contracts import ormtemplates as T

PROPERTY = "C02"
NEEDS_MODULES = ["odata_query.ast", "odata_query.visitor", "odata_query.typing", "odata_query.exceptions", "odata_query.django.django_q",
                 "odata_query.django.utils", "odata_query.django.django_q_ext"]
KNOWN = []
BACKENDS = ["django"]


NOT_EQUAL = "odata_query.django.django_q_ext.NotEqual"


def families(facts):
    return S.families(facts, BACKENDS, T.DJANGO_CALLS)[:-1] + ["lookup[NotEqual.as_sql]", "canary"]


def lookup_not_equal(facts, tier):
    """The custom `<>` lookup compiles itself (repository code inside Django's compiler): its SQL text is
    `<lhs> <> <rhs>` and its parameter list is the left operand's parameters followed by the right operand's -- the
    order of their placeholders in the text.  process_lhs / process_rhs are Django's (uninterpreted, each returns a
    text and a parameter sequence)."""
    import time
    import z3
    from contracts import sqlcommon as Q
    from vc.propkit import explore, judge, src_of
    from vc.symexec import Atom, FuncRef, Obj, SStr, Sym, ExtVal
    t0 = time.time()
    if NOT_EQUAL not in facts.classes:
        return [{"name": "C02:NotEqual:import", "clause": "unsupported", "status": "undecided", "seconds": 0.0,
                 "reason": "odata_query.django.django_q_ext.NotEqual was not extracted"}]
    c = Q.build(facts)
    E, U, PV = c["E"], c["U"], c["PV"]
    m = facts.classes[NOT_EQUAL]["members"]["as_sql"]
    lt, rt = z3.String("lhs_sql"), z3.String("rhs_sql")
    lp, rp = z3.Const("lhs_params", PV), z3.Const("rhs_params", PV)

    def side(text, params):
        def k(E_, path, fref, args, kwargs):
            return (SStr([Atom(text, ("term",))]), Sym(params))
        return k
    saved = dict(E.contracts)
    for base in ("django.db.models.lookups.Lookup", NOT_EQUAL):
        E.contracts[base + ".process_lhs"] = side(lt, lp)
        E.contracts[base + ".process_rhs"] = side(rt, rp)
    out = []
    try:
        for shape, tag, items in (("tuple", "TupleV", PV.titems), ("list", "ListV", PV.items)):
            def runner(path, tag=tag):
                path.assume(U.is_tag(tag, lp))
                path.assume(U.is_tag(tag, rp))
                self_obj = Obj(NOT_EQUAL, {})
                return E.run_function(path, FuncRef(m, defcls=NOT_EQUAL), [self_obj, ExtVal("<compiler>"), ExtVal("<connection>")], self_val=self_obj)
            rs = explore(E, runner)
            name = f"C02:{m['qualname']}[{shape} params]:post.value"
            for i, (path, oc) in enumerate(rs):
                if oc[0] != "return":
                    out.append({"name": name, "clause": "unsupported" if oc[0] == "unsupported" else "safety.raise",
                                "status": "undecided" if oc[0] == "unsupported" else "refuted", "seconds": 0.0, "reason": str(oc)[:200],
                                "source": src_of(m), "path": i, "solver_output": str(oc)[:200]})
                    continue
                v = oc[1]
                if not (isinstance(v, tuple) and len(v) == 2):
                    out.append({"name": name, "clause": "post.value", "status": "refuted", "seconds": 0.0, "source": src_of(m), "path": i,
                                "reason": "as_sql does not return a (sql, params) pair", "solver_output": repr(v)[:200]})
                    continue
                text, params = v
                try:
                    tt = text.term() if isinstance(text, SStr) else z3.StringVal(text)
                    ps = E.symbolic_seq(path, params)
                except Exception as ex:
                    out.append({"name": name, "clause": "unsupported", "status": "undecided", "seconds": 0.0, "reason": str(ex)[:200],
                                "source": src_of(m), "path": i})
                    continue
                goal = z3.And(tt == z3.Concat(lt, z3.StringVal(" <> "), rt), ps == z3.Concat(items(lp), items(rp)))
                out.append(judge(E, name, "post.value", path.pc + path.insts, goal, src_of(m), S.TIMEOUT[tier],
                                 {"lhs_params": lp, "rhs_params": rp}, extra={"what": "Compare", "orm": "django"}, path_idx=i))
    finally:
        E.contracts.clear()
        E.contracts.update(saved)
    return out


def run_family(facts, fam, tier):
    if fam == "canary":
        return S.canary(PROPERTY, T.DJANGO_CALLS)
    if fam == "lookup[NotEqual.as_sql]":
        return lookup_not_equal(facts, tier)
    if fam.startswith("bounded.semantics["):
        return S.bounded(PROPERTY, fam[len("bounded.semantics["):-1], tier, KNOWN)
    return S.run_layer1(facts, fam, tier, PROPERTY, KNOWN, T.DJANGO_CALLS, T.DJANGO_OPS, top_q=True)


def replay_spec(facts, r):
    return S.replay_spec(facts, r, S.OP_SAMPLES)


def evidence(facts, results):
    return {"trusted_base": ["z3 5.1.0", "pyvc symbolic executor and Python semantics of DESIGN section 4",
                             "DJANGO_CALLS / DJANGO_OPS in contracts/ormtemplates.py (translation table from the property statement and Django's documentation)",
                             "uninterpreted-constructor model of Django calls (DESIGN 4.8)"],
            "assumptions": ["what rows a Django expression selects is decided by Django's SQL compiler and SQLite: bounded family only (labelled, never counted); "
                            "its mismatches are recorded findings",
                            "literal values reach Value(py_val): the values themselves are C06's py_val obligations",
                            "geo functions, lambdas and navigation paths are outside the scalar fragment (C04 is not applicable)"],
            "explanation": "Layer 1: per Django operator / function handler per path, the returned expression term equals the translation-table entry. "
                           "Layer 2 (bounded): the real backend executed on in-memory SQLite vs reference semantics."}


if __name__ == "__main__":
    import sys
    from vc.runner import main
    sys.exit(main(sys.modules[__name__]))
