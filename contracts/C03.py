"""C03 -- SQLAlchemy ORM and Core shorthands return exactly the rows the filter denotes.

Layer 1 (contracts on the real SQLAlchemy visitors (ORM and Core share _CommonVisitors), unbounded, counted): for every operator handler and every built-in
function handler of AstToSqlAlchemyOrmVisitor / AstToSqlAlchemyCoreVisitor, on every path, the expression term returned is the entry of the SQLAlchemy
translation table (contracts/ormtemplates.py, written from the property statement and SQLAlchemy's documentation): Python
operator per comparator / arithmetic operator, operand order, column.contains/startswith/endswith, strpos - 1,
substr(.., i + 1, n), extract(part, ..), cast to Date/Time, and_/or_/invert.  ORM and Core are checked separately
(same table: 'ORM and Core agree with each other').
Layer 2 (bounded, labelled, never counted): which rows SQLAlchemy's compiler and SQLite select for such an expression is
outside any contract on repository code; the battery of C01 is executed through the real backend on an in-memory
SQLite against the reference semantics.  See contracts/ormsem.py.
"""
from contracts import ormsem as S
from contracts import ormtemplates as T

PROPERTY = "C03"
NEEDS_MODULES = ["odata_query.ast", "odata_query.visitor", "odata_query.typing", "odata_query.exceptions", "odata_query.sqlalchemy.common", "odata_query.sqlalchemy.orm", "odata_query.sqlalchemy.core"]
KNOWN = []
BACKENDS = ["sa_orm", "sa_core"]


def families(facts):
    return ["cfg.funcnames"] + S.families(facts, BACKENDS, T.SA_CALLS)


def run_family(facts, fam, tier):
    if fam == "canary":
        return S.canary(PROPERTY, T.SA_CALLS)
    if fam == "cfg.funcnames":
        import time
        from contracts import C15
        return C15.cfg_funcnames(facts, time.time(), PROPERTY)
    if fam.startswith("bounded.semantics["):
        return S.bounded(PROPERTY, fam[len("bounded.semantics["):-1], tier, KNOWN)
    ops = T.SA_ORM_OPS if "[sa_orm]" in fam else T.SA_OPS
    return S.run_layer1(facts, fam, tier, PROPERTY, KNOWN, T.SA_CALLS, ops, top_q=False)


CLASS_TO_ODATA = {"rtrim": "trim", "ltrim": "trim", "strpos": "indexof", "substr": "substring", "lower": "tolower", "upper": "toupper",
                  "ceil": "ceiling", "floor": "floor", "round": "round"}


def replay_spec(facts, r):
    if r.get("clause") == "cfg.funcnames":
        fn = CLASS_TO_ODATA.get(str(r.get("what")))
        flt = [f for f in S.battery() if fn and (fn + "(") in f.lower()]
        if not flt:
            return None
        return {"native_script": S.native_script("sa_core", flt, 1, 300), "input_text": "; ".join(flt)[:300],
                "required": "the ORM selects exactly the denoted rows"}
    return S.replay_spec(facts, r, S.OP_SAMPLES)


def evidence(facts, results):
    return {"trusted_base": ["z3 5.1.0", "pyvc symbolic executor and Python semantics of DESIGN section 4",
                             "SA_CALLS / SA_OPS in contracts/ormtemplates.py (translation table from the property statement and SQLAlchemy's documentation)",
                             "uninterpreted-constructor model of SQLAlchemy calls (DESIGN 4.8)"],
            "assumptions": ["what rows a SQLAlchemy expression selects is decided by SQLAlchemy's compiler and SQLite: bounded family only (labelled, never counted); "
                            "its mismatches are recorded findings",
                            "literal values reach literal(py_val): the values themselves are C06's py_val obligations",
                            "geo functions, lambdas and navigation paths are outside the scalar fragment (C04 is not applicable)"],
            "explanation": "Layer 1: per SQLAlchemy operator / function handler per path, the returned expression term equals the translation-table entry. "
                           "Layer 2 (bounded): the real backend executed on in-memory SQLite vs reference semantics."}


if __name__ == "__main__":
    import sys
    from vc.runner import main
    sys.exit(main(sys.modules[__name__]))
