"""C04 -- Navigation paths and any/all lambdas mean what OData says on ORM backends.

What is within reach of contracts on repository code, and what is not (DESIGN 0.3, 9):

 Layer 1 (contracts on the real handlers, counted)
   post.template   Django   visit_Attribute :  a/b  ->  F(<owner's lookup name> + "__" + attr)      (Django's relation-spanning lookup)
                   SQLAlchemy ORM visit_Attribute :  a/b  ->  getattr(<class the relationship inspect(visit(a)).property points to>, attr)
   post.join       SQLAlchemy ORM visit_Attribute records the traversed relationship, exactly once, as a required join
                   (C15 proves the shorthand then joins every required relationship once)
   The path a/b/c arrives left-nested and a lambda's owner receives the whole path: C05 / C10 production contracts.
   The lambda body is made relative to its variable by expression_relative_to_identifier = reroot: C17.
                   SQLAlchemy ORM visit_CollectionLambda :  xs/any() -> visit(xs).any(None);  xs/any(x: p) -> visit(xs).any(V'(reroot(x, p)));
                   xs/all(x: p) -> ~visit(xs).any(~V'(reroot(x, p)))   with V' a visitor for the class the relationship points to
                   (the relative body is C17's reroot, the sub-visitor's translation is the same `visit`, both opaque here)
 Out of reach, bounded only:  Django's visit_CollectionLambda (it walks model meta in reverse_relationship and introspects Django
   expression objects in _attempt_keywordify) and, above all, what the ORMs' compilers and SQLite make of the expressions (join
   kind, join promotion under `or`, EXISTS correlation).
 Layer 2 (bounded, labelled, never counted)
   a three-table object graph (Author 1-* Post 1-* Comment, NULL foreign keys, empty collections, shared parents) generated
   from VERIF_SEED; filters over to-one paths up to depth 2, any(), any(x: p), all(x: p), nested lambdas, combined with
   and / or / not; both back ends executed on in-memory SQLite against the reference semantics (contracts/rel_native.py).
"""
import json
import os
import time

import z3

from contracts import ormcommon as O
from contracts import sqlcommon as Q
from vc.runner import native_run
from vc.symexec import ExtVal, ListObj, SStr, Sym

PROPERTY = "C04"
LEVEL = "exploration"        # the bulk of this check is the bounded exploration; the proved core is small (docstring)
NEEDS_MODULES = ["odata_query.ast", "odata_query.visitor", "odata_query.django.django_q", "odata_query.sqlalchemy.orm", "odata_query.sqlalchemy.common"]
KNOWN = []
TIMEOUT = {"quick": 10000, "thorough": 60000}

FILTERS = {
    "Post": ["author/name eq 'ann'", "author/name ne 'ann'", "author/name eq null", "author/name eq 'ann' or views gt 1", "not (author/name eq 'ann')",
             "author/name eq 'ann' and views ge 1", "comments/any()", "not comments/any()", "comments/any(c: c/score gt 0)", "comments/all(c: c/score gt 0)",
             "comments/any(c: c/text eq 'x') and views gt 0", "comments/any(c: c/text eq 'x') or author/name eq 'bob'",
             "comments/all(c: c/text eq 'x') or views eq 0", "not comments/any(c: c/score lt 0)", "comments/any(c: c/score gt 0 and c/text eq 'x')",
             "contains(author/name, 'n')", "length(author/name) eq 3",
             # a to-one relationship itself compared with a key / null (a missing related row is null)
             "author eq null", "author ne null", "author eq 1", "author eq null or views gt 1", "author eq 1 or views eq 0",
             "author eq 2 or comments/any(c: c/score gt 0)"],
    "Author": ["posts/any()", "posts/any(p: p/views gt 1)", "posts/all(p: p/views gt 1)", "posts/any(p: p/title eq 'a') and name eq 'ann'",
               "posts/any(p: p/comments/any(c: c/score gt 0))", "posts/all(p: p/comments/any())", "posts/any(p: p/comments/all(c: c/text eq 'x'))",
               "not posts/any(p: p/views gt 1)", "posts/any(p: p/views gt 1) or name eq 'cy'", "name eq 'ann' or posts/all(p: p/title ne 'b')"],
    "Comment": ["post/author/name eq 'ann'", "post/author/name ne 'bob' and score gt 0", "post/title eq 'a' or post/author/name eq 'cy'", "post/views gt 1",
                "post/author/name eq null", "post eq null", "post/author eq 1", "post/author eq 1 or score gt 0", "post/author eq null"],
}


def families(facts):
    return ["path[django]", "path[sa_orm]", "fk[sa_orm]", "lambda[sa_orm]", "bounded.semantics[django]", "bounded.semantics[sa_orm]", "canary"]


def run_fk_sa(facts, tier):
    """SQLAlchemy ORM: a to-one relationship compared with a key / null (`author eq 1`, `author eq null`) is replaced by the LOCAL
    foreign-key column of the relationship, and nothing is joined for it:
        _maybe_sub_relationship_with_foreign_key(e) in { e, next(iter(inspect(e).property._calculated_foreign_keys)) },  self unchanged
    (a comparison through the related table's key would need a join, and an inner join drops the parents whose key is NULL)."""
    from vc.propkit import explore, src_of
    from vc.symexec import FuncRef
    t0 = time.time()
    c = Q.build(facts)
    E = c["E"]
    bkey = "sa_orm"
    cls = O.BACKENDS[bkey]
    O.install(c, bkey)
    m = facts.classes[cls]["members"].get("_maybe_sub_relationship_with_foreign_key")
    name = f"C04:{bkey}:{cls}._maybe_sub_relationship_with_foreign_key"
    if m is None:
        return [{"name": name + ":cover", "clause": "cover", "status": "undecided", "seconds": 0.0, "selfcheck_failed": True,
                 "reason": "helper not found (renamed?): the foreign-key substitution is not under contract"}]

    def runner(path):
        self_obj = O.make_self(c, bkey)
        path.ghost["self_obj"] = self_obj
        return E.run_function(path, FuncRef(m, defcls=m["definer"]), [self_obj, ExtVal("<elem>")], self_val=self_obj)
    rs = explore(E, runner)
    out = []
    want = "next(iter(getattr(getattr(inspect(<elem>()), 'property'), '_calculated_foreign_keys')))"
    n_ret = 0
    for i, (path, oc) in enumerate(rs):
        if oc[0] == "unsupported":
            out.append({"name": name + ":unsupported", "clause": "unsupported", "status": "undecided", "seconds": 0.0, "reason": oc[1],
                        "source": src_of(m), "path": i})
            continue
        if oc[0] != "return":
            out.append({"name": name + ":safety.raise", "clause": "safety.raise", "status": "refuted", "seconds": time.time() - t0,
                        "backend": "pyvc (term comparison)", "reason": repr(oc)[:200], "solver_output": repr(oc)[:200], "source": src_of(m), "path": i,
                        "orm": bkey, "witness": {"backend": bkey}})
            continue
        n_ret += 1
        got = repr(oc[1])
        ok = got in ("<elem>()", want)
        joins = path.ghost["self_obj"].attrs.get("join_relationships")
        items = joins.content if isinstance(joins, ListObj) and joins.is_concrete() else None
        jok = items == [] and not path.ghost.get("writes")
        for clause, good, reason in (("post.template", ok, "the element itself or the relationship's local foreign-key column" if ok else
                                      f"the helper returns {got[:200]}; prescribed: the element or {want}"),
                                     ("frame", jok, "nothing is joined or stored for the substitution" if jok else
                                      f"join_relationships = {items!r}, writes = {path.ghost.get('writes')!r}"[:200])):
            r = {"name": f"{name}:{clause}", "clause": clause, "status": "discharged" if good else "refuted", "seconds": time.time() - t0,
                 "backend": "pyvc (term comparison)", "reason": reason, "source": src_of(m), "path": i, "orm": bkey, "witness": {"backend": bkey},
                 "what": "fk"}
            if not good:
                r["solver_output"] = reason
            out.append(r)
    if n_ret == 0:
        out.append({"name": name + ":cover", "clause": "cover", "status": "undecided", "seconds": 0.0, "selfcheck_failed": True, "reason": "no returning path"})
    return out


def is_visit_of(v, term):
    return isinstance(v, ExtVal) and v.name == "visit" and v.args and isinstance(v.args[0], Sym) and z3.simplify(v.args[0].term).eq(z3.simplify(term))


def unq(v):
    if isinstance(v, ExtVal) and v.name.rsplit(".", 1)[-1] == "Q" and len(v.args) == 1 and not v.kwargs:
        return v.args[0]
    return v


def is_field(v, c, node, field):
    """the node's own string field (attr), as a symbolic string or term"""
    U, PV = c["U"], c["PV"]
    t = z3.simplify(U.field("Attribute", field, node))
    if isinstance(v, Sym):
        return z3.simplify(v.term).eq(t)
    if isinstance(v, SStr) and len(v.parts) == 1 and hasattr(v.parts[0], "term"):
        return z3.simplify(v.parts[0].term).eq(z3.simplify(PV.s(t)))
    return False


def ext(v, name, n=None):
    return isinstance(v, ExtVal) and v.name.rsplit(".", 1)[-1] == name and not v.kwargs and (n is None or len(v.args) == n)


def django_path(c, node, v):
    U = c["U"]
    v = unq(v)
    owner = U.field("Attribute", "owner", node)
    ok = ext(v, "F", 1) and ext(v.args[0], "add", 2) and is_field(v.args[0].args[1], c, node, "attr") and ext(v.args[0].args[0], "add", 2) \
        and v.args[0].args[0].args[1] == "__" and ext(v.args[0].args[0].args[0], "getattr", 2) \
        and is_visit_of(v.args[0].args[0].args[0].args[0], owner) and v.args[0].args[0].args[0].args[1] == "name"
    return ok, "" if ok else f"the handler builds {v!r}; prescribed: F(<owner lookup>.name + '__' + attr)"[:300]


def sa_path(c, node, v, self_obj):
    U = c["U"]
    owner = U.field("Attribute", "owner", node)
    cur = v
    ok = ext(cur, "getattr", 2) and is_field(cur.args[1], c, node, "attr")
    chain = []
    if ok:
        cur = cur.args[0]
        for want in ("class_", "entity", "property"):
            if not (ext(cur, "getattr", 2) and cur.args[1] == want):
                ok = False
                break
            cur = cur.args[0]
    ok = ok and ext(cur, "inspect", 1) and is_visit_of(cur.args[0], owner)
    why = "" if ok else f"the handler builds {v!r}; prescribed: getattr(inspect(<owner>).property.entity.class_, attr)"[:300]
    joins = self_obj.attrs.get("join_relationships")
    items = joins.content if isinstance(joins, ListObj) and joins.is_concrete() else None
    jok = items is not None and len(items) == 1 and is_visit_of(items[0], owner)
    jwhy = "the traversed relationship is recorded once as a required join" if jok else f"join_relationships = {items!r}"[:200]
    return ok, why, jok, jwhy


def run_path(facts, bkey, tier):
    from vc.propkit import explore, src_of
    from vc.speclib import fresh_node
    from vc.symexec import FuncRef
    t0 = time.time()
    c = Q.build(facts)
    E, U = c["E"], c["U"]
    cls = O.BACKENDS[bkey]
    O.install(c, bkey)
    cf = facts.classes[cls]
    m = cf["members"]["visit"]
    handler = cf["members"]["visit_Attribute"]
    holder = {}

    def runner(path):
        nd, consts = fresh_node(E, path, "Attribute")
        holder["node"] = nd
        path.assume(c["shape"](nd))
        self_obj = O.make_self(c, bkey)
        path.ghost["self_obj"] = self_obj
        path.ghost["node_under_check"] = nd
        return E.run_function(path, FuncRef(m, defcls=m["definer"]), [self_obj, Sym(nd)], self_val=self_obj)
    try:
        rs = explore(E, runner)
    finally:
        E.attr_models.pop(("*", "*"), None)
    out = []
    name = f"C04:{bkey}:{handler['qualname']}[Attribute]"
    n_ret = 0
    for i, (path, oc) in enumerate(rs):
        if oc[0] == "unsupported":
            out.append({"name": name + ":unsupported", "clause": "unsupported", "status": "undecided", "seconds": 0.0, "reason": oc[1],
                        "source": src_of(handler), "path": i})
            continue
        if oc[0] != "return":
            continue            # refusals / foreign exceptions are C12's obligations
        n_ret += 1
        if bkey == "django":
            ok, why = django_path(c, holder["node"], oc[1])
            recs = [("post.template", ok, why)]
        else:
            ok, why, jok, jwhy = sa_path(c, holder["node"], oc[1], path.ghost["self_obj"])
            recs = [("post.template", ok, why), ("post.join", jok, jwhy)]
        for clause, good, reason in recs:
            r = {"name": f"{name}:{clause}", "clause": clause, "status": "discharged" if good else "refuted", "seconds": time.time() - t0,
                 "backend": "pyvc (term comparison)", "reason": reason or "the term is the prescribed one", "source": src_of(handler), "path": i,
                 "orm": bkey, "witness": {"backend": bkey}}
            if not good:
                r["solver_output"] = reason
            out.append(r)
    if n_ret == 0:
        out.append({"name": name + ":cover", "clause": "cover", "status": "undecided", "seconds": 0.0, "selfcheck_failed": True, "reason": "no returning path"})
    return out


def run_lambda_sa(facts, tier):
    """SQLAlchemy-ORM visit_CollectionLambda, with the relative body (C17's reroot) and the sub-visitor's translation as opaque
    terms:   xs/any()        ->  visit(xs).any(None)
             xs/any(x: p)    ->  visit(xs).any(V'(reroot(x, p)))        V' = a visitor for the class the relationship points to
             xs/all(x: p)    ->  ~ visit(xs).any(~ V'(reroot(x, p)))    (all = no related row fails p; true for an empty collection)"""
    from vc.propkit import explore, src_of
    from vc.speclib import fresh_node
    from vc.symexec import FuncRef
    t0 = time.time()
    c = Q.build(facts)
    E, U = c["E"], c["U"]
    bkey = "sa_orm"
    cls = O.BACKENDS[bkey]
    O.install(c, bkey)
    saved = dict(E.contracts)

    def k_rel(E_, path, fref, args, kwargs):
        return ExtVal("reroot", list(args))
    base_visit = E.contracts[cls + ".visit"]

    def k_visit(E_, path, fref, args, kwargs):
        if isinstance(args[1], ExtVal) and args[1].name == "reroot":
            return ExtVal("subvisit", [args[0].attrs.get("root_model"), args[1]])
        return base_visit(E_, path, fref, args, kwargs)
    E.contracts["odata_query.utils.expression_relative_to_identifier"] = k_rel
    for qn in ("odata_query.visitor.NodeVisitor.visit", cls + ".visit"):
        E.contracts[qn] = k_visit
    cf = facts.classes[cls]
    m = cf["members"]["visit"]
    handler = cf["members"]["visit_CollectionLambda"]
    holder = {}

    def runner(path):
        nd, consts = fresh_node(E, path, "CollectionLambda")
        holder["node"] = nd
        path.assume(c["shape"](nd))
        self_obj = O.make_self(c, bkey)
        path.ghost["node_under_check"] = nd
        return E.run_function(path, FuncRef(m, defcls=m["definer"]), [self_obj, Sym(nd)], self_val=self_obj)
    try:
        rs = explore(E, runner)
    finally:
        E.attr_models.pop(("*", "*"), None)
        E.contracts.clear()
        E.contracts.update(saved)
    node = holder.get("node")
    out = []
    name = f"C04:{bkey}:{handler['qualname']}[CollectionLambda]:post.template"
    fld = U.field
    owner = fld("CollectionLambda", "owner", node)
    lam = fld("CollectionLambda", "lambda_", node)

    def method(v, recv_ok, meth):
        return isinstance(v, ExtVal) and v.name == "<call>" and v.args and isinstance(v.args[0], ExtVal) and v.args[0].name == "getattr" \
            and len(v.args[0].args) == 2 and v.args[0].args[1] == meth and recv_ok(v.args[0].args[0]) and not v.kwargs

    def sub_ok(v):
        """V'(reroot(x, p)) for the class the relationship points to"""
        if not (isinstance(v, ExtVal) and v.name == "subvisit" and len(v.args) == 2):
            return False
        model, body = v.args
        cur = model
        for want in ("class_", "entity", "property"):
            if not (ext(cur, "getattr", 2) and cur.args[1] == want):
                return False
            cur = cur.args[0]
        if not (ext(cur, "inspect", 1) and is_visit_of(cur.args[0], owner)):
            return False
        if not (isinstance(body, ExtVal) and body.name == "reroot" and len(body.args) == 2):
            return False
        x, p = body.args
        return isinstance(x, Sym) and z3.simplify(x.term).eq(z3.simplify(fld("Lambda", "identifier", lam))) \
            and isinstance(p, Sym) and z3.simplify(p.term).eq(z3.simplify(fld("Lambda", "expression", lam)))
    n_ret = 0
    for i, (path, oc) in enumerate(rs):
        if oc[0] == "unsupported":
            out.append({"name": name.replace("post.template", "unsupported"), "clause": "unsupported", "status": "undecided", "seconds": 0.0,
                        "reason": oc[1], "source": src_of(handler), "path": i})
            continue
        if oc[0] != "return":
            continue
        n_ret += 1
        v = oc[1]
        is_any = path.entails(U.is_kind("Any", fld("CollectionLambda", "operator", node)))
        is_all = path.entails(U.is_kind("All", fld("CollectionLambda", "operator", node)))
        has_lambda = path.entails(U.is_kind("Lambda", lam))
        no_lambda = path.entails(z3.Not(U.is_node(lam)))
        recv_ok = lambda r: is_visit_of(r, owner)
        if is_any and no_lambda:
            ok = method(v, recv_ok, "any") and len(v.args) == 2 and v.args[1] is None
            want = "visit(xs).any(None)"
        elif is_any and has_lambda:
            ok = method(v, recv_ok, "any") and len(v.args) == 2 and sub_ok(v.args[1])
            want = "visit(xs).any(V'(reroot(x, p)))"
        elif is_all and has_lambda:
            ok = ext(v, "invert", 1) and method(v.args[0], recv_ok, "any") and len(v.args[0].args) == 2 and ext(v.args[0].args[1], "invert", 1) \
                and sub_ok(v.args[0].args[1].args[0])
            want = "~visit(xs).any(~V'(reroot(x, p)))"
        elif is_all and no_lambda:
            ok = ext(v, "invert", 1) and method(v.args[0], recv_ok, "any") and len(v.args[0].args) == 2 and v.args[0].args[1] is None
            want = "~visit(xs).any(None)   (not produced by the grammar)"
        else:
            ok, want = False, "operator / lambda presence not determined on this path"
        r = {"name": name, "clause": "post.template", "status": "discharged" if ok else "refuted", "seconds": time.time() - t0,
             "backend": "pyvc (term comparison)", "reason": f"the term is {want}" if ok else f"the handler builds {v!r}; prescribed: {want}"[:300],
             "source": src_of(handler), "path": i, "orm": bkey, "witness": {"backend": bkey}}
        if not ok:
            r["solver_output"] = r["reason"]
        out.append(r)
    if n_ret == 0:
        out.append({"name": name, "clause": "cover", "status": "undecided", "seconds": 0.0, "selfcheck_failed": True, "reason": "no returning path"})
    return out


SCRIPT = r'''
FILTERS = __FILTERS__
bkey = __BKEY__
bad, ran, refused = [], 0, 0
nontrivial, samples = set(), []
for seed in range(__SEED__, __SEED__ + __NDB__):
    db = make_db(seed)
    load_db(bkey, db)
    for root, fl in FILTERS.items():
        for f in fl:
            tree = ODataParser().parse(ODataLexer().tokenize(f))
            try:
                got = selected_rel(bkey, root, tree)
            except Exception as ex:
                if not any(b[1] == f for b in bad):
                    bad.append([root, f, "execution error " + type(ex).__name__ + ": " + str(ex).splitlines()[0][:100]])
                continue
            if got is None:
                refused += 1
                continue
            try:
                want = sorted(r.id for r in db[root] if den_rel(tree, r) is True)
            except Undefined:
                continue
            ran += 1
            if 0 < len(want) < len(db[root]):
                # the filter discriminates on this database: neither nothing nor everything is denoted
                nontrivial.add((root, f, tuple(want)))
                if len(samples) < 3:
                    samples.append({"root": root, "filter": f, "database_seed": seed, "denoted_ids": want, "selected_ids": got})
            if got != want and not any(b[1] == f for b in bad):
                bad.append([root, f, "database %d: selected %s, denoted %s" % (seed, got, want)])
print(json.dumps({"violates": bool(bad), "problems": bad, "ran": ran, "refused": refused, "filters": sum(len(v) for v in FILTERS.values()), "databases": __NDB__,
                  "nontrivial": len(nontrivial), "samples": samples}))
'''


def native_script(bkey, filters, seed, ndb):
    from contracts.rel_native import REL_NATIVE
    return REL_NATIVE + SCRIPT.replace("__FILTERS__", repr(filters)).replace("__BKEY__", repr(bkey)).replace("__SEED__", str(seed)) \
        .replace("__NDB__", str(ndb))


def bounded(bkey, tier):
    t0 = time.time()
    seed = int(os.environ.get("VERIF_SEED", "0") or 0)
    ndb = 12 if tier == "quick" else 120
    nat = native_run(native_script(bkey, FILTERS, seed, ndb), timeout=1500)
    name = f"C04:semantics[{bkey}]:bounded"
    if "problems" not in nat:
        return [{"name": name, "clause": "bounded", "bounded": True, "status": "undecided", "seconds": time.time() - t0,
                 "reason": json.dumps(nat)[:300], "bound": "native run failed"}]
    kn = {}
    for f in KNOWN:
        if bkey in f.get("backends", [bkey]):
            for t in f.get("inputs", []):
                kn[t] = f["id"]
    new = [p for p in nat["problems"] if p[1] not in kn]
    hit = sorted({kn[p[1]] for p in nat["problems"] if p[1] in kn})
    sub = {}
    for p in new:
        sub.setdefault(p[0], []).append(p[1])
    return [{"name": name, "clause": "bounded", "bounded": True, "status": "discharged" if not new else "refuted", "seconds": time.time() - t0,
             "backend": f"{bkey} executed on in-memory SQLite vs reference semantics (bounded, not a proof)",
             "bound": f"{nat['filters']} filters x {nat['databases']} generated databases (4 authors, 7 posts, 9 comments, NULL foreign keys, empty collections; "
                      f"seed {seed}): {nat['ran']} comparisons, {nat['refused']} refused; {len(nat['problems']) - len(new)} mismatching filters explained "
                      f"by recorded findings {hit}",
             "reason": json.dumps(new[:3])[:400] if new else "selected parents equal the denoted parents for every filter outside the recorded findings",
             "native_script": native_script(bkey, sub or {"Post": []}, seed, ndb), "solver_output": json.dumps(new[:3])[:600], "orm": bkey,
             "evaluations": nat["ran"], "nontrivial": nat.get("nontrivial", 0), "case_samples": nat.get("samples", [])}]


def run_family(facts, fam, tier):
    if fam == "canary":
        # must be refuted: a path translated to the bare attribute (owner dropped) is not the prescribed lookup
        c = Q.build(facts)
        U, PV = c["U"], c["PV"]
        node = U.node("Attribute", z3.Const("own", PV), z3.Const("att", PV))
        ok, _ = django_path(c, node, ExtVal("x.F", [Sym(z3.Const("att", PV))]))
        good = not ok
        return [{"name": "C04:canary:path-without-owner", "clause": "canary", "seconds": 0.0, "canary": True,
                 "status": "discharged" if good else "undecided", "selfcheck_failed": not good,
                 "reason": "F(attr) without the owner's lookup is rejected" if good else "canary NOT refuted"}]
    if fam.startswith("path["):
        return run_path(facts, fam[5:-1], tier)
    if fam == "lambda[sa_orm]":
        return run_lambda_sa(facts, tier)
    if fam == "fk[sa_orm]":
        return run_fk_sa(facts, tier)
    if fam.startswith("bounded.semantics["):
        return bounded(fam[len("bounded.semantics["):-1], tier)
    raise ValueError(fam)


def replay_spec(facts, r):
    if r.get("bounded") and r.get("native_script"):
        return {"native_script": r["native_script"], "input_text": r.get("bound"), "required": "the ORM selects exactly the denoted parents"}
    w = r.get("witness") or {}
    if w.get("backend"):
        flt = {k: [f for f in v if "/" in f and "any" not in f and "all" not in f] for k, v in FILTERS.items()}
        return {"native_script": native_script(w["backend"], flt, 1, 6), "input_text": "to-one path filters on generated databases",
                "required": "the ORM selects exactly the denoted parents"}
    return None


def evidence(facts, results):
    b = [r for r in results if r.get("bounded")]
    extra = {"evaluations": sum(r.get("evaluations", 0) for r in b),
             "distinct_nontrivial": sum(r.get("nontrivial", 0) for r in b),
             "rule": "a case is one (back end, root model, filter, generated database): the filter is translated by the real visitor, executed through the "
                     "ORM on in-memory SQLite and compared with the reference semantics; databases are generated from VERIF_SEED (4 authors, 7 posts, "
                     "9 comments, random NULL foreign keys); a case is non-trivial when the filter denotes some but not all rows of its root table, and "
                     "distinct when (root, filter, denoted id set) differs; counted per back end",
             "case_samples": [x for r in b for x in r.get("case_samples", [])][:6]}
    return {"coverage_extra": extra, "trusted_base": ["pyvc symbolic executor and Python semantics of DESIGN section 4", "z3 5.1.0",
                             "uninterpreted-constructor model of Django / SQLAlchemy calls (DESIGN 4.8)"],
            "assumptions": ["Django's visit_CollectionLambda is out of reach of the symbolic executor (model-meta loops in reverse_relationship, introspection "
                            "of Django expression objects in _attempt_keywordify): bounded family only",
                            "relationship.any(criterion) is EXISTS over the related rows of the outer row (SQLAlchemy's documented behaviour)",
                            "join kind, join promotion under `or`, EXISTS correlation and NULL handling are decided by the ORMs' compilers and SQLite: bounded "
                            "family only (labelled, never counted); mismatches are recorded findings",
                            "Django's F('a__b') spans the relation a; SQLAlchemy's inspect(rel).property.entity.class_ is the related class (documented behaviour)",
                            "lambda bodies use non-null child columns (the property's quantifier); many-to-many relations are not in the fixture"],
            "explanation": "Layer 1: the two path handlers return the prescribed lookup / related-class attribute and the ORM handler records the join. "
                           "Layer 2 (bounded): both back ends executed on generated relational databases vs reference semantics."}


if __name__ == "__main__":
    import sys
    from vc.runner import main
    sys.exit(main(sys.modules[__name__]))
