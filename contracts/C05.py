"""C05 -- Parser groups operators exactly as the OData precedence table dictates.

(1) production-action contracts (pyvc -> z3, unbounded): every action builds exactly the node the
    grammar rule prescribes from slot values satisfying their invariants (operand order, kinds,
    parentheses return the inner value unchanged, (x,) -> List([x]), paths left-nested with the
    first segment as root).
(2) representation invariant of the generated LR table (exhaustive, finite): in every state that
    reduces by  E -> E op1 E | NOT E | UMINUS BWS E,  for every binary-operator lookahead op2 the table
    reduces iff prec_odata(op1) > prec_odata(op2) or (equal and left-associative), and shifts otherwise;
    prec_odata is OData 4.01 part 2, 5.1.1.14 -- not read from ODataParser.precedence.
(3) bounded stand-in for the whole pipeline (labelled bounded, never counted as proved): every ordered
    pair (quick) / triple (thorough) of operators in every tree shape through the real parser, rendered
    minimally and fully parenthesised by a printer that knows only prec_odata.
Assumed: SLY's driver executes the table; the classic result that precedence-resolved LR conflicts of
an operator grammar yield the precedence-climbing parse (Aho, Johnson, Ullman 1975) -- not mechanised.
"""
import json
import time

import z3

from contracts import grammar_common as G
from vc.propkit import judge
from vc.runner import native_run

PROPERTY = "C05"
NEEDS_MODULES = ["odata_query.ast", "odata_query.grammar", "odata_query.exceptions"]
TIMEOUT = {"quick": 15000, "thorough": 60000}
KNOWN = []

# OData 4.01 part 2 section 5.1.1.14, highest first: primary (in) > unary (-, not) > multiplicative >
# additive > relational > equality > and > or.  All binary operators associate to the left.
PREC_ODATA = {"IN": 8, "NOT": 7, "UMINUS": 7, "MUL": 6, "DIV": 6, "MOD": 6, "ADD": 5, "SUB": 5,
              "GT": 4, "GE": 4, "LT": 4, "LE": 4, "EQ": 3, "NE": 3, "AND": 2, "OR": 1}
BINOPS = ["OR", "AND", "EQ", "NE", "GT", "GE", "LT", "LE", "ADD", "SUB", "MUL", "DIV", "MOD", "IN"]
WORD = {"OR": "or", "AND": "and", "EQ": "eq", "NE": "ne", "GT": "gt", "GE": "ge", "LT": "lt", "LE": "le",
        "ADD": "add", "SUB": "sub", "MUL": "mul", "DIV": "div", "MOD": "mod", "IN": "in"}


def families(facts):
    prods = facts.raw["parser"]["productions"]
    return ["cfg.table"] + [f"prod[{p['number']}]" for p in prods if p["func"]] + ["lrtable", "bounded.pipeline", "canary"]


def op_of_production(pr):
    rhs = pr["prod"]
    if len(rhs) == 3 and rhs[0] == "common_expr" and rhs[1] in BINOPS:
        return rhs[1]
    if rhs == ["NOT", "common_expr"]:
        return "NOT"
    if rhs == ["UMINUS", "BWS", "common_expr"]:
        return "UMINUS"
    return None


def expect_reduce(op1, op2):
    return PREC_ODATA[op1] > PREC_ODATA[op2] or (PREC_ODATA[op1] == PREC_ODATA[op2] and op1 in BINOPS)


def sample_text(op1, op2):
    """An expression that reaches the table entry (completed op1 production, lookahead op2) and the two
    candidate groupings as reference trees (python source)."""
    rhs2 = "(1, 2)" if op2 == "IN" else "c"
    r2 = "ast.List([ast.Integer('1'), ast.Integer('2')])" if op2 == "IN" else "ast.Identifier('c')"
    node = {"OR": "ast.BoolOp(ast.Or(), %s, %s)", "AND": "ast.BoolOp(ast.And(), %s, %s)"}
    cmp_ = {"EQ": "Eq", "NE": "NotEq", "GT": "Gt", "GE": "GtE", "LT": "Lt", "LE": "LtE", "IN": "In"}
    ar = {"ADD": "Add", "SUB": "Sub", "MUL": "Mult", "DIV": "Div", "MOD": "Mod"}

    def mk(op, l, r):
        if op in node:
            return node[op] % (l, r)
        if op in cmp_:
            return f"ast.Compare(ast.{cmp_[op]}(), {l}, {r})"
        return f"ast.BinOp(ast.{ar[op]}(), {l}, {r})"
    a, b = "ast.Identifier('a')", "ast.Identifier('b')"
    if op1 in ("NOT", "UMINUS"):
        pre = "not " if op1 == "NOT" else "-"
        u = "ast.Not()" if op1 == "NOT" else "ast.USub()"
        text = f"{pre}a {WORD[op2]} {rhs2}"
        reduce_tree = mk(op2, f"ast.UnaryOp({u}, {a})", r2)
        shift_tree = f"ast.UnaryOp({u}, {mk(op2, a, r2)})"
    else:
        b_txt, b_tree = ("(1, 2)", "ast.List([ast.Integer('1'), ast.Integer('2')])") if op1 == "IN" else ("b", b)
        text = f"a {WORD[op1]} {b_txt} {WORD[op2]} {rhs2}"
        reduce_tree = mk(op2, mk(op1, a, b_tree), r2)
        shift_tree = mk(op1, a, mk(op2, b_tree, r2))
    return text, reduce_tree, shift_tree


PIPELINE = r'''
import json, itertools
from odata_query import ast
from odata_query.grammar import ODataLexer, ODataParser
PREC = PREC_TABLE
WORD = WORD_TABLE
CMP = {"EQ": ast.Eq, "NE": ast.NotEq, "GT": ast.Gt, "GE": ast.GtE, "LT": ast.Lt, "LE": ast.LtE, "IN": ast.In}
AR = {"ADD": ast.Add, "SUB": ast.Sub, "MUL": ast.Mult, "DIV": ast.Div, "MOD": ast.Mod}
BIN = [k for k in PREC if k not in ("NOT", "UMINUS")]
OPS = BIN + ["NOT", "UMINUS"]

def mk(op, l, r=None):
    if op == "NOT":
        return ast.UnaryOp(ast.Not(), l)
    if op == "UMINUS":
        return ast.UnaryOp(ast.USub(), l)
    if op == "IN":
        return ast.Compare(ast.In(), l, ast.List([ast.Integer("1"), ast.Integer("2")]))
    if op in CMP:
        return ast.Compare(CMP[op](), l, r)
    if op in AR:
        return ast.BinOp(AR[op](), l, r)
    return ast.BoolOp(ast.And() if op == "AND" else ast.Or(), l, r)

def opname(n):
    if isinstance(n, ast.UnaryOp):
        return "NOT" if isinstance(n.op, ast.Not) else "UMINUS"
    if isinstance(n, ast.BoolOp):
        return "AND" if isinstance(n.op, ast.And) else "OR"
    if isinstance(n, ast.Compare):
        return [k for k, v in CMP.items() if isinstance(n.comparator, v)][0]
    if isinstance(n, ast.BinOp):
        return [k for k, v in AR.items() if isinstance(n.op, v)][0]
    return None

def render(n, full):
    """reference printer: knows only the specification's precedence table"""
    op = opname(n)
    if op is None:
        if isinstance(n, ast.List):
            return "(" + ", ".join(render(x, full) for x in n.val) + ")"
        return n.name if isinstance(n, ast.Identifier) else n.val
    def sub(c, side):
        t = render(c, full)
        cop = opname(c)
        if cop is None:
            return t
        if full:
            return "(" + t + ")"
        if op in ("NOT", "UMINUS"):
            need = PREC[cop] < PREC[op]
        elif side == "L":
            need = PREC[cop] < PREC[op]
        else:
            need = PREC[cop] <= PREC[op]
        return "(" + t + ")" if need else t
    if op == "NOT":
        return "not " + sub(n.operand, "R")
    if op == "UMINUS":
        return "-" + sub(n.operand, "R")
    if op == "IN":
        return sub(n.left, "L") + " in " + render(n.right, full)
    return sub(n.left, "L") + " " + WORD[op] + " " + sub(n.right, "R")

LEAVES = [ast.Identifier(x) for x in "abcd"]

def trees(ops):
    """all tree shapes over the operator sequence `ops` (root first)"""
    if not ops:
        return [None]
    out = []
    op, rest = ops[0], ops[1:]
    if op in ("NOT", "UMINUS", "IN"):
        for t in trees(rest):
            out.append((op, t))
    else:
        for k in range(len(rest) + 1):
            for l in trees(rest[:k]):
                for r in trees(rest[k:]):
                    out.append((op, l, r))
    return out

def build(t, leaves):
    if t is None:
        return leaves.pop(0)
    if len(t) == 2:
        return mk(t[0], build(t[1], leaves))
    l = build(t[1], leaves)
    r = build(t[2], leaves)
    return mk(t[0], l, r)

problems, n = [], 0
for ops in itertools.product(OPS, repeat=DEPTH):
    for shape in trees(list(ops)):
        tree = build(shape, list(LEAVES) + list(LEAVES))
        for full in (False, True):
            text = render(tree, full)
            n += 1
            try:
                got = ODataParser().parse(ODataLexer().tokenize(text))
            except Exception as ex:
                problems.append([text, type(ex).__name__ + ": " + str(ex)[:80]])
                continue
            if got != tree:
                problems.append([text, render(got, True)])
print(json.dumps({"violates": bool(problems), "cases": n, "problems": problems[:5]}))
'''


def run_family(facts, fam, tier):
    timeout = TIMEOUT[tier]
    P = facts.raw["parser"]
    if fam == "cfg.table":
        ok = not P["sr_conflicts"] and not P["rr_conflicts"] and not P["defaulted_states"]
        # SLY records conflicts resolved by precedence in sr_conflicts only when unresolved
        return [{"name": "C05:odata_query.grammar.ODataParser:lr.conflicts", "clause": "lr.conflicts", "seconds": 0.0,
                 "backend": "finite-check", "status": "discharged" if ok else "refuted",
                 "reason": f"unresolved shift/reduce={len(P['sr_conflicts'])} reduce/reduce={len(P['rr_conflicts'])} "
                           f"defaulted_states={len(P['defaulted_states'])}"}]
    if fam == "lrtable":
        out = []
        prods = {p["number"]: p for p in P["productions"]}
        seen_ops = set()
        for s, row in sorted(P["lr_action"].items(), key=lambda kv: int(kv[0])):
            reds = {-a for a in row.values() if a < 0}
            opred = [pn for pn in reds if op_of_production(prods[pn])]
            for pn in opred:
                op1 = op_of_production(prods[pn])
                seen_ops.add(op1)
                for op2 in BINOPS:
                    act = row.get(op2)
                    want = "reduce" if expect_reduce(op1, op2) else "shift"
                    got = "error" if act is None else ("reduce" if act < 0 else "shift")
                    ok = got == want and (got != "reduce" or -act == pn)
                    rule = f"{prods[pn]['name']} -> {' '.join(prods[pn]['prod'])}"
                    out.append({"name": f"C05:lrtable:state={s}:reduce[{rule}]/lookahead={op2}", "clause": "lr.resolve",
                                "status": "discharged" if ok else "refuted", "seconds": 0.0, "backend": "finite-check",
                                "reason": f"table={got} spec={want}", "op1": op1, "op2": op2, "want": want, "got": got})
        # every operator of the specification must be covered by some state (non-vacuity)
        for op in list(PREC_ODATA):
            ok = op in seen_ops
            out.append({"name": f"C05:lrtable:cover[{op}]", "clause": "lr.cover", "status": "discharged" if ok else "undecided",
                        "seconds": 0.0, "backend": "finite-check", "selfcheck_failed": not ok,
                        "reason": "a state reduces by this operator's production" if ok else "no state reduces by this operator: table shape not understood"})
        return out
    if fam == "bounded.pipeline":
        depth = 2 if tier == "quick" else 3
        script = PIPELINE.replace("PREC_TABLE", repr(PREC_ODATA)).replace("WORD_TABLE", repr(WORD)).replace("DEPTH", str(depth))
        t0 = time.time()
        nat = native_run(script, timeout=1500)
        ok = nat.get("violates") is False
        return [{"name": "C05:pipeline:bounded", "clause": "bounded", "bounded": True,
                 "status": "discharged" if ok else ("refuted" if nat.get("violates") else "undecided"),
                 "seconds": time.time() - t0, "backend": "native enumeration (bounded, not a proof)",
                 "bound": f"every sequence of {depth} operators (14 binary + not + unary minus) in every tree shape, minimally and fully "
                          f"parenthesised by a printer that knows only the specification's table: {nat.get('cases')} texts",
                 "reason": json.dumps(nat)[:300], "native_script": script}]
    c = G.build(facts)
    if fam.startswith("prod["):
        prod = P["productions"][int(fam[5:-1])]
        rs = G.run_production(c, prod, timeout, "C05")
        return [r for r in rs if r["clause"] in ("post.value", "post.raise", "safety.raise", "unsupported", "pre.shape",
                                                 "pre.path", "cover")]
    if fam == "canary":
        # must be refuted: swapping the operands of a binary production is not the prescribed node
        U, PV = c["U"], c["PV"]
        a, b, op = z3.Const("a", PV), z3.Const("b", PV), z3.Const("op", PV)
        r = judge(c["E"], "C05:canary:operands-swapped", "canary", [a != b],
                  U.node("BinOp", op, a, b) == U.node("BinOp", op, b, a), None, timeout)
        good = r["status"] == "refuted"
        return [{"name": r["name"], "clause": "canary", "status": "discharged" if good else "undecided",
                 "seconds": r["seconds"], "canary": True, "selfcheck_failed": not good,
                 "reason": "wrong postcondition refuted as required" if good else "canary NOT refuted"}]
    raise ValueError(fam)


def replay_spec(facts, r):
    if r.get("clause") == "lr.resolve":
        text, red, shf = sample_text(r["op1"], r["op2"])
        want = red if r["want"] == "reduce" else shf
        script = f"""
import json
from odata_query import ast
from odata_query.grammar import ODataLexer, ODataParser
text = {text!r}
want = {want}
try:
    got = ODataParser().parse(ODataLexer().tokenize(text))
    err = None
except Exception as ex:
    got, err = None, type(ex).__name__ + ': ' + str(ex)
print(json.dumps({{'violates': got != want, 'text': text, 'got': repr(got), 'want': repr(want), 'error': err}}))
"""
        return {"native_script": script, "input_text": text, "required": f"parse == {want}"}
    if r.get("bounded") and r.get("native_script"):
        return {"native_script": r["native_script"], "input_text": r.get("bound"), "required": "parse(render(t)) == t"}
    if "tree" in (r.get("witness") or {}):
        return G.production_replay_spec(facts, r)
    return None


def evidence(facts, results):
    return {
        "trusted_base": ["z3 5.1.0", "pyvc symbolic executor and Python semantics of DESIGN section 4",
                         "PREC_ODATA in contracts/C05.py (OData 4.01 part 2, 5.1.1.14)",
                         "model of sly.yacc.YaccProduction indexing/naming (from SLY's own accessor table, extracted every run)"],
        "assumptions": ["SLY's driver executes the generated LR table and calls each action with its rule's semantic values",
                        "precedence-resolved LR conflicts of an operator grammar yield the precedence-climbing tree "
                        "(Aho, Johnson, Ullman 1975): cited, not mechanised -- the exhaustive table check decides every resolution, "
                        "the theorem connects resolutions to tree shape",
                        "contract of _reverse_attributes (== prepend_path) is covered by a bounded stand-in only (see C10)",
                        "token actions deliver the operator/literal nodes of their token type (proved in C06/C10)"],
        "explanation": "prescribed node per production (59 rules), exhaustive LR-table resolution check against the specification's "
                       "precedence, bounded whole-pipeline stand-in.",
    }


if __name__ == "__main__":
    import sys
    from vc.runner import main
    sys.exit(main(sys.modules[__name__]))
