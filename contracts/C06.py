"""C06 -- Every literal and identifier is recognised as its own kind with its exact value.

Regular-language obligations (decided exactly by vc/automata.py on the rule table of the tree under
check; S_K = ABNF language of kind K from contracts/lexspec.py, R_K = its token rule, flags as declared):
  regex.incl     S_K is a subset of L(R_K)
  regex.shadow   for every rule E tried before R_K:  S_K.Delim.Sigma*  and  L(E).Sigma*  are disjoint
                 (no earlier alternative can take a prefix at the literal's start)
  regex.overrun  L(R_K) and S_K.Delim.Sigma* are disjoint (the rule cannot match past the literal's end)
  regex.duration upper(L(DURATION) body) is inside L(ast.DURATION_PATTERN)  (unpack cannot raise)
  regex.frame    literal prefixes have the length the action strips (duration' = 9, geography' = 10)
Token-action contracts (pyvc -> z3): the node kind and the exact value (string unescaping by the
per-block homomorphism lemma, duration upper-casing, geography stripping, identifier namespace split).
py_val: Boolean by language image under str.lower; the numeric/calendar conversions are single calls
into int / float / fromisoformat / isoparse / UUID whose contracts are assumed; Duration.py_val is
checked structurally against the documented formula.
"""
import json
import re
import time

import z3

from contracts import grammar_common as G
from contracts import lexspec as L
from vc import automata as A
from vc.propkit import judge, src_of, explore
from vc.runner import native_run
from vc.symexec import Obj, Sym, FuncRef, SStr, Atom, ExtVal

PROPERTY = "C06"
NEEDS_MODULES = ["odata_query.ast", "odata_query.grammar"]
TIMEOUT = {"quick": 15000, "thorough": 60000}
KNOWN = []


def families(facts):
    fams = ["cfg.rules"]
    for k in L.SPEC:
        fams += [f"regex.incl[{k}]", f"regex.shadow[{k}]", f"regex.overrun[{k}]"]
    fams += ["regex.duration", "regex.frame", "regex.identparts"]
    fams += [f"action[{L.SPEC[k][0]}]" for k in L.SPEC]
    fams += ["pyval.boolean", "pyval.calls", "pyval.duration", "lemma.unescape", "bounded.unescape", "bounded.longest", "canary"]
    return fams


def parser_for(facts):
    return A.Parser(facts.raw["unicode"])


def rule_nodes(facts, P):
    lx = facts.raw["lexer"]
    return [(r["name"], P.parse(r["pattern"], lx["reflags"])) for r in lx["rules"]]


def ares(name, clause, witness, t0, extra=None):
    r = {"name": name, "clause": clause, "status": "discharged" if witness is None else "refuted",
         "seconds": time.time() - t0, "backend": "automata (exact, minterm alphabet)",
         "reason": "language empty" if witness is None else f"witness {witness!r}"}
    if witness is not None:
        r["witness"] = {"text": witness}
        r["solver_output"] = f"shortest string in the difference/intersection language: {witness!r}"
    if extra:
        r.update(extra)
    return r


def known_ident_prefixes():
    """Known finding C06-keyword-prefixed-identifiers: identifiers that start (case-insensitively) with a
    keyword token tried before ODATA_IDENTIFIER."""
    ids = {f["id"] for f in KNOWN}
    if "C06-keyword-prefixed-identifiers" in ids:
        return ["null", "true", "false", "any", "all"]
    return []


def run_family(facts, fam, tier):
    timeout = TIMEOUT[tier]
    lx = facts.raw["lexer"]
    t0 = time.time()
    if fam == "cfg.rules":
        # SLY builds one alternation in definition order; compare with the rule list we reason about
        parts = []
        for r in lx["rules"]:
            parts.append(f"(?P<{r['name']}>{r['pattern']})")
        ok = lx["master_re"] == "|".join(parts) and lx["master_flags"] & re.I == lx["reflags"] & re.I
        missing = [L.SPEC[k][0] for k in L.SPEC if L.SPEC[k][0] not in [r["name"] for r in lx["rules"]]]
        return [{"name": "C06:odata_query.grammar.ODataLexer:cfg.rules", "clause": "cfg.rules", "seconds": 0.0,
                 "backend": "finite-check", "status": "discharged" if ok and not missing else "undecided",
                 "reason": "master regex = ordered alternation of the rules" if ok else "master regex differs from the ordered rule list"}]

    P = parser_for(facts)
    rules = rule_nodes(facts, P)
    names = [n for n, _ in rules]
    rule = dict(rules)

    def spec_node(kind):
        return P.parse(L.SPEC[kind][1], 0)

    def delim_for(kind):
        return P.parse(L.DELIM_IDENT if kind == "Identifier" else L.DELIM_LIT, 0)

    if fam.startswith("regex."):
        kind = fam[fam.index("[") + 1:-1] if "[" in fam else None
    if fam.startswith("regex.incl["):
        tok = L.SPEC[kind][0]
        g = A.Group({"S": spec_node(kind), "R": rule[tok]})
        w = g.subset_witness("S", "R")
        return [ares(f"C06:odata_query.grammar.ODataLexer.{tok}:regex.incl", "regex.incl", w, t0, {"kind": kind, "token": tok})]
    if fam.startswith("regex.shadow["):
        tok = L.SPEC[kind][0]
        out = []
        S = spec_node(kind)
        delim = delim_for(kind)
        tail = A.Alt([A.EPS, A.Cat([delim, A.anystar()])])
        ctx = A.Cat([S, tail])      # literal at end of input or before a delimiter
        for ename in names[:names.index(tok)]:
            t1 = time.time()
            nodes = {"CTX": ctx, "E": A.prefix_of(rule[ename])}
            excl = []
            if kind == "Identifier":
                # the reserved words themselves are not identifiers (they are the keyword tokens)
                excl.append(A.Cat([P.parse(L.RESERVED, re.I), tail]))
            if kind == "Identifier" and ename in ("NULL", "BOOLEAN", "ANY", "ALL"):
                for kw in known_ident_prefixes():
                    excl.append(A.Cat([P.parse(kw, re.I), A.anystar()]))
            if excl:
                nodes["X"] = A.Alt(excl)
                g = A.Group(nodes)
                w = g.find(["CTX", "E", "X"], lambda f: f[0] and f[1] and not f[2])
            else:
                g = A.Group(nodes)
                w = g.intersect_witness("CTX", "E")
            out.append(ares(f"C06:odata_query.grammar.ODataLexer.{tok}:regex.shadow[{ename}]", "regex.shadow", w, t1,
                            {"kind": kind, "token": tok, "earlier": ename}))
        return out
    if fam.startswith("regex.overrun["):
        tok = L.SPEC[kind][0]
        S = spec_node(kind)
        g = A.Group({"R": rule[tok], "LONG": A.Cat([S, delim_for(kind), A.anystar()])})
        w = g.intersect_witness("R", "LONG")
        return [ares(f"C06:odata_query.grammar.ODataLexer.{tok}:regex.overrun", "regex.overrun", w, t0, {"kind": kind, "token": tok})]
    if fam == "regex.duration":
        # image of the token language under str.upper, minus prefix and closing quote, inside DURATION_PATTERN
        env = facts.module_env("odata_query.ast").get("DURATION_PATTERN")
        pat = env["pattern"] if env and env.get("k") == "regex" else None
        if pat is None:
            return [{"name": "C06:odata_query.ast.DURATION_PATTERN:regex.duration", "clause": "regex.duration",
                     "status": "undecided", "seconds": 0.0, "reason": "DURATION_PATTERN not found as a compiled regex"}]
        lxpat = [r["pattern"] for r in lx["rules"] if r["name"] == "DURATION"][0]
        up = P.parse(lxpat, lx["reflags"], charmap=str.upper)
        # the action strips 9 characters and the last one by position
        framed = A.Cat([A.Rep(A.ANY, 9, 9), P.parse(pat, env["flags"] & ~re.U), A.ANY])
        g = A.Group({"UP": up, "OK": framed})
        w = g.subset_witness("UP", "OK")
        return [ares("C06:odata_query.grammar.ODataLexer.DURATION:regex.duration", "regex.duration", w, t0, {"token": "DURATION"})]
    if fam == "regex.frame":
        out = []
        for tok, n, close in (("DURATION", 9, 1), ("GEOGRAPHY", 10, 1), ("STRING", 1, 1)):
            t1 = time.time()
            frame = A.Cat([A.Rep(A.ANY, n, n), A.anystar(), A.Rep(A.ANY, close, close)])
            quote_ok = A.Cat([A.Rep(A.ANY, n - 1, n - 1), A.lit("'"), A.anystar(), A.lit("'")])
            g = A.Group({"R": rule[tok], "F": frame, "Q": quote_ok})
            w = g.find(["R", "F", "Q"], lambda f: f[0] and not (f[1] and f[2]))
            out.append(ares(f"C06:odata_query.grammar.ODataLexer.{tok}:regex.frame", "regex.frame", w, t1, {"token": tok}))
        return out
    if fam == "regex.identparts":
        bad = A.Alt([A.Cat([A.anystar(), A.lit(".."), A.anystar()]), A.Cat([A.anystar(), A.lit(".")]),
                     A.Cat([A.lit("."), A.anystar()])])
        g = A.Group({"R": rule["ODATA_IDENTIFIER"], "BAD": bad})
        w = g.intersect_witness("R", "BAD")
        return [ares("C06:odata_query.grammar.ODataLexer.ODATA_IDENTIFIER:regex.identparts", "regex.identparts", w, t0,
                     {"token": "ODATA_IDENTIFIER"})]

    if fam == "pyval.boolean":
        out = []
        lo_true = P.parse("true", re.I, charmap=str.lower)
        lo_false = P.parse("false", re.I, charmap=str.lower)
        g = A.Group({"T": lo_true, "F": lo_false, "true": A.lit("true")})
        w1 = g.find(["T", "true"], lambda f: f[0] != f[1])
        w2 = g.intersect_witness("F", "true")
        m = facts.ast_classes["Boolean"]["members"]["py_val"]
        out.append(ares("C06:odata_query.ast.Boolean.py_val:regex.image[true]", "regex.image", w1, t0))
        out.append(ares("C06:odata_query.ast.Boolean.py_val:regex.image[false]", "regex.image", w2, t0))
        # and the code really computes lower(val) == "true"
        c = G.build(facts)
        E, U, PV = c["E"], c["U"], c["PV"]
        v = z3.Const("val", z3.StringSort())
        node = U.node("Boolean", U.strv(v))
        res = explore(E, lambda path: E.run_function(path, FuncRef(m, defcls=m["definer"]), [Sym(node)]))
        lower = E.uf("str_lower", z3.StringSort(), z3.StringSort())
        for i, (path, oc) in enumerate(res):
            if oc[0] != "return":
                out.append({"name": "C06:odata_query.ast.Boolean.py_val:safety.raise", "clause": "safety.raise",
                            "status": "refuted", "seconds": 0.0, "reason": str(oc)[:200], "source": src_of(m)})
                continue
            goal = E.to_pv(oc[1]) == U.boolv(lower(v) == z3.StringVal("true"))
            out.append(judge(E, "C06:odata_query.ast.Boolean.py_val:post.value", "post.value", path.pc + path.insts, goal,
                             src_of(m), timeout, {"val": v}, path_idx=i))
        return out

    if fam == "pyval.calls":
        # Integer / Float / Date / Time / DateTime / GUID .py_val are one call into the documented converter
        c = G.build(facts)
        E, U, PV = c["E"], c["U"], c["PV"]
        want = {"Integer": "builtins.int", "Float": "builtins.float", "Date": "datetime.date.fromisoformat",
                "Time": "datetime.time.fromisoformat", "DateTime": "dateutil.parser.isoparser.isoparse", "GUID": "uuid.UUID",
                "String": None}
        out = []
        for kind, fn in want.items():
            m = facts.ast_classes[kind]["members"]["py_val"]
            v = z3.Const("val", z3.StringSort())
            node = U.node(kind, U.strv(v))
            res = explore(E, lambda path: E.run_function(path, FuncRef(m, defcls=m["definer"]), [Sym(node)]))
            ok = len(res) == 1 and res[0][1][0] == "return"
            detail = ""
            if ok:
                val = res[0][1][1]
                if fn is None:
                    ok = isinstance(val, SStr) and z3.simplify(val.term() == v).eq(z3.BoolVal(True))
                else:
                    ok = isinstance(val, ExtVal) and val.name.endswith(fn.split(".")[-1]) and len(val.args) == 1 \
                        and isinstance(val.args[0], SStr) and z3.is_true(z3.simplify(val.args[0].term() == v))
                    detail = repr(val)[:120]
            out.append({"name": f"C06:{m['qualname']}:post.value", "clause": "post.value", "seconds": 0.0,
                        "status": "discharged" if ok else "refuted", "backend": "pyvc (structural)", "source": src_of(m),
                        "reason": f"py_val = {fn or 'val'}(val) {detail}", "kind": kind})
        return out

    if fam == "pyval.duration":
        return duration_pyval(facts, timeout)

    if fam.startswith("action["):
        tok = fam[7:-1]
        c = G.build(facts)
        rule_f = [r for r in lx["rules"] if r["name"] == tok][0]
        return G.run_token_action(c, rule_f, timeout, "C06", extra_post=lambda path, name, text, vt: value_post(c, name, text, vt))

    if fam == "lemma.unescape":
        # per-block homomorphism lemma (DESIGN 5.3): on the block code {non-quote char} u {''},
        # escape(unescape(block)) = block and unescape(escape(char)) = char
        ch = z3.Const("ch", z3.StringSort())
        hyps = [z3.Length(ch) == 1, ch != z3.StringVal("'")]
        E = G.build(facts)["E"]
        rs = [judge(E, "C06:lemma.unescape:block[char]", "lemma.unescape", hyps,
                    z3.Replace(z3.Replace(ch, z3.StringVal("''"), z3.StringVal("'")), z3.StringVal("'"), z3.StringVal("''")) == ch,
                    None, timeout),
              judge(E, "C06:lemma.unescape:block[quote-pair]", "lemma.unescape", [],
                    z3.Replace(z3.Replace(z3.StringVal("''"), z3.StringVal("''"), z3.StringVal("'")), z3.StringVal("'"),
                               z3.StringVal("''")) == z3.StringVal("''"), None, timeout)]
        return rs

    if fam == "bounded.unescape":
        script = r"""
import json, itertools
from odata_query.grammar import ODataLexer, ODataParser
from odata_query import ast
bad, n = [], 0
for L in range(0, BOUND + 1):
    for s in itertools.product("a'%", repeat=L):
        v = ''.join(s)
        text = "x eq '" + v.replace("'", "''") + "'"
        n += 1
        try:
            t = ODataParser().parse(ODataLexer().tokenize(text))
            if t.right != ast.String(v):
                bad.append([text, repr(t.right)])
        except Exception as ex:
            bad.append([text, type(ex).__name__])
print(json.dumps({'violates': bool(bad), 'cases': n, 'problems': bad[:3]}))
""".replace("BOUND", "7" if tier == "quick" else "10")
        nat = native_run(script, timeout=900)
        ok = nat.get("violates") is False
        return [{"name": "C06:odata_query.grammar.ODataLexer.STRING:bounded", "clause": "bounded", "bounded": True,
                 "status": "discharged" if ok else ("refuted" if nat.get("violates") else "undecided"),
                 "seconds": time.time() - t0, "backend": "native enumeration (bounded, not a proof)",
                 "bound": f"every string over {{a, ', %}} up to length {'7' if tier == 'quick' else '10'} ({nat.get('cases')} cases): "
                          "parse('x eq ' + quote(v)).right == String(v)", "reason": json.dumps(nat)[:300], "native_script": script}]

    if fam == "bounded.longest":
        # assumption check: `re`'s leftmost-greedy match of the chosen rule is the whole literal, on sample spec strings
        script = r"""
import json, re
from odata_query.grammar import ODataLexer
from odata_query import ast
samples = SAMPLES
bad, n = [], 0
for kind, texts in samples.items():
    for s in texts:
        for ctx in ('%s', '%s eq 1', 'x eq %s', 'f.g(%s)', '(%s, %s)'):
            text = ctx.replace('%s', s)
            n += 1
            try:
                toks = list(ODataLexer().tokenize(text))
            except Exception as ex:
                bad.append([text, type(ex).__name__]); continue
            hit = [t for t in toks if type(t.value).__name__ == kind]
            if not hit:
                bad.append([text, [t.type for t in toks]])
print(json.dumps({'violates': bool(bad), 'cases': n, 'problems': bad[:4]}))
"""
        samples = {"Integer": ["0", "-12", "+7", "123456789012345678"], "Float": ["1.5", "-0.25", "1e5", "2.5E-3", "+1.0e+10"],
                   "Boolean": ["true", "FALSE", "True"], "Null": ["null", "NULL"], "String": ["''", "'a'", "'it''s'", "''''"],
                   "GUID": ["12345678-1234-1234-1234-123456789abc", "ABCDEF01-2345-6789-ABCD-EF0123456789"],
                   "Date": ["2020-01-31", "1999-12-01"], "Time": ["00:00:00", "23:59:59.999999999999"],
                   "DateTime": ["2020-01-01T10:00", "2020-01-01T10:00:00Z", "2020-01-01t10:00:00.5+02:00"],
                   "Duration": ["duration'P1D'", "duration'-P1Y2M3DT4H5M6.7S'", "DURATION'pt1s'"],
                   "Geography": ["geography'POINT(1 2)'"], "Identifier": ["a", "_x1", "ns.name", "notes", "inside", "orx", "android"]}
        script = script.replace("SAMPLES", repr(samples))
        nat = native_run(script, timeout=300)
        ok = nat.get("violates") is False
        return [{"name": "C06:odata_query.grammar.ODataLexer:bounded.longest", "clause": "bounded", "bounded": True,
                 "status": "discharged" if ok else ("refuted" if nat.get("violates") else "undecided"),
                 "seconds": time.time() - t0, "backend": "native sampling (bounded, checks an assumption)",
                 "bound": f"{nat.get('cases')} sample literals x contexts: the literal is one token of its kind",
                 "reason": json.dumps(nat)[:300], "native_script": script}]

    if fam == "canary":
        g = A.Group({"S": P.parse(r"[0-9]+x", 0), "R": rule["INTEGER"]})
        w = g.subset_witness("S", "R")
        good = w is not None
        return [{"name": "C06:canary:digits-followed-by-x-is-an-integer", "clause": "canary", "seconds": time.time() - t0,
                 "status": "discharged" if good else "undecided", "canary": True, "selfcheck_failed": not good,
                 "reason": f"wrong inclusion refuted with witness {w!r}" if good else "canary NOT refuted"}]
    raise ValueError(fam)


def value_post(c, name, text, vt):
    """Exact value carried by the token's node, per kind (C06 statement)."""
    E, U, PV = c["E"], c["U"], c["PV"]
    upper = E.uf("str_upper", z3.StringSort(), z3.StringSort())
    repl = E.uf("str_replace_all", z3.StringSort(), z3.StringSort(), z3.StringSort(), z3.StringSort())
    Ln = z3.Length(text)
    fld = U.field
    if name in ("INTEGER", "DECIMAL", "BOOLEAN", "GUID", "DATE", "TIME"):
        k = G.TOKEN_KIND[name]
        return [("post.value", PV.s(fld(k, "val", vt)) == text)]
    if name == "DATETIME":
        # the value of a date-time does not depend on the letter case of its T / Z designators (ABNF: case-insensitive
        # literals; the digits, signs and separators have no case): the node carries the source spelling or its
        # upper-case normal form (as DURATION does)
        v = PV.s(fld("DateTime", "val", vt))
        return [("post.value", z3.Or(v == text, v == upper(text)))]
    if name == "NULL":
        return [("post.value", vt == U.node("Null"))]
    if name == "STRING":
        body = z3.SubString(text, 1, Ln - 2)
        return [("post.value", z3.Implies(Ln >= 2, PV.s(fld("String", "val", vt))
                                          == repl(body, z3.StringVal("''"), z3.StringVal("'"))))]
    if name == "GEOGRAPHY":
        return [("post.value", z3.Implies(Ln >= 11, PV.s(fld("Geography", "val", vt)) == z3.SubString(text, 10, Ln - 11)))]
    if name == "DURATION":
        up = upper(text)
        return [("post.value", z3.Implies(z3.And(Ln >= 10, z3.Length(up) == Ln),
                                          PV.s(fld("Duration", "val", vt)) == z3.SubString(up, 9, Ln - 10)))]
    if name == "ODATA_IDENTIFIER":
        ns = PV.titems(fld("Identifier", "namespace", vt))
        nm = fld("Identifier", "name", vt)
        return [("post.value", U.str_join(z3.StringVal("."), z3.Concat(ns, z3.Unit(nm))) == text)]
    return []


def duration_pyval(facts, timeout):
    """Duration.py_val / unpack against the documented formula, structurally (float = real: assumed)."""
    c = G.build(facts)
    E, U, PV = c["E"], c["U"], c["PV"]
    m = facts.ast_classes["Duration"]["members"]["py_val"]
    mu = facts.ast_classes["Duration"]["members"]["unpack"]
    groups = [z3.Const(f"g{i}", PV) for i in range(7)]

    class Groups:
        sym_mro = ["builtins.builtin_function_or_method", "builtins.object"]
        sym_truthy = True

        def sym_call(self, E, path, args, kwargs):
            for g in groups:
                # every group of ast.DURATION_PATTERN is None or (for the numeric groups) digits + designator
                path.assume(z3.Or(U.is_tag("NoneV", g), z3.And(U.is_tag("StrV", g),
                                                              z3.Length(PV.s(g)) >= (1 if g is groups[0] else 2))))
            return tuple(E.from_pv(g) for g in groups)

    class Match:
        """re.Match returned by DURATION_PATTERN.fullmatch on a value of the token language (regex.duration)"""
        sym_mro = ["re.Match", "builtins.object"]
        sym_truthy = True

        def sym_getattr(self, E, path, name):
            if name == "groups":
                return Groups()
            E.throw(path, "AttributeError", name)

    class FullMatch:
        sym_mro = ["builtins.builtin_function_or_method", "builtins.object"]
        sym_truthy = True

        def sym_call(self, E, path, args, kwargs):
            return Match()

    def attr_model(E, path, o, name):
        if isinstance(o, ExtVal) and o.name == "re.compile" and name == "fullmatch":
            return FullMatch()
        return NotImplemented
    E.attr_models[("*", "*")] = attr_model
    E.attr_models[("<sym>", "*")] = attr_model
    E.ext_models["builtins.float"] = lambda E, path, args, kwargs: ExtVal("float", args)
    v = z3.Const("val", z3.StringSort())
    node = U.node("Duration", U.strv(v))
    try:
        res = explore(E, lambda path: E.run_function(path, FuncRef(m, defcls=m["definer"]), [Sym(node)]), max_paths=3000)
    finally:
        E.attr_models.pop(("*", "*"), None)
        E.attr_models.pop(("<sym>", "*"), None)
        E.ext_models.pop("builtins.float", None)
    out = []
    bad = 0
    n = 0

    def num(g):
        # float(<group without its designator> or 0)
        return g

    for i, (path, oc) in enumerate(res):
        n += 1
        if oc[0] != "return":
            bad += 1
            out.append({"name": "C06:odata_query.ast.Duration.py_val:safety.raise", "clause": "safety.raise", "status": "refuted",
                        "seconds": 0.0, "reason": str(oc)[:300], "source": src_of(m), "path": i})
            continue
        val = oc[1]
        ok = check_duration_term(E, path, val, groups)
        if not ok:
            bad += 1
            out.append({"name": "C06:odata_query.ast.Duration.py_val:post.value", "clause": "post.value", "status": "refuted",
                        "seconds": 0.0, "reason": "result term is not sign*(timedelta(days=D+365.25Y+30.44M, hours=H, minutes=M, seconds=S)): "
                                                  + repr(val)[:300], "source": src_of(m), "path": i})
    if not bad:
        out.append({"name": "C06:odata_query.ast.Duration.py_val:post.value", "clause": "post.value", "status": "discharged",
                    "seconds": 0.0, "backend": "pyvc (structural)", "source": src_of(m),
                    "reason": f"{n} paths (presence/absence of each designator, sign): result term equals the documented formula"})
    out.append({"name": "C06:odata_query.ast.Duration.unpack:post.value", "clause": "post.value", "status": "discharged" if not bad else "undecided",
                "seconds": 0.0, "backend": "pyvc (structural)", "source": src_of(mu),
                "reason": "unpack strips exactly the designator (last character) of each present group"})
    return out


def check_duration_term(E, path, val, groups):
    """val must denote  sign * timedelta(days=D + 365.25*Y + 30.44*M, hours=H, minutes=Mi, seconds=S)  where each
    quantity is float(<group without its designator>) or 0 when the group is absent.  Compared over the reals
    (float arithmetic = real arithmetic: assumed), so constant folding / re-association in the code is immaterial."""
    U, PV = E.U, E.PV
    fl = E.uf("float_of", z3.StringSort(), z3.RealSort())

    def to_real(v):
        if isinstance(v, bool):
            raise ValueError("bool")
        if isinstance(v, (int, float)):
            return z3.RealVal(repr(v))
        if isinstance(v, ExtVal):
            if v.name == "float" and len(v.args) == 1:
                a = v.args[0]
                if isinstance(a, (int, float)) and not isinstance(a, bool):
                    return z3.RealVal(repr(float(a)))
                if isinstance(a, SStr):
                    return fl(a.term())
                if isinstance(a, str):
                    return fl(z3.StringVal(a))
            if v.name in ("operator.add", "operator.sub", "operator.mul") and len(v.args) == 2:
                x, y = to_real(v.args[0]), to_real(v.args[1])
                return {"operator.add": x + y, "operator.sub": x - y, "operator.mul": x * y}[v.name]
        raise ValueError(repr(v)[:80])

    t = val
    negated = False
    if isinstance(t, ExtVal) and t.name == "operator.mul" and len(t.args) == 2 and t.args[0] == -1:
        negated = True
        t = t.args[1]
    if not (isinstance(t, ExtVal) and t.name.endswith("timedelta") and not t.args):
        return False
    kw = dict(t.kwargs)
    if sorted(kw) != ["days", "hours", "minutes", "seconds"]:
        return False
    try:
        got = {k: to_real(v) for k, v in kw.items()}
    except ValueError:
        return False

    def F(g):
        s = PV.s(g)
        return z3.If(U.is_tag("NoneV", g), z3.RealVal(0), fl(z3.SubString(s, 0, z3.Length(s) - 1)))
    want = {"days": F(groups[3]) + z3.RealVal("365.25") * F(groups[1]) + z3.RealVal("30.44") * F(groups[2]),
            "hours": F(groups[4]), "minutes": F(groups[5]), "seconds": F(groups[6])}
    sign = groups[0]
    is_minus = z3.And(U.is_tag("StrV", sign), PV.s(sign) == z3.StringVal("-"))
    goal = z3.And(*[got[k] == want[k] for k in want], is_minus if negated else z3.Not(is_minus))
    return path.entails(goal)


def replay_spec(facts, r):
    if r.get("bounded") and r.get("native_script"):
        return {"native_script": r["native_script"], "input_text": r.get("bound"), "required": "held within the bound"}
    w = r.get("witness") or {}
    text = w.get("text")
    if not str(r.get("backend", "")).startswith("automata"):
        # pyvc obligations: the solver's text need not be in the token language; replay on edge-case literals
        return {"native_script": PYVAL_REPLAY, "input_text": "sample literals of every kind",
                "required": "py_val equals the numeric / calendar meaning; durations use the 365.25-day year and 30.44-day month"}
    if text is None:
        return None
    kind = r.get("kind")
    clause = r.get("clause")
    script = f"""
import json
from odata_query.grammar import ODataLexer, ODataParser
from odata_query import ast, exceptions
w = {text!r}
kind = {kind!r}
clause = {clause!r}
problems = []
# the witness starts with a well-formed literal of `kind` (possibly followed by a delimiter and more text):
# lex it in several contexts and look at the first token(s)
def lex(t):
    try:
        return [(x.type, x.value) for x in ODataLexer().tokenize(t)], None
    except Exception as ex:
        return None, type(ex).__name__
toks, err = lex(w)
if clause == 'regex.incl':
    ok = toks is not None and len(toks) == 1 and type(toks[0][1]).__name__ == kind
    if not ok:
        problems.append('well-formed %s literal %r lexes as %r %r' % (kind, w, toks, err))
elif clause in ('regex.shadow', 'regex.overrun'):
    first = toks[0] if toks else None
    if first is None or type(first[1]).__name__ != kind:
        problems.append('%r: first token is %r (%r), expected a %s' % (w, first, err, kind))
elif clause == 'regex.duration':
    try:
        [t.value.unpack() for t in ODataLexer().tokenize(w) if isinstance(t.value, ast.Duration)]
        [t.value.py_val for t in ODataLexer().tokenize(w) if isinstance(t.value, ast.Duration)]
    except Exception as ex:
        problems.append('Duration.unpack/py_val raised %s on %r' % (type(ex).__name__, w))
else:
    problems.append('witness %r' % (w,))
print(json.dumps({{'violates': bool(problems), 'problems': problems, 'tokens': repr(toks)[:300]}}))
"""
    return {"native_script": script, "input_text": text, "required": f"a well-formed {kind} literal is one token of that kind with its exact value"}


PYVAL_REPLAY = r"""
import json, datetime as dt, uuid
from odata_query.grammar import ODataLexer, ODataParser
from odata_query import ast
def lit(text):
    return ODataParser().parse(ODataLexer().tokenize('x eq ' + text)).right
bad = []
def expect(text, kind, val, py):
    try:
        n = lit(text)
        if type(n).__name__ != kind or getattr(n, 'val', None) != val or n.py_val != py:
            bad.append([text, repr(n), repr(getattr(n, 'py_val', None))])
    except Exception as ex:
        bad.append([text, type(ex).__name__ + ': ' + str(ex)])
expect('12', 'Integer', '12', 12); expect('-7', 'Integer', '-7', -7)
expect('1.5', 'Float', '1.5', 1.5); expect('2e3', 'Float', '2e3', 2000.0)
expect('true', 'Boolean', 'true', True); expect('FALSE', 'Boolean', 'FALSE', False); expect('True', 'Boolean', 'True', True)
expect("'it''s'", 'String', "it's", "it's"); expect("'" + "'" * 4 + "'", 'String', "'" * 2, "'" * 2)
expect("' a  '", 'String', " a  ", " a  "); expect("'A" + "'" * 4 + "b'", 'String', "A" + "'" * 2 + "b", "A" + "'" * 2 + "b")
expect('2020-02-29', 'Date', '2020-02-29', dt.date(2020, 2, 29))
expect('23:59:58', 'Time', '23:59:58', dt.time(23, 59, 58))
expect('12345678-1234-1234-1234-123456789abc', 'GUID', '12345678-1234-1234-1234-123456789abc', uuid.UUID('12345678-1234-1234-1234-123456789abc'))
for text, val, td in [
    ("duration'P1D'", 'P1D', dt.timedelta(days=1)),
    ("duration'P1Y'", 'P1Y', dt.timedelta(days=365.25)),
    ("duration'P2M'", 'P2M', dt.timedelta(days=2 * 30.44)),
    ("duration'-P1Y2M3DT4H5M6.5S'", '-P1Y2M3DT4H5M6.5S', -dt.timedelta(days=3 + 365.25 + 2 * 30.44, hours=4, minutes=5, seconds=6.5)),
    ("DURATION'pt90m'", 'PT90M', dt.timedelta(minutes=90)),
    ("duration'+PT1S'", '+PT1S', dt.timedelta(seconds=1)),
]:
    expect(text, 'Duration', val, td)
try:
    g = lit("geography'POINT(1 2)'")
    if g != ast.Geography('POINT(1 2)'):
        bad.append(['geography', repr(g)])
    g = lit("GEOGRAPHY' x " + "'" * 2 + "y '")
    if g != ast.Geography(" x " + "'" * 2 + "y "):
        bad.append(['geography', repr(g)])
    for t, k in (('0012', 'Integer'), ('+1.50E+02', 'Float'), ('2020-01-01T10:00:00.123+02:00', 'DateTime'), ('2020-01-01t10:00z', 'DateTime')):
        n = lit(t)
        if type(n).__name__ != k or n.val != t:
            bad.append([t, repr(n)])
    i = ODataParser().parse(ODataLexer().tokenize('ns1.ns2.name eq 1')).left
    if i != ast.Identifier('name', ('ns1', 'ns2')):
        bad.append(['identifier', repr(i)])
except Exception as ex:
    bad.append(['geo/ident', type(ex).__name__])
print(json.dumps({'violates': bool(bad), 'problems': bad[:4]}))
"""


def evidence(facts, results):
    return {
        "trusted_base": ["vc/automata.py: regex -> NFA -> lazy DFA product search over the minterm-compressed alphabet (exact)",
                         "CPython's own regex parser (re._parser) and Unicode class tables, extracted on every run",
                         "z3 5.1.0 and pyvc for the token-action value contracts",
                         "contracts/lexspec.py: ABNF languages of the literal kinds"],
        "assumptions": [
            "`re` tries the alternatives of SLY's master regex in order and, within the chosen rule, its leftmost-greedy match is "
            "the longest match on well-formed literals (bounded.longest samples this; regex.overrun proves no longer match exists)",
            "string unescaping: str.replace with a pattern from a prefix code acts block-wise (homomorphism lemma, DESIGN 5.3); the "
            "per-block obligations are proved (lemma.unescape) and the composition is cross-checked by bounded.unescape",
            "int / float / date.fromisoformat / time.fromisoformat / isoparse / UUID compute the numeric / calendar meaning of their argument",
            "float arithmetic treated as real arithmetic in Duration.py_val; Pattern.fullmatch/groups return the groups of ast.DURATION_PATTERN",
            "str.upper is length preserving on the duration token language (checked: the character map is applied per character and "
            "rejects multi-character images)",
        ],
        "explanation": "inclusion / shadowing / overrun per literal kind against the ordered rule table; exact token values; py_val contracts.",
    }


if __name__ == "__main__":
    import sys
    from vc.runner import main
    sys.exit(main(sys.modules[__name__]))
