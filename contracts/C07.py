"""C07 -- No filter string can inject SQL through the raw SQL dialects.

Same handler families as C09 (every handler of the three SQL visitors, per path), restricted to the clauses that
carry this property:
   hole.data   every piece of node data spliced into the text sits inside exactly one '...' literal with its quotes
               doubled (per-character homomorphism lemma), inside one "..." identifier without a double quote, or is
               a number / keyword token of the dialect (regular inclusion of the field's token language)
   post.wf     the constant skeleton around the holes tokenises: quotes opened by constant text are closed by constant text
   rel.path    2-safety: the path taken (hence the constant skeleton) does not depend on the contents of string
               literals or on the spelling of field names -- only on node kinds
Handlers splice children only through self.visit(child) (expression holes), so the property for a whole filter
follows by the modular rule from the per-handler obligations.
"""
from contracts import C09
from contracts import sqlcommon as Q

PROPERTY = "C07"
NEEDS_MODULES = C09.NEEDS_MODULES
KNOWN = []
CLAUSES = ("hole.data", "post.wf", "rel.path", "safety.raise", "unsupported", "cover")


def families(facts):
    return [f for f in C09.families(facts) if f != "canary"] + ["canary"]


def run_family(facts, fam, tier):
    C09.KNOWN = [dict(f, id=f["id"].replace("C07-", "C09-")) for f in KNOWN] + _shared_c09()
    if fam == "canary":
        # must be refuted: raw text between quotes
        c = Q.build(facts)
        from vc import reader as R
        h = R.Hole("data", Q.DataInfo(None, [], "String", "val"))
        ok, reason = Q.data_condition(c, h, "str", R.STANDARD)
        good = ok is False
        return [{"name": "C07:canary:raw-string-between-quotes", "clause": "canary", "seconds": 0.0, "canary": True,
                 "status": "discharged" if good else "undecided", "selfcheck_failed": not good, "reason": reason}]
    c = Q.build(facts)
    kindpart = fam[fam.index("[") + 1:]
    dkey = kindpart[:kindpart.index("]")]
    what = kindpart[kindpart.index("][") + 2:-1]
    extra = None
    if ":" in what and not fam.startswith("call["):
        what, opk = what.split(":")
        fld = C09.OPSPLIT[what][0]
        U = c["U"]
        extra = lambda path, nd: path.assume(U.is_kind(opk, U.field(what, fld, nd)))
    rs = C09.run_one(c, facts, dkey, fam.startswith("call["), what, C09.TIMEOUT[tier], "C07", CLAUSES, extra_pre=extra)
    # safety.raise belongs to C12; here only structural clauses decide
    return [r for r in rs if r["clause"] != "safety.raise"]


def _shared_c09():
    """findings recorded under C09 whose regions also bound this property's claim (same handlers)"""
    import json, os
    p = os.path.join(os.path.dirname(os.path.dirname(os.path.abspath(__file__))), "known_findings.json")
    d = json.load(open(p))
    return [f for f in d["findings"] if f["property"] == "C09"]


replay_spec = C09.replay_spec


def evidence(facts, results):
    return {"trusted_base": C09.TRUSTED, "assumptions": C09.ASSUME + [
        "regions recorded as C09 findings (standard floor/ceiling templates, SQLite durations, weak call templates, numbers with "
        "non-ASCII digits, pattern arguments that are not literals) are outside this claim as well: same handlers"],
        "explanation": "data holes, constant skeleton and path independence per handler per path, 3 dialects."}


if __name__ == "__main__":
    import sys
    from vc.runner import main
    sys.exit(main(sys.modules[__name__]))
