"""C08 -- ORM backends pass every filter value to the database as a bound parameter.

Per ORM backend (Django Q, SQLAlchemy ORM, SQLAlchemy Core), per node kind and per built-in function/arity, for every
path of the real handler (MRO-resolved `visit`, helpers inlined), with calls into Django / SQLAlchemy as uninterpreted
constructors (DESIGN 4.8) and the recursive `visit(child)` as opaque terms (modular rule):

   rel.out    every occurrence, in the expression term returned, of a *value of the filter* -- the .val of a literal
              node (the node itself, any of its children, any argument of the call) or anything computed from it
              (py_val, int(), str operations) -- lies inside the argument of a binder: django Value(...), sqlalchemy
              literal(...), GEOSGeometry(...).  Nothing else of the term mentions the value: not a function name, not
              a keyword, not a text fragment, not a lookup name.
   rel.path   2-safety: among the paths that agree on every condition that does not mention a value, the skeleton of
              the returned term (binder arguments replaced by `?`) is one and the same -- which constructors are
              called, hence which SQL text is compiled, does not depend on a value.

Together with the assumed contract of the dependency ("a binder compiles to a placeholder plus one entry of the parameter
list; every other constructor compiles to text determined by its non-binder arguments") the property follows for whole
filters by structural induction.  That assumed contract is exercised natively on a fixture schema by a *bounded* family
(compiled SQL of value-pairs; labelled bounded, not counted as proved).

Boolean literals are not values in the sense of the property's quantifier (strings, numbers, dates, GUIDs, list
elements): SQLAlchemy renders them as the keywords true / false.
"""
import json
import time

from contracts import ormcommon as O
from contracts import sqlcommon as Q
from vc.runner import native_run

PROPERTY = "C08"
NEEDS_MODULES = ["odata_query.ast", "odata_query.visitor", "odata_query.typing", "odata_query.exceptions",
                 "odata_query.django.django_q", "odata_query.django.utils", "odata_query.sqlalchemy.common",
                 "odata_query.sqlalchemy.orm", "odata_query.sqlalchemy.core"]
KNOWN = []
CLAUSES = ("rel.out", "rel.path", "decreases")
TIMEOUT = {"quick": 10000, "thorough": 60000}


def families(facts):
    fams = []
    for b in O.BACKENDS:
        for k in facts.kinds:
            if k in Q.OP_KINDS or (b, k) in O.OUT_OF_REACH:
                continue
            fams.append(f"orm[{b}][{k}]")
        for fn, (lo, hi) in O.ARITY_TABLE.items():
            for n in range(lo, hi + 1):
                fams.append(f"ormcall[{b}][{fn}/{n}]")
    return fams + ["cfg.compile-hooks", "bounded.compile-pairs", "canary"]


CONTRACTED_SQL_METHODS = {("NotEqual", "as_sql")}       # text `lhs <> rhs`, parameters in placeholder order: C02 lookup[NotEqual.as_sql]
DJANGO_RENDER_METHODS = ("as_sql", "as_sqlite", "as_postgresql", "as_mysql", "as_oracle", "process_lhs", "process_rhs", "get_rhs_op",
                         "get_db_prep_lookup", "get_prep_lookup")


def _is_passthrough(fn):
    """body is `a, b = super().<same name>(...)` followed by `return a, b` (comments / docstring aside): renders nothing of its own"""
    import ast as pyast
    body = [st for st in fn.body if not (isinstance(st, pyast.Expr) and isinstance(st.value, pyast.Constant))]
    if len(body) != 2 or not isinstance(body[0], pyast.Assign) or not isinstance(body[1], pyast.Return):
        return False
    a, r = body
    call = a.value
    ok_call = isinstance(call, pyast.Call) and isinstance(call.func, pyast.Attribute) and call.func.attr == fn.name and \
        isinstance(call.func.value, pyast.Call) and isinstance(call.func.value.func, pyast.Name) and call.func.value.func.id == "super"
    if not ok_call or len(a.targets) != 1 or not isinstance(a.targets[0], pyast.Tuple) or not isinstance(r.value, pyast.Tuple):
        return False
    names = [t.id for t in a.targets[0].elts if isinstance(t, pyast.Name)]
    back = [t.id for t in r.value.elts if isinstance(t, pyast.Name)]
    return len(names) == len(a.targets[0].elts) and names == back


def compile_hooks(facts):
    """Frame condition that carries the handler contracts to the SQL the ORM finally emits: the repository adds no compile-time
    rendering of its own (SQLAlchemy `@compiles` hooks, Django `as_sql`-style methods) besides the contracted ones, and never asks
    the ORM to inline bound values (`literal_binds` / `literal_execute`)."""
    import ast as pyast
    import glob
    import os
    root = facts.raw["repo_root"]
    t0 = time.time()
    inline, hooks = [], []
    files = sorted(glob.glob(os.path.join(root, "odata_query", "sqlalchemy", "*.py")) + glob.glob(os.path.join(root, "odata_query", "django", "*.py")))
    for f in files:
        rel = os.path.relpath(f, root)
        try:
            tree = pyast.parse(open(f).read())
        except SyntaxError as ex:
            hooks.append(f"{rel}: not parseable ({ex})")
            continue
        for n in pyast.walk(tree):
            if isinstance(n, pyast.keyword) and n.arg in ("literal_binds", "literal_execute") and \
                    not (isinstance(n.value, pyast.Constant) and n.value.value in (False, None)):
                inline.append(f"{rel}:{n.value.lineno} {n.arg}=...")
            if isinstance(n, pyast.Name) and n.id == "compiles" or isinstance(n, pyast.Attribute) and n.attr == "compiles" or \
                    isinstance(n, pyast.alias) and n.name == "compiles":
                hooks.append(f"{rel}:{getattr(n, 'lineno', '?')} SQLAlchemy @compiles hook")
            if isinstance(n, pyast.ClassDef):
                for m in n.body:
                    if isinstance(m, (pyast.FunctionDef, pyast.AsyncFunctionDef)) and (m.name in DJANGO_RENDER_METHODS or m.name == "_compiler_dispatch") \
                            and (n.name, m.name) not in CONTRACTED_SQL_METHODS and not _is_passthrough(m):
                        hooks.append(f"{rel}:{m.lineno} {n.name}.{m.name}")
    out = []
    name = "C08:odata_query.sqlalchemy+django:cfg.compile-hooks"
    if inline:
        from contracts.orm_native import ORM_NATIVE
        out.append({"name": name + "[inline]", "clause": "cfg.compile-hooks", "status": "refuted", "seconds": time.time() - t0,
                    "backend": "finite-check", "reason": "bound values are rendered into the SQL text at compile time: " + "; ".join(inline),
                    "solver_output": "; ".join(inline), "native_script": ORM_NATIVE + PAIRS, "bound": "; ".join(inline)})
    else:
        out.append({"name": name + "[inline]", "clause": "cfg.compile-hooks", "status": "discharged", "seconds": time.time() - t0,
                    "backend": "finite-check", "reason": f"no literal_binds / literal_execute request in {len(files)} backend files"})
    out.append({"name": name + "[hooks]", "clause": "cfg.compile-hooks", "status": "discharged" if not hooks else "undecided",
                "seconds": time.time() - t0, "backend": "finite-check",
                "reason": ("no compile-time rendering besides the contracted " + ", ".join(".".join(x) for x in sorted(CONTRACTED_SQL_METHODS))) if not hooks
                else "compile-time rendering outside the handler contracts (the bounded compile-pairs family exercises it): " + "; ".join(sorted(set(hooks)))})
    return out


PAIRS = r'''
from odata_query.grammar import ODataLexer, ODataParser
TEMPLATES = [
    "title eq {s}", "title ne {s} and views gt {i}", "contains(title, {s})", "startswith(title, {s})", "endswith(content, {s})",
    "title in ({s}, {s2})", "views in ({i}, {i2})", "rating lt {f}", "views add {i} gt {i2}", "views mul {i} le {i2}",
    "published_at gt {dt}", "date(published_at) eq {d}", "year(published_at) eq {i}", "month(published_at) eq {i}",
    "length(title) eq {i}", "indexof(title, {s}) eq {i}", "substring(title, {i}) eq {s}", "substring(title, {i}, {i2}) eq {s}",
    "tolower(title) eq {s}", "toupper(title) eq {s}", "trim(title) eq {s}", "concat(title, {s}) eq {s2}",
    "concat(concat(title, {s}), content) eq {s2}", "round(rating) eq {i}", "floor(rating) eq {i}", "ceiling(rating) eq {i}",
    "not (title eq {s})", "title eq {s} or content eq {s2}", "-views lt {i}", "rating gt {f} and rating lt {f2}",
    "author/name eq {s}", "blogposts/any(b: b/title eq {s})", "id eq {g}",
]
VALUES = [
    dict(s="'a'", s2="'b'", i="1", i2="2", f="1.5", f2="2.5", d="2020-01-02", dt="2020-01-02T10:20:30Z", g="12345678-1234-1234-1234-123456789abc"),
    dict(s="'x'' OR ''1''=''1'", s2="'%_;--'", i="7", i2="90000", f="0.25", f2="1e3", d="1999-12-31", dt="1999-12-31T23:59:59Z",
         g="ffffffff-ffff-ffff-ffff-ffffffffffff"),
    dict(s="'\"; DROP TABLE blogpost; --'", s2="''", i="0", i2="3", f="3.0", f2="7.75", d="2024-02-29", dt="2024-02-29T00:00:00Z",
         g="00000000-0000-0000-0000-000000000000"),
    dict(s="'50%_off'", s2="'a_b%'", i="-5", i2="9223372036854775808", f="-0.5", f2="123456.789", d="2000-02-29", dt="2000-02-29T12:00:00+02:00",
         g="12345678-90ab-cdef-1234-567890abcdef"),
]
problems, compiled, refused = [], 0, 0
for b in ("django", "sa_orm", "sa_core"):
    for tpl in TEMPLATES:
        outs = []
        for vals in VALUES:
            text = tpl.format(**vals)
            try:
                tree = ODataParser().parse(ODataLexer().tokenize(text))
            except Exception as ex:
                outs.append(("parse-error", str(ex)[:80])); continue
            c = compile_sql(b, tree)
            outs.append(c)
        if any(o is None or o[0] in ("compile-error", "parse-error") for o in outs):
            refused += 1
            continue
        compiled += 1
        sqls = {o[0] for o in outs}
        if len(sqls) != 1:
            problems.append([b, tpl, sorted(sqls)[:2]])
            continue
        # no value text inside the SQL string (string values: compare without their quotes)
        for vals, o in zip(VALUES, outs):
            for key in ("s", "s2"):
                raw = vals[key][1:-1].replace("''", "'")
                if len(raw) > 1 and raw in o[0] and "{" + key + "}" in tpl:
                    problems.append([b, tpl, "value %r occurs in SQL text %r" % (raw, o[0][-160:])])
print(json.dumps({"violates": bool(problems), "problems": problems[:5], "compiled": compiled, "refused": refused,
                  "templates": len(TEMPLATES), "assignments": len(VALUES)}))
'''


def run_family(facts, fam, tier):
    if fam == "canary":
        # must be refuted: a value outside a binder is a leak
        from vc.symexec import ExtVal, SStr, Atom
        import z3
        t = z3.String("v")
        leaks = O.data_leaks(None, ExtVal("sqlalchemy.text", [SStr([Atom(t, ("canary",))])]), {t.get_id()})
        ok = O.data_leaks(None, ExtVal("sqlalchemy.sql.elements.literal", [SStr([Atom(t, ("canary",))])]), {t.get_id()})
        good = bool(leaks) and not ok
        return [{"name": "C08:canary:value-in-text-fragment", "clause": "canary", "seconds": 0.0, "canary": True,
                 "status": "discharged" if good else "undecided", "selfcheck_failed": not good,
                 "reason": "text(value) is reported as a leak, literal(value) is not" if good else "leak detector broken"}]
    if fam == "cfg.compile-hooks":
        return compile_hooks(facts)
    if fam == "bounded.compile-pairs":
        from contracts.orm_native import ORM_NATIVE
        script = ORM_NATIVE + PAIRS
        t0 = time.time()
        nat = native_run(script, timeout=600)
        ok = nat.get("violates") is False and (nat.get("compiled") or 0) > 0
        return [{"name": "C08:compile-pairs:bounded", "clause": "bounded", "bounded": True,
                 "status": "discharged" if ok else ("refuted" if nat.get("violates") else "undecided"),
                 "seconds": time.time() - t0, "backend": "native compilation on a fixture schema (bounded, not a proof)",
                 "bound": f"{nat.get('templates')} filter templates x {nat.get('assignments')} value assignments x 3 backends; "
                          f"{nat.get('compiled')} template/backend pairs compiled, {nat.get('refused')} refused by the backend",
                 "reason": json.dumps(nat)[:400], "native_script": script, "backend_kind": "orm-native"}]
    c = Q.build(facts)
    rs = O.run_family(c, facts, fam, TIMEOUT[tier], "C08", KNOWN, clauses=CLAUSES)
    return rs


def replay_spec(facts, r):
    if r.get("native_script") and (r.get("bounded") or r.get("clause") == "cfg.compile-hooks"):
        return {"native_script": r["native_script"], "input_text": r.get("bound"),
                "required": "identical SQL text for every value assignment; values only in the parameter list"}
    return O.replay_spec_c08(facts, r)


def evidence(facts, results):
    return {"trusted_base": ["z3 5.1.0", "pyvc symbolic executor and Python semantics of DESIGN section 4",
                             "uninterpreted-constructor model of Django / SQLAlchemy calls (DESIGN 4.8)"],
            "assumptions": [
                "assumed contract of the dependencies: django.db.models.Value(x), sqlalchemy.literal(x) and GEOSGeometry(x) compile to "
                "a placeholder plus a parameter; every other Django / SQLAlchemy constructor compiles to SQL text that is a function of "
                "its non-binder arguments only (exercised by the bounded family compile-pairs, not proved)",
                "external calls are total, deterministic constructors; attribute reads on their results are projections",
                "operands of SQLAlchemy column-operator methods (contains, startswith, like, in_, ...) and of Python operators applied to ORM "
                "expressions are coerced to bound parameters by the ORM (documented behaviour; assumed)",
                "Boolean literals are outside the property's quantifier (rendered as keywords by SQLAlchemy)",
                "visit_CollectionLambda of Django and SQLAlchemy ORM is out of reach (model-meta API in loops); its lambda body is "
                "translated by the same visit, under contract",
                "named parameters as arguments of built-in functions are assumed away (positional expressions only)"],
            "explanation": "per backend x (node kind | function/arity) x path: filter values occur only inside binder arguments of the "
                           "returned expression term, and the term's skeleton does not depend on them."}


if __name__ == "__main__":
    import sys
    from vc.runner import main
    sys.exit(main(sys.modules[__name__]))
