"""C09 -- Every SQL dialect emits well-formed SQL whose structure mirrors the filter.

Contract of <Dialect>Visitor.visit(n), for shaped n in the SQL-expressible fragment, table alias None or a
string without '"':  returns text r with (reader = the dialect's SQL grammar, vc/reader.py)
   post.wf     r is one well-formed expression (balanced, tokenisable, no placeholder text)
   post.tree   its tree mirrors n: the node's own SQL operator over the children's translations in order;
               identifiers read [alias.]name; for calls every argument translation occurs exactly once
   side.*      every child translation binds tightly enough for the position it is spliced into
   post.lvl    r exposes no operator weaker than promised for n (so that callers' side conditions are sound)
   hole.data   literal text / names / alias sit inside exactly one literal or quoted identifier, or are a
               number/keyword token of the dialect
or raises a library exception.  Proved per handler per path; unbounded in depth by the modular rule.
"""
import z3

from contracts import sqlcommon as Q
from vc.propkit import explore, judge, src_of, is_lib_exc, outcomes_to_results, visit_family
from vc.speclib import fresh_node, EXPR_KINDS
from vc.symexec import FuncRef, Obj, Sym, SStr, Obligation
from vc import reader as R

PROPERTY = "C09"
NEEDS_MODULES = ["odata_query.ast", "odata_query.visitor", "odata_query.typing", "odata_query.sql.base",
                 "odata_query.sql.sqlite", "odata_query.sql.athena"]
TIMEOUT = {"quick": 15000, "thorough": 60000}
KNOWN = []
CLAUSES = ("post.wf", "post.tree", "side.left", "side.right", "side.adj", "post.lvl", "post.lead", "hole.data", "safety.raise", "unsupported",
           "pre.frag", "decreases", "cover", "own.fresh")
TRUSTED = ["z3 5.1.0", "pyvc symbolic executor and Python semantics of DESIGN section 4",
           "vc/reader.py: the assumed SQL grammar of each dialect (operator levels from the SQLite / SQL-99 / Trino documentation)",
           "vc/automata.py for the data-hole language inclusions; CPython's regex parser and Unicode tables"]
ASSUME = ["reader soundness (DESIGN 5.3): in an operator-precedence grammar a complete sub-expression whose exposed edge operators "
          "bind at least as tightly as its position requires is parsed as one subtree equal to its own parse",
          "the table alias comes from the application and contains no double quote (alias_ok)",
          "per-character homomorphism lemma for chains of one-character str.replace",
          "typed grammar: built-in functions take no boolean arguments; string/date/collection parameters are not arithmetic expressions",
          "children of a node are of kinds the dialect has handlers for (SQL-expressible fragment); other kinds are C12's subject",
          "infer_type is used through its mechanically derived summary (C18)"]


SQL_DIALECTS = ("standard", "sqlite", "athena")


def families(facts):
    fams = []
    for d in SQL_DIALECTS:          # the roundtrip printer shares the machinery but belongs to C13, not to this property
        cls = Q.VISITORS[d][0]
        for k in Q.handled_kinds(facts, cls):
            if k in OPSPLIT:
                fams += [f"visit[{d}][{k}:{o}]" for o in OPSPLIT[k][1]]   # one work unit per operator (parallelism)
            elif k not in Q.OP_KINDS and k != "Call":       # calls: one family per function of the OData table
                fams.append(f"visit[{d}][{k}]")
        for fn, (lo, hi) in CALLS(facts).items():
            for n in range(lo, hi + 1):
                fams.append(f"call[{d}][{fn}/{n}]")
    fams.append("canary")
    return fams


OPSPLIT = {"BinOp": ("op", ["Add", "Sub", "Mult", "Div", "Mod"]), "BoolOp": ("op", ["And", "Or"]),
           "Compare": ("comparator", ["Eq", "NotEq", "Lt", "LtE", "Gt", "GtE", "In"]), "UnaryOp": ("op", ["Not", "USub"])}


def CALLS(facts):
    from contracts.grammar_common import ARITY_TABLE
    return ARITY_TABLE


def strip_paren(t):
    while t and t[0] == "paren":
        t = t[1]
    return t


def is_hole_of(t, term):
    t = strip_paren(t)
    return t[0] == "hole" and z3.simplify(t[1].payload).eq(z3.simplify(term))


def op_kind_on_path(c, path, opterm, candidates):
    U = c["U"]
    for k in candidates:
        if path.entails(U.is_kind(k, opterm)):
            return k
    return None


def spec_for(c, dkey, kind, path, node, alias):
    """-> spec_tree(tree, used) -> (ok, why)"""
    U, PV = c["U"], c["PV"]
    fld = U.field

    def hole_count(used, term):
        return sum(1 for h in used if z3.simplify(h.payload).eq(z3.simplify(term)))

    if kind in ("BinOp", "BoolOp", "Compare"):
        opf = "comparator" if kind == "Compare" else "op"
        table = {"BinOp": Q.SQL_BINOP, "BoolOp": Q.SQL_BOOL, "Compare": Q.SQL_CMP}[kind]
        left, right = fld(kind, "left", node), fld(kind, "right", node)

        def spec(tree, used):
            k = op_kind_on_path(c, path, fld(kind, opf, node), list(table))
            if k is None:
                return False, "operator kind not determined on this path"
            want = table[k]
            if kind == "Compare" and k in ("Eq", "NotEq") and path.entails(U.is_kind("Null", right)):
                want = "IS" if k == "Eq" else "IS NOT"
            t = tree
            if t[0] != "bin" or t[1] != want:
                return False, f"root is {t[:2]}, expected operator {want}"
            if not (is_hole_of(t[2], left) and is_hole_of(t[3], right)):
                return False, "operands are not (left translation, right translation) in this order"
            if len(used) != 2:
                return False, f"{len(used)} child translations spliced, expected 2"
            return True, ""
        return spec
    if kind == "UnaryOp":
        operand = fld("UnaryOp", "operand", node)

        def spec(tree, used):
            k = op_kind_on_path(c, path, fld("UnaryOp", "op", node), ["Not", "USub"])
            want = {"Not": "NOT", "USub": "-"}.get(k)
            if tree[0] != "un" or tree[1] != want or not is_hole_of(tree[2], operand) or len(used) != 1:
                return False, f"expected prefix {want} over the operand's translation"
            return True, ""
        return spec
    if kind == "List":
        seq = PV.items(fld("List", "val", node))

        def spec(tree, used):
            ok = tree[0] == "list" and len(tree) == 2 and tree[1][0] == "listhole" and \
                z3.simplify(tree[1][1].payload).eq(z3.simplify(seq))
            return ok, "" if ok else "expected a parenthesised, comma separated list of the items' translations in order"
        return spec
    if kind == "Identifier":
        def spec(tree, used):
            if tree[0] != "ident":
                return False, "not a quoted identifier"
            parts = tree[1]
            has_alias = path.entails(U.is_tag("StrV", alias)) and path.entails(z3.Length(PV.s(alias)) > 0)
            no_alias = path.entails(z3.Or(U.is_tag("NoneV", alias), z3.Length(PV.s(alias)) == 0))
            names = [p for p in parts]
            last = names[-1]
            ok_name = len(last) == 1 and isinstance(last[0], R.Hole) and last[0].kind == "data" and last[0].payload.field == "name"
            if not ok_name:
                return False, "last part is not exactly the field name"
            if has_alias:
                ok = len(parts) == 2 and len(parts[0]) == 1 and isinstance(parts[0][0], R.Hole) and parts[0][0].kind == "alias"
                return ok, "" if ok else "alias present but the reference is not alias.name"
            if no_alias:
                return (len(parts) == 1), "no alias but the reference is qualified"
            return False, "alias case not determined"
        return spec
    if kind in ("Integer", "Float", "String", "GUID", "Date", "DateTime", "Boolean", "Geography", "Time"):
        def spec(tree, used):
            # the literal's text appears exactly once (or, for booleans, a constant chosen by its value)
            def data_holes(t, acc):
                if isinstance(t, tuple):
                    for x in t:
                        data_holes(x, acc)
                elif isinstance(t, R.Hole) and t.kind == "data":
                    acc.append(t)
                return acc
            hs = data_holes(tree, [])
            if kind == "Boolean" and not hs:
                return tree[0] in ("num", "kw"), "boolean must be a constant"
            ok = len(hs) == 1 and hs[0].payload.kind == kind and hs[0].payload.field == "val"
            return ok, "" if ok else f"{len(hs)} occurrences of the literal's text"
        return spec
    if kind == "Call":
        args = PV.items(fld("Call", "args", node))
        return None
    return None


def pre_children(c, dkey, path, node, kind):
    """the SQL-expressible fragment: children are of kinds the dialect has handlers for"""
    U, PV = c["U"], c["PV"]
    cls = Q.VISITORS[dkey][0]
    handled = Q.handled_kinds(c["facts"], cls)
    from vc.speclib import SHAPE
    from vc.deffun import AllPred
    key = "handled_" + dkey
    if key not in c:
        c[key] = AllPred(key, U.Seq, lambda t: U.is_node(t, [k for k in handled if k not in Q.OP_KINDS]))
    path.assume(c["shape"](node))
    if kind == "Compare":
        # grammar: `common_expr IN list_expr` -- the right operand of `in` is a list
        path.assume(z3.Implies(U.is_kind("In", U.field("Compare", "comparator", node)),
                               U.is_kind("List", U.field("Compare", "right", node))))
    for fn, sp in SHAPE[kind].items():
        t = U.field(kind, fn, node)
        if sp in ("expr",) or (isinstance(sp, tuple) and sp[0] in ("kind", "opt")):
            path.assume(z3.Or(z3.Not(U.is_node(t)), U.is_node(t, handled)))
        elif sp in ("exprs", "args"):
            path.assume(c[key](PV.items(t)))


def run_family(facts, fam, tier):
    timeout = TIMEOUT[tier]
    c = Q.build(facts)
    E, U, PV = c["E"], c["U"], c["PV"]
    if fam == "canary":
        # must be refuted by the reader: an unparenthesised weaker operand
        d = R.STANDARD
        h1, h2 = R.Hole("expr", z3.Const("a", PV)), R.Hole("expr", z3.Const("b", PV))
        rd = R.read(d, [h1, " * ", h2])
        a = z3.Const("a", PV)
        goal = Q.lmin(c, d, a, "R") >= rd["side"][0][2]
        r = judge(E, "C09:canary:sum-as-factor-without-parentheses", "canary",
                  [U.is_kind("BinOp", a), U.is_kind("Add", U.field("BinOp", "op", a))], goal, None, timeout)
        good = r["status"] == "refuted"
        return [{"name": r["name"], "clause": "canary", "status": "discharged" if good else "undecided",
                 "seconds": r["seconds"], "canary": True, "selfcheck_failed": not good,
                 "reason": "wrong side condition refuted as required" if good else "canary NOT refuted"}]
    kindpart = fam[fam.index("[") + 1:]
    dkey = kindpart[:kindpart.index("]")]
    what = kindpart[kindpart.index("][") + 2:-1]
    extra = None
    if ":" in what and not fam.startswith("call["):
        what, opk = what.split(":")
        fld = OPSPLIT[what][0]
        extra = lambda path, nd: path.assume(U.is_kind(opk, U.field(what, fld, nd)))
    return run_one(c, facts, dkey, fam.startswith("call["), what, timeout, "C09", CLAUSES, extra_pre=extra)


def _rooted_at(term, a):
    t = z3.simplify(term)
    while z3.is_app(t) and t.num_args() >= 1:
        if t.eq(a):
            return True
        t = t.arg(0)
    return t.eq(a)


def tainted_terms(c, path, node, kind, arg_consts):
    """String-content terms (String.val, Identifier.name/namespace, Attribute.attr, Geography.val) that occur in
    the path condition other than under a type tester."""
    U, PV = c["U"], c["PV"]
    srcs = []
    fld = U.field
    cand = []
    if kind in ("String", "Geography"):
        cand.append(fld(kind, "val", node))
    if kind == "Identifier":
        cand += [fld("Identifier", "name", node), fld("Identifier", "namespace", node)]
    if kind == "Attribute":
        cand.append(fld("Attribute", "attr", node))
    for a in arg_consts or []:
        cand += [fld("String", "val", a), fld("Identifier", "name", a)]
    ids = {z3.simplify(PV.s(t)).get_id(): str(t) for t in cand}
    hits = []

    def walk(t, seen):
        if t.get_id() in seen:
            return
        seen.add(t.get_id())
        if t.get_id() in ids:
            hits.append(ids[t.get_id()])
            return
        if z3.is_app(t):
            for i in range(t.num_args()):
                walk(t.arg(i), seen)
    seen = set()
    for cnd in path.pc:
        walk(z3.simplify(cnd), seen)
    return sorted(set(hits))


def known_ids():
    return {f["id"] for f in KNOWN}


WEAK_TEMPLATES = {"contains", "startswith", "endswith", "indexof", "concat", "hassubset"}


def known_skip(dkey, what, clause, info):
    """Recorded findings whose region is a whole (dialect, handler, clause): the obligation is not claimed."""
    ids = known_ids()
    fn = what.rsplit("/", 1)[0] if "/" in what else None
    if "C09-weak-call-templates" in ids and fn in WEAK_TEMPLATES and clause == "post.lvl":
        return True
    if "C09-standard-floor-ceiling" in ids and dkey == "standard" and fn in ("floor", "ceiling"):
        return True
    if "C09-empty-duration" in ids and what == "Duration" and clause in ("post.wf", "post.tree") \
            and (info or {}).get("template", None) == "":
        return True
    if "C09-unicode-digits" in ids and what in ("Integer", "Float") and clause == "hole.data":
        return True
    if "C09-sqlite-duration" in ids and dkey == "sqlite" and what == "Duration":
        return True
    if "C09-athena-hassubset-repeats-argument" in ids and dkey == "athena" and fn == "hassubset" and clause == "post.tree":
        return True
    return False


def known_call_regions(c, dkey, fn, arg_consts):
    """Recorded findings with an input region: witness predicates W over the call's arguments."""
    U = c["U"]
    out = []
    if "C09-pattern-argument-kind" in known_ids() and fn in ("contains", "startswith", "endswith") and len(arg_consts) == 2:
        lit_with_val = ["Integer", "Float", "Boolean", "String", "Geography", "Date", "Time", "DateTime", "Duration", "GUID"]
        out.append(z3.Not(U.is_node(arg_consts[1], lit_with_val + ["Identifier", "Call"])))
    return out


def run_one(c, facts, dkey, is_call, what, timeout, prop, clauses, extra_pre=None, spec_override=None, call_template=None):
    E, U, PV = c["E"], c["U"], c["PV"]
    cls, dialect = Q.VISITORS[dkey]
    Q.install_visit_contract(c, dkey)
    mk_self, alias = Q.make_self(c, dkey, symbolic_alias=(not is_call and what == "Identifier"))
    cf = facts.classes[cls]
    holder = {}
    if is_call:
        fn, n = what.rsplit("/", 1)
        n = int(n)
        kind = "Call"
        parts = fn.split(".")
        func = U.node("Identifier", U.strv(parts[-1]), U.tuplev(U.seq([U.strv(x) for x in parts[:-1]])))
        arg_consts = [z3.Const(f"arg{i}", PV) for i in range(n)]
        node = U.node("Call", func, PV.ListV(U.seq(arg_consts)))
        handler = cf["members"].get("sqlfunc_" + parts[-1].lower()) or cf["members"]["visit_Call"]

        def runner(path):
            for a in arg_consts:
                path.sub_roots[a.get_id()] = True
            Q_pre = Q.handled_kinds(facts, cls)
            path.assume(c["shape"](node))
            for a in arg_consts:
                path.assume(U.is_node(a, [k for k in Q_pre if k not in Q.OP_KINDS]))
                # typed grammar: no built-in takes a boolean argument
                path.assume(z3.Not(z3.Or(U.is_node(a, ["Compare", "BoolOp"]),
                                         z3.And(U.is_kind("UnaryOp", a), U.is_kind("Not", U.field("UnaryOp", "op", a))))))
            numeric_pos = {"substring": (1, 2), "round": (0,), "floor": (0,), "ceiling": (0,)}.get(fn, ())
            for i, a in enumerate(arg_consts):
                if i not in numeric_pos:
                    # string / date / collection parameters: arithmetic is not of such a type
                    path.assume(z3.Not(U.is_node(a, ["BinOp", "UnaryOp"])))
            for w in known_call_regions(c, dkey, fn, arg_consts):
                path.assume(z3.Not(w))
            if extra_pre:
                extra_pre(path, node)
            self_obj = mk_self(path)
            holder["self"] = self_obj
            m = cf["members"]["visit"]
            return E.run_function(path, FuncRef(m, defcls=m["definer"]), [self_obj, Sym(node)], self_val=self_obj)
        label = f"{handler['qualname']}[{fn}/{n}]"
    else:
        kind = what
        handler = cf["members"].get("visit_" + kind) or cf["members"]["generic_visit"]

        def runner(path):
            nd, consts = fresh_node(E, path, kind)
            holder["node"] = nd
            c["field_consts"] = {cc.get_id(): (kind, fn) for cc, fn in zip(consts, facts.kind_fields[kind])}
            pre_children(c, dkey, path, nd, kind)
            if kind == "Duration":
                env = facts.module_env("odata_query.ast").get("DURATION_PATTERN")
                fm = E.uf("re_fullmatch", z3.StringSort(), z3.StringSort(), z3.BoolSort())
                path.assume(fm(z3.StringVal(env["pattern"]), PV.s(U.field("Duration", "val", nd))))
            if extra_pre:
                extra_pre(path, nd)
            self_obj = mk_self(path)
            m = cf["members"]["visit"]
            return E.run_function(path, FuncRef(m, defcls=m["definer"]), [self_obj, Sym(nd)], self_val=self_obj)
        label = f"{handler['qualname']}[{kind}]"
    res = explore(E, runner)
    if not is_call:
        node = holder.get("node")
    base = f"{prop}:{dkey}:{label}"
    out = []
    src = src_of(handler)
    wt = {"e": node, "alias": alias}
    for idx, (path, outcome) in enumerate(res):
        obls = [Obligation(o.clause, o.hyps, o.goal, o.info) for o in path.obligations]
        recs = []
        if outcome[0] == "return":
            v = outcome[1]
            if is_call:
                arg_terms = [a for a in arg_consts]

                def call_spec(tree, used, arg_terms=arg_terms):
                    def data_of(t, acc):
                        if isinstance(t, tuple):
                            for x in t:
                                data_of(x, acc)
                        elif isinstance(t, R.Hole) and t.kind == "data":
                            acc.append(t)
                        return acc
                    dh = data_of(tree, [])

                    def occurrences(a):
                        n = sum(1 for h in used if h.kind == "expr" and z3.simplify(h.payload).eq(a))
                        # a literal argument may be spliced as data (LIKE patterns) instead of being translated
                        n += sum(1 for h in dh if _rooted_at(h.payload.base_term, a))
                        return n
                    cnt = [occurrences(a) for a in arg_terms]
                    other = [h for h in used if h.kind == "expr" and not any(z3.simplify(h.payload).eq(a) for a in arg_terms)]
                    ok = all(x == 1 for x in cnt) and not other
                    if ok and call_template is not None:
                        return call_template(fn, tree, used, arg_terms, path)
                    return ok, "" if ok else f"argument translations occur {cnt} times (each must occur exactly once)"
                spec = call_spec
            else:
                spec = spec_override(c, dkey, kind, path, node, alias) if spec_override else spec_for(c, dkey, kind, path, node, alias)
            c["regroups"] = path.ghost.get("regroups", {})
            recs = Q.reader_obligations(c, dkey, path, node, v, alias, spec_tree=spec)
        elif outcome[0] == "raise":
            exc = outcome[1]
            if not is_lib_exc(exc):
                recs = [("safety.raise", z3.BoolVal(False), {"exception": exc.name, "args": repr(exc.args)[:160]})]
        elif outcome[0] == "unsupported":
            out.append({"name": f"{base}:unsupported", "clause": "unsupported", "status": "undecided", "seconds": 0.0,
                        "reason": outcome[1], "source": src, "path": idx})
            continue
        c["regroups"] = path.ghost.get("regroups", {})
        if outcome[0] in ("return", "raise"):
            # 2-safety (C07): which path is taken must not depend on the *contents* of strings / names of the filter
            tainted = tainted_terms(c, path, node, kind if not is_call else "Call", arg_consts if is_call else None)
            recs.append(("rel.path", z3.BoolVal(not tainted), {"depends_on": "; ".join(tainted)[:200]}))
        for clause, goal, info in recs:
            if goal is None:
                out.append({"name": f"{base}:{clause}", "clause": clause, "status": "undecided", "seconds": 0.0,
                            "reason": str(info)[:300], "source": src, "path": idx})
                continue
            obls.append(Obligation(clause, path.pc + path.insts, goal, info))
        for o in obls:
            if o.clause not in clauses:
                continue
            if known_skip(dkey, what, o.clause, o.info):
                continue
            extra = {"info": {k: str(v)[:300] for k, v in (o.info or {}).items()}, "dialect": dkey, "what": what}
            out.append(judge(E, f"{base}:{o.clause}", o.clause, o.hyps, o.goal, src, timeout, wt, extra=extra, path_idx=idx))
    if not res:
        out.append({"name": f"{base}:cover", "clause": "cover", "status": "undecided", "seconds": 0.0,
                    "reason": "no feasible path", "source": src, "selfcheck_failed": True})
    return out


def replay_spec(facts, r):
    from vc.pyval import to_py_source
    w = r.get("witness") or {}
    if "e" not in w:
        return None
    es = to_py_source(w["e"])
    al = w.get("alias")
    als = repr(al) if isinstance(al, str) else "None"
    return {"native_script": Q.sql_replay_script(es, r.get("dialect", "standard"), als),
            "input_text": f"e={es[:300]} alias={als}",
            "required": "well-formed SQL whose tree (read with the dialect's precedence) mirrors the filter"}


def evidence(facts, results):
    return {"trusted_base": TRUSTED, "assumptions": ASSUME,
            "explanation": "per handler per path: template read by the dialect's grammar; well-formedness, mirrored tree, operand "
                           "strength side conditions, promised strength, data holes; 3 dialects; calls per function and arity."}


if __name__ == "__main__":
    import sys
    from vc.runner import main
    sys.exit(main(sys.modules[__name__]))
