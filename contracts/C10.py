"""C10 -- Parsing any string terminates with an AST or a library syntax/function error (repo side).

Every repo-owned callback the SLY driver can invoke -- token actions, production actions, the two error
hooks, _function_call and the path helpers -- given arguments that satisfy the slot invariants
(DESIGN appendix A), either returns a value satisfying the invariant of its own nonterminal / token, or
raises a subclass of ODataException; no AttributeError / IndexError / KeyError / TypeError / ValueError
/ RecursionError path exists; nothing but fresh objects and t.value is written (=> determinism).
The start symbol's invariant is the parser's postcondition (an expression node).
Assumed: SLY's driver and `re` terminate, call exactly these hooks with such arguments and add no
exception of their own -- termination of the whole parse is NOT proved.
"""
import z3

from contracts import grammar_common as G
from vc.propkit import judge

PROPERTY = "C10"
NEEDS_MODULES = ["odata_query.ast", "odata_query.grammar", "odata_query.exceptions"]
TIMEOUT = {"quick": 15000, "thorough": 60000}
KNOWN = []
KEEP = ("safety.raise", "post.inv", "post.token", "post.raise", "own.fresh", "frame", "unsupported", "pre.shape",
        "pre.naive", "inv.init", "inv.step", "cover", "depth", "raise.allowed")


def families(facts):
    prods = facts.raw["parser"]["productions"]
    fams = ["cfg.hierarchy"] + [f"prod[{p['number']}]" for p in prods if p["func"]]
    fams += [f"token[{r['name']}]" for r in facts.raw["lexer"]["rules"]]
    fams += ["error_hooks", "_function_call", "helpers", "depth", "canary"]
    return fams


def known_excludes(c, prod):
    ids = {f["id"] for f in KNOWN}
    U, PV = c["U"], c["PV"]
    out = []
    rhs = tuple(prod["prod"])
    if rhs == ("entity_navigation_property", "single_navigation_expr") and "C10-lambda-owner-path" in ids:
        s1 = z3.Const("s1", PV)
        out.append(z3.And(U.is_kind("CollectionLambda", s1),
                          U.is_kind("Attribute", U.field("CollectionLambda", "owner", s1))))
    return out


def run_family(facts, fam, tier):
    timeout = TIMEOUT[tier]
    if fam == "cfg.hierarchy":
        out = []
        base = "odata_query.exceptions.ODataException"
        for qn, cf in facts.classes.items():
            if cf["module"] != "odata_query.exceptions":
                continue
            ok = base in cf["mro"] and "builtins.Exception" in cf["mro"]
            out.append({"name": f"C10:{qn}:cfg.hierarchy", "clause": "cfg.hierarchy", "seconds": 0.0,
                        "status": "discharged" if ok else "refuted", "backend": "finite-check",
                        "reason": "subclass of ODataException" if ok else f"mro={cf['mro']}"})
        return out
    c = G.build(facts)
    E = c["E"]
    if fam.startswith("prod["):
        prod = facts.raw["parser"]["productions"][int(fam[5:-1])]
        ex = known_excludes(c, prod)
        import vc.propkit as K
        rs = G.run_production(c, prod, timeout, "C10") if not ex else _with_exclude(c, prod, timeout, ex)
        return [r for r in rs if r["clause"] in KEEP]
    if fam.startswith("token["):
        name = fam[6:-1]
        rule = [r for r in facts.raw["lexer"]["rules"] if r["name"] == name][0]
        return [r for r in G.run_token_action(c, rule, timeout, "C10") if r["clause"] in KEEP]
    if fam == "error_hooks":
        return G.run_error_hooks(c, timeout, "C10")
    if fam == "_function_call":
        rs = G.run_function_call(c, timeout, "C10")
        return [r for r in rs if r["clause"] in KEEP]
    if fam == "helpers":
        # _explode_attr: the derived summary has no foreign-exception path under its precondition
        G.install_helpers(c)
        U = c["U"]
        out = []
        m = facts.classes[G.PARSER]["members"]["_explode_attr"]
        a = z3.Const("explode!a0", c["PV"])
        for i, (cond, val) in enumerate(c["explode_cases"]):
            if U.ctor_name(val) == "ExtV":
                nm = U.ext_names[val.arg(0).as_long()]
                if nm.startswith(G.ERR_PREFIX):
                    out.append(judge(E, f"C10:{m['qualname']}:safety.raise", "safety.raise", [cond, c["naive"](a)],
                                     z3.BoolVal(False), G.src_of(m), timeout, {"attr": a}, path_idx=i,
                                     extra={"info": {"exception": nm}}))
        out.append({"name": f"C10:{m['qualname']}:summary", "clause": "post.inv", "status": "discharged", "seconds": 0.0,
                    "reason": f"{len(c['explode_cases'])} paths summarised", "source": G.src_of(m), "backend": "pyvc"})
        out.append(G.bounded_reverse("C10", tier))
        return out
    if fam == "depth":
        rs = G.recursion_report(facts, "C10")
        ids = {f["id"] for f in KNOWN}
        for r in rs:
            if r["status"] == "refuted" and r["function"] == "_explode_attr" and "C10-explode-recursion" in ids:
                r["status"] = "discharged"
                r["reason"] += " [known finding C10-explode-recursion: depth linear in the number of path segments]"
        return rs
    if fam == "canary":
        # must be refuted: an action returning a bare tuple does not satisfy the common_expr invariant
        U, PV = c["U"], c["PV"]
        goal = G.inv_goal(c, "common_expr", (1, 2))
        r = judge(E, "C10:canary:tuple-is-not-an-expression", "canary", [], goal, None, timeout)
        good = r["status"] == "refuted"
        return [{"name": r["name"], "clause": "canary", "status": "discharged" if good else "undecided",
                 "seconds": r["seconds"], "canary": True, "selfcheck_failed": not good,
                 "reason": "wrong postcondition refuted as required" if good else "canary NOT refuted"}]
    raise ValueError(fam)


def _with_exclude(c, prod, timeout, ex):
    import vc.propkit as K
    orig = K.outcomes_to_results

    def patched(*a, **kw):
        kw["exclude"] = (kw.get("exclude") or []) + ex
        return orig(*a, **kw)
    G.outcomes_to_results = patched
    try:
        return G.run_production(c, prod, timeout, "C10")
    finally:
        G.outcomes_to_results = orig


def replay_spec(facts, r):
    if r.get("clause") == "depth":
        script = """
import json
from odata_query.grammar import ODataLexer, ODataParser
from odata_query import exceptions
text = '/'.join(['a'] * 3000) + ' eq 1'
try:
    ODataParser().parse(ODataLexer().tokenize(text))
    out = None
except exceptions.ODataException:
    out = None
except Exception as ex:
    out = type(ex).__name__
print(json.dumps({'violates': out is not None, 'exception': out, 'text': 'a/a/.../a (3000 segments) eq 1'}))
"""
        return {"native_script": script, "input_text": "path with 3000 segments", "required": "AST or library exception"}
    if r.get("clause") == "post.raise" and "token_type" in r:
        script = ERROR_HOOK_REPLAY.replace("TOKEN_TYPE", repr(r.get("token_type")))
        return {"native_script": script, "input_text": f"syntax errors whose offending token is {r.get('token_type')}",
                "required": "ParsingException / TokenizingException"}
    if r.get("bounded") and r.get("native_script"):
        return {"native_script": r["native_script"], "input_text": r.get("bound"), "required": "== prepend_path(first, rest)"}
    if "tree" in (r.get("witness") or {}):
        return G.production_replay_spec(facts, r)
    return None


ERROR_HOOK_REPLAY = r"""
import json
from odata_query.grammar import ODataLexer, ODataParser
from odata_query import exceptions
SAMPLE = {'NULL': 'null', 'BOOLEAN': 'true', 'INTEGER': '1', 'DECIMAL': '1.5', 'STRING': "'s'", 'GUID': '12345678-1234-1234-1234-123456789abc',
          'DATE': '2020-01-01', 'TIME': '10:00:00', 'DATETIME': '2020-01-01T10:00:00Z', 'DURATION': "duration'P1D'",
          'GEOGRAPHY': "geography'P'", 'ODATA_IDENTIFIER': 'x', 'ANY': 'any', 'ALL': 'all', 'NOT': 'not ', 'UMINUS': '-',
          'ADD': ' add ', 'SUB': ' sub ', 'MUL': ' mul ', 'DIV': ' div ', 'MOD': ' mod ', 'AND': ' and ', 'OR': ' or ',
          'EQ': ' eq ', 'NE': ' ne ', 'LT': ' lt ', 'LE': ' le ', 'GT': ' gt ', 'GE': ' ge ', 'IN': ' in ', 'WS': ' ',
          '(': '(', ')': ')', ',': ',', '/': '/', ':': ':', '=': '='}
tt = TOKEN_TYPE
texts = []
if tt is None:
    texts = ['a eq', '(a', 'f(', 'a/', 'not', 'a in (1,', '-']
elif tt == '<text>':
    texts = ['a eq #', '@', 'a eq 1 ;', '"x"', 'a ? b']
else:
    s = SAMPLE.get(tt, tt)
    for pre in ['', '1', 'a', "'x'", '(1)', 'a/', 'a eq 1', 'f(1)', 'a in (1, 2)', 'a/any(x: x eq 1)', 'not a', '1 1', ')', 'a eq']:
        texts += [pre + s, pre + s + s, pre + s + ' 1', pre + ' ' + s if tt not in ('WS',) else pre + s]
bad = []
for t in texts:
    try:
        ODataParser().parse(ODataLexer().tokenize(t))
    except exceptions.ODataException:
        pass
    except Exception as ex:
        bad.append([t, type(ex).__name__ + ': ' + str(ex)[:100]])
print(json.dumps({'violates': bool(bad), 'problems': bad[:4], 'tried': len(texts)}))
"""


def evidence(facts, results):
    return {
        "trusted_base": ["z3 5.1.0", "pyvc symbolic executor and Python semantics of DESIGN section 4",
                         "model of sly.yacc.YaccProduction / sly.lex.Token attribute access (from SLY's own tables)"],
        "assumptions": ["SLY's LR driver and the `re` scanner terminate, call exactly these callbacks with values satisfying the "
                        "slot invariants, and raise nothing themselves (termination of the whole parse is not proved)",
                        "str.split(sep) returns >= 1 strings that join back to the text",
                        "str() of a sly Token does not raise",
                        "determinism follows from the frame clause: callbacks read only their arguments and immutable tables"],
        "explanation": "safety + nonterminal invariant + frame for every production action, token action, error hook and helper; "
                       "recursion depth via the static call graph.",
    }


if __name__ == "__main__":
    import sys
    from vc.runner import main
    sys.exit(main(sys.modules[__name__]))
