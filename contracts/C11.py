"""C11 -- Function calls are accepted iff name and argument count match the OData table.

Contract of ODataParser._function_call(func, args), for func an Identifier and args a list of nodes,
against ARITY_TABLE (an independent copy of the OData function table, grammar_common.py):
  namespace in {(), ("geo",)}:
      returns Call(func, args)                                   iff full_name in table and lo <= len(args) <= hi
      raises UnknownFunctionException(function_name=full_name)   iff full_name not in table
      raises ArgumentCountException(full_name, lo, hi, len)      iff in table and count outside [lo, hi]
  any other namespace: returns Call(func, args) for every args.
Call productions pass p[0] and the arguments in source order (all positional or all named) and return
exactly what _function_call returns.
"""
import z3

from contracts import grammar_common as G
from vc.propkit import judge
from vc.pyval import to_py_source

PROPERTY = "C11"
NEEDS_MODULES = ["odata_query.ast", "odata_query.grammar", "odata_query.exceptions"]
TIMEOUT = {"quick": 15000, "thorough": 60000}
KNOWN = []
CALL_LHS = {"common_expr", "named_param", "list_named_param"}


def call_prods(facts):
    out = []
    for pr in facts.raw["parser"]["productions"]:
        rhs = pr["prod"]
        if pr["name"] == "common_expr" and rhs and rhs[0] == "ODATA_IDENTIFIER" and len(rhs) > 1:
            out.append(pr)
        elif pr["name"] in ("named_param", "list_named_param"):
            out.append(pr)
    return out


CALLS = r'''
import json
from odata_query import ast, exceptions as ex
from odata_query.grammar import ODataLexer, ODataParser
TABLE = __TABLE__
ARGS = ["'a'", "1", "b", "2.5", "c/d"]


def outcome(text):
    try:
        t = ODataParser().parse(ODataLexer().tokenize(text))
    except ex.ArgumentCountException as e:
        return ["argcount", e.function_name, e.exp_min_args, e.exp_max_args, e.n_args_given]
    except ex.UnknownFunctionException as e:
        return ["unknown", e.function_name]
    except Exception as e:
        return ["error", type(e).__name__]
    if not isinstance(t, ast.Call):
        return ["other", type(t).__name__]
    return ["ok", ".".join(tuple(t.func.namespace) + (t.func.name,)), len(t.args), [type(a).__name__ for a in t.args]]


bad, ran = [], 0
names = sorted(TABLE) + ["nosuch", "Contains", "LENGTH", "geo.area", "geo.Distance", "distance", "my.func", "my.geo.length", "length.of"]
for name in names:
    for n in range(0, 5):
        for named in (False, True):
            if named and n == 0:
                continue
            args = [("p%d=%s" % (i, ARGS[i])) if named else ARGS[i] for i in range(n)]
            text = "%s(%s)" % (name, ", ".join(args))
            ns = name.split(".")[:-1]
            if name in TABLE:
                lo, hi = TABLE[name]
                want = ["ok", name, n] if lo <= n <= hi else ["argcount", name, lo, hi, n]
            elif ns in ([], ["geo"]):
                want = ["unknown", name]
            else:
                want = ["ok", name, n]
            got = outcome(text)
            ran += 1
            if got[:len(want)] != want:
                bad.append([text, got[:5], want])
            elif got[0] == "ok":
                kinds = got[3]
                exp_kinds = ["NamedParam"] * n if named else [{"'a'": "String", "1": "Integer", "b": "Identifier", "2.5": "Float", "c/d": "Attribute"}[ARGS[i]] for i in range(n)]
                if kinds != exp_kinds:
                    bad.append([text, kinds, exp_kinds])
print(json.dumps({"violates": bool(bad), "problems": bad[:6], "count": len(bad), "ran": ran}))
'''


def bounded_calls(facts, tier):
    """Bounded stand-in (labelled, never counted): every table function and a few unknown / namespaced / differently cased names,
    0..4 positional and 1..4 named arguments, through the real lexer and parser, against the specification table."""
    import time
    from vc.runner import native_run
    from contracts.grammar_common import ARITY_TABLE
    t0 = time.time()
    script = CALLS.replace("__TABLE__", repr({k: list(v) for k, v in ARITY_TABLE.items()}))
    nat = native_run(script, timeout=600)
    name = "C11:calls:bounded"
    if "problems" not in nat:
        return [{"name": name, "clause": "bounded", "bounded": True, "status": "undecided", "seconds": time.time() - t0,
                 "reason": str(nat)[:300], "bound": "native run failed"}]
    ok = not nat["violates"]
    return [{"name": name, "clause": "bounded", "bounded": True, "status": "discharged" if ok else "refuted", "seconds": time.time() - t0,
             "backend": "real lexer + parser vs the specification's arity table (bounded, not a proof)",
             "bound": f"{len(ARITY_TABLE)} table functions + 9 other names x 0..4 positional / 1..4 named arguments ({nat['ran']} calls)",
             "reason": "accepted / refused exactly as the table says, arguments kept in order" if ok else str(nat["problems"][:2])[:400],
             "solver_output": str(nat["problems"][:3])[:800], "native_script": script}]


def families(facts):
    return ["cfg.table", "_function_call"] + [f"prod[{pr['number']}]" for pr in call_prods(facts)] + ["bounded.calls", "canary"]


def known_regions(c, prod):
    ids = {f["id"] for f in KNOWN}
    return []


def run_family(facts, fam, tier):
    timeout = TIMEOUT[tier]
    if fam == "bounded.calls":
        return bounded_calls(facts, tier)
    if fam == "cfg.table":
        # the tree's ODATA_FUNCTIONS against the independent table: reported per name (diagnostic; the
        # deciding obligations are the _function_call ones)
        d = facts.raw["odata_functions"]
        tree = {}
        for kd, vd in d["items"]:
            v = vd["v"] if vd["k"] == "const" else tuple(x["v"] for x in vd["items"])
            tree[kd["v"]] = (v, v) if isinstance(v, int) else tuple(v)
        out = []
        for name in sorted(set(tree) | set(G.ARITY_TABLE)):
            ok = tree.get(name) == G.ARITY_TABLE.get(name)
            out.append({"name": f"C11:odata_query.grammar.ODATA_FUNCTIONS[{name}]:cfg.table", "clause": "cfg.table",
                        "status": "discharged" if ok else "refuted", "seconds": 0.0, "backend": "finite-check",
                        "reason": f"tree={tree.get(name)} spec={G.ARITY_TABLE.get(name)}", "fn": name,
                        "tree": tree.get(name), "spec": G.ARITY_TABLE.get(name)})
        return out
    c = G.build(facts)
    if fam == "_function_call":
        return G.run_function_call(c, timeout, "C11")
    if fam.startswith("prod["):
        num = int(fam[5:-1])
        prod = facts.raw["parser"]["productions"][num]
        rs = G.run_production(c, prod, timeout, "C11")
        return [r for r in rs if r["clause"] in ("post.value", "post.raise", "safety.raise", "unsupported", "pre.shape",
                                                 "own.fresh", "cover")]
    if fam == "canary":
        E, U, PV = c["E"], c["U"], c["PV"]
        func = z3.Const("func", PV)
        args = z3.Const("args", U.Seq)
        ok, val = G.call_spec(c, func, args)
        hyps = [G.node_inv(c, func, ["Identifier"]), c["fullname"](func) == z3.StringVal("substring"),
                c["builtin_ns"](func), z3.Length(args) == 4]
        r = judge(E, "C11:canary:substring-with-4-arguments-accepted", "canary", hyps, ok, None, timeout)
        good = r["status"] == "refuted"
        return [{"name": r["name"], "clause": "canary", "status": "discharged" if good else "undecided",
                 "seconds": r["seconds"], "canary": True, "selfcheck_failed": not good,
                 "reason": "wrong postcondition refuted as required" if good else "canary NOT refuted: vacuous spec"}]
    raise ValueError(fam)


def replay_spec(facts, r):
    """Replay through the real parser: name(args...) for the witness name / count (or the table row)."""
    if r.get("bounded") and r.get("native_script"):
        return {"native_script": r["native_script"], "input_text": r.get("bound"), "required": "accepted iff name and argument count match the table"}
    w = r.get("witness") or {}
    if "tree" in w:
        return G.production_replay_spec(facts, r)
    cases = []
    if r.get("clause") == "cfg.table":
        nm = r["fn"]
        for n in range(0, 6):
            cases.append((nm, n))
    else:
        func = w.get("func") or w.get("s0")
        nargs = None
        for k in ("args", "s3", "s1"):
            v = w.get(k)
            if isinstance(v, list):
                nargs = len(v)
                break
            if isinstance(v, dict) and "node" in v and v["node"] == "List":
                nargs = len(v["fields"]["val"].get("list", []))
                break
        if isinstance(func, dict) and func.get("node") == "Identifier":
            ns = func["fields"]["namespace"].get("tuple", []) if isinstance(func["fields"]["namespace"], dict) else []
            nm = ".".join(list(ns) + [func["fields"]["name"]]) if all(isinstance(x, str) for x in ns) else None
            if nm:
                for n in ([nargs] if nargs is not None else range(0, 6)):
                    cases.append((nm, n))
    if not cases:
        return None
    script = f"""
import json
from odata_query.grammar import ODataLexer, ODataParser
from odata_query import ast, exceptions
TABLE = {G.ARITY_TABLE!r}
cases = {cases!r}
problems = []
for name, n in cases:
    text = name + '(' + ', '.join(str(i + 1) for i in range(n)) + ')'
    ns = tuple(name.split('.')[:-1])
    try:
        t = ODataParser().parse(ODataLexer().tokenize(text))
        outcome = ('call', len(t.args), [getattr(a, 'val', None) for a in t.args]) if isinstance(t, ast.Call) else ('other', repr(t))
    except exceptions.UnknownFunctionException as ex:
        outcome = ('unknown', ex.function_name)
    except exceptions.ArgumentCountException as ex:
        outcome = ('count', ex.function_name, ex.exp_min_args, ex.exp_max_args, ex.n_args_given)
    except exceptions.ODataException as ex:
        outcome = ('syntax', type(ex).__name__)
    except Exception as ex:
        outcome = ('foreign', type(ex).__name__ + ': ' + str(ex))
    if outcome[0] == 'syntax':
        continue      # not a well-formed call text (e.g. unusual identifier): nothing to compare
    if ns in ((), ('geo',)):
        if name not in TABLE:
            want = ('unknown', name)
        elif TABLE[name][0] <= n <= TABLE[name][1]:
            want = ('call', n, [str(i + 1) for i in range(n)])
        else:
            want = ('count', name, TABLE[name][0], TABLE[name][1], n)
    else:
        want = ('call', n, [str(i + 1) for i in range(n)])
    if tuple(outcome) != tuple(want):
        problems.append({{'text': text, 'got': outcome, 'want': want}})
print(json.dumps({{'violates': bool(problems), 'problems': problems[:4]}}))
"""
    return {"native_script": script, "input_text": "; ".join(f"{nm}/{n}" for nm, n in cases[:6]),
            "required": "accepted iff name in OData table and count in range, else the typed exception with exact fields"}


def evidence(facts, results):
    return {
        "trusted_base": ["z3 5.1.0", "pyvc symbolic executor and Python semantics of DESIGN section 4",
                         "ARITY_TABLE in contracts/grammar_common.py (independent copy of the OData function table, 33 rows)",
                         "model of sly.yacc.YaccProduction indexing/naming taken from SLY's own accessor table (extracted every run)"],
        "assumptions": ["SLY's driver calls each action with p holding the semantic values of the rule's symbols, which satisfy "
                        "their nonterminal invariants (those invariants are themselves proved per action in C10)",
                        "str.join / dict lookup / isinstance / len as in DESIGN section 4"],
        "explanation": "_function_call: returns/raises exactly per contract with exact exception payloads (one path per table row); "
                       "call productions pass arguments in source order.",
    }


if __name__ == "__main__":
    import sys
    from vc.runner import main
    sys.exit(main(sys.modules[__name__]))
