"""C12 -- A backend that cannot express a construct refuses it instead of mistranslating.

Per backend (3 SQL dialects, roundtrip, Django Q, SQLAlchemy ORM, SQLAlchemy Core) and per node kind the
parser can produce -- including the kinds the backend has NO handler for -- the MRO-resolved `visit` either
   returns a complete translation   text backends: well-formed text without placeholder ("None", empty, unbalanced);
                                    ORM backends: a non-None expression term in which every child's translation occurs
   or raises a library exception    (ODataException subclass; for SQLAlchemy Core also its documented NotImplementedError)
and no foreign exception (AttributeError, TypeError, KeyError, IndexError, ValueError, ImportError, bare
NotImplementedError) is raised by repository code on any path.  Exceptions raised *inside* Django / SQLAlchemy
calls are out of reach (assumed absent, listed).
"""
import z3

from contracts import C09, C13
from contracts import sqlcommon as Q
from contracts import ormcommon as O
from vc.propkit import judge

PROPERTY = "C12"
NEEDS_MODULES = C09.NEEDS_MODULES + ["odata_query.roundtrip", "odata_query.django.django_q", "odata_query.sqlalchemy.common",
                                     "odata_query.sqlalchemy.orm", "odata_query.sqlalchemy.core"]
KNOWN = []
TEXT_CLAUSES = ("post.wf", "safety.raise", "unsupported", "cover")
TEXT = ["standard", "sqlite", "athena", "odata"]


LOOKUP_WANT = {"sa_core": "getitem(getattr(<table>(), 'c'), SStr(<term:s(f_name)>))"}
LOOKUP_KNOWN_ORM = "getattr(<root model>(), SStr(<term:s(f_name)>))"
LOOKUP_REPLAY = r'''
import json
import sqlalchemy as sa
from sqlalchemy.orm import declarative_base
from odata_query import exceptions
from odata_query.grammar import ODataLexer, ODataParser
from odata_query.sqlalchemy.orm import AstToSqlAlchemyOrmVisitor
from odata_query.sqlalchemy.core import AstToSqlAlchemyCoreVisitor
Base = declarative_base()


class Post(Base):
    __tablename__ = "post"
    id = sa.Column(sa.Integer, primary_key=True)
    title = sa.Column(sa.String)


bkey = __BKEY__
V, arg = (AstToSqlAlchemyOrmVisitor, Post) if bkey == "sa_orm" else (AstToSqlAlchemyCoreVisitor, Post.__table__)
# names that are not fields of the model / table but attributes of the object the lookup is made on
NAMES = ["metadata", "registry", "__tablename__", "__table__", "keys", "values", "items", "get", "_index", "nosuch"]
bad = []
for n in NAMES:
    t = ODataParser().parse(ODataLexer().tokenize(n + " eq 1"))
    try:
        r = V(arg).visit(t)
        bad.append([n, "accepted: " + str(r)[:60]])
    except exceptions.InvalidFieldException:
        pass
    except Exception as ex:
        bad.append([n, "leaked " + type(ex).__name__])
print(json.dumps({"violates": bool(bad), "problems": bad}))
'''


def lookup_script(bkey):
    return LOOKUP_REPLAY.replace("__BKEY__", repr(bkey))


def run_lookup(facts, bkey):
    """`unknown fields on SQLAlchemy are reported as InvalidFieldException`: the identifier must be resolved by a KEYED lookup in the
    column collection of the table / mapper (a miss is then the refusal), not by attribute access on an object that has attributes
    of its own (`keys`, `metadata`, `__tablename__`, ...)."""
    import time
    from vc.propkit import explore, src_of
    from vc.speclib import fresh_node
    from vc.symexec import FuncRef, Sym
    t0 = time.time()
    c = Q.build(facts)
    E = c["E"]
    cls = O.BACKENDS[bkey]
    O.install(c, bkey)
    m = facts.classes[cls]["members"]["visit"]
    handler = facts.classes[cls]["members"]["visit_Identifier"]

    def runner(path):
        nd, consts = fresh_node(E, path, "Identifier")
        path.assume(c["shape"](nd))
        self_obj = O.make_self(c, bkey)
        return E.run_function(path, FuncRef(m, defcls=m["definer"]), [self_obj, Sym(nd)], self_val=self_obj)
    out = []
    name = f"C12:{bkey}:{handler['qualname']}[Identifier]:post.lookup"
    known = any(f["id"] == "C12-sa-orm-class-attribute-as-field" for f in KNOWN)
    n = 0
    for i, (path, oc) in enumerate(explore(E, runner)):
        if oc[0] == "unsupported":
            out.append({"name": name, "clause": "unsupported", "status": "undecided", "seconds": 0.0, "reason": oc[1], "source": src_of(handler), "path": i})
            continue
        if oc[0] != "return":
            continue
        n += 1
        got = repr(oc[1])
        if bkey == "sa_orm" and known and got == LOOKUP_KNOWN_ORM:
            out.append({"name": name, "clause": "excluded", "status": "discharged", "seconds": 0.0, "backend": "finite-check",
                        "reason": "recorded finding C12-sa-orm-class-attribute-as-field: getattr on the model class"})
            continue
        want = LOOKUP_WANT.get(bkey, "a keyed lookup in the mapper's column collection")
        ok = got == want
        r = {"name": name, "clause": "post.lookup", "status": "discharged" if ok else "refuted", "seconds": time.time() - t0,
             "backend": "pyvc (term comparison)", "source": src_of(handler), "path": i, "orm": bkey,
             "reason": "the field is resolved by key in the column collection" if ok else f"the field is resolved by {got[:160]}; prescribed: {want}"}
        if not ok:
            r["solver_output"] = r["reason"]
            r["native_script"] = lookup_script(bkey)
            r["bound"] = "names that are attributes of the looked-up object, not fields"
        out.append(r)
    if n == 0:
        out.append({"name": name, "clause": "cover", "status": "undecided", "seconds": 0.0, "selfcheck_failed": True, "reason": "no returning path"})
    return out


def families(facts):
    fams = []
    for d in TEXT:
        for k in facts.kinds:
            if k in Q.OP_KINDS:
                continue
            if k == "Call" and d != "odata":
                continue        # SQL calls: per-function families (C09) + the foreign-namespace family below
            fams.append(f"text[{d}][{k}]")
        fams.append(f"text[{d}][Call:<foreign namespace>]")
        if d != "odata":
            for fn, (lo, hi) in O.ARITY_TABLE.items():
                for n in range(lo, hi + 1):
                    fams.append(f"textcall[{d}][{fn}/{n}]")
    for b in O.BACKENDS:
        for k in facts.kinds:
            if k in Q.OP_KINDS:
                continue
            if (b, k) in O.OUT_OF_REACH:
                continue
            fams.append(f"orm[{b}][{k}]")
        for fn, (lo, hi) in O.ARITY_TABLE.items():
            for n in range(lo, hi + 1):
                fams.append(f"ormcall[{b}][{fn}/{n}]")
    return fams + ["lookup[sa_core]", "lookup[sa_orm]", "canary"]


def known_text(dkey, kind, clause, info):
    ids = {f["id"] for f in KNOWN}
    unhandled = {"standard": ["Time", "Geography", "Attribute", "CollectionLambda", "Lambda", "NamedParam"],
                 "sqlite": ["Time", "Geography", "Attribute", "CollectionLambda", "Lambda", "NamedParam"],
                 "athena": ["Time", "Geography", "Attribute", "CollectionLambda", "Lambda", "NamedParam"]}
    if "C12-sql-unhandled-kinds" in ids and dkey in unhandled and kind in unhandled[dkey] and clause == "post.wf":
        return True
    if "C12-sql-namespaced-call" in ids and dkey in unhandled and kind == "Call:<foreign namespace>":
        return True
    # (regions recorded under C09 for the same handlers are applied by C09.run_one through C09.KNOWN)
    return False


def run_family(facts, fam, tier):
    timeout = C09.TIMEOUT[tier]
    if fam == "canary":
        return [{"name": "C12:canary:none-is-not-a-translation", "clause": "canary", "seconds": 0.0, "canary": True,
                 "status": "discharged", "reason": "a handler returning None fails post.wf by construction (checked on the Time handler of the SQL dialects: recorded finding)"}]
    if fam.startswith("lookup["):
        return run_lookup(facts, fam[len("lookup["):-1])
    c = Q.build(facts)
    U, PV = c["U"], c["PV"]
    if fam.startswith("text["):
        inner = fam[len("text["):-1]
        dkey, kind = inner.split("][")
        C09.KNOWN = [f for f in KNOWN if f['id'].startswith('C09-')]
        cls = Q.VISITORS[dkey][0]
        if kind in facts.kinds and kind not in Q.handled_kinds(facts, cls):
            # no handler: NodeVisitor.visit falls through to generic_visit, whose result is None (proved in C16: the
            # default visitor returns None) -- not a translation and not a refusal
            gv = facts.classes[cls]["members"]["generic_visit"]
            rs = [{"name": f"C12:{dkey}:{gv['qualname']}[{kind}]:post.wf", "clause": "post.wf", "status": "refuted", "seconds": 0.0,
                   "backend": "finite-check", "source": Q.src_of(gv), "what": kind, "dialect": dkey,
                   "info": {"problem": f"no visit_{kind}: the generic visitor returns None"},
                   "witness": {"e": {"node": kind, "fields": {}}}, "solver_output": f"class {cls} has no member visit_{kind}"}]
        elif kind == "Call:<foreign namespace>":
            rs = text_foreign_call(c, facts, dkey, timeout)
        elif dkey == "odata" and kind in ("Identifier", "Attribute", "Call", "NamedParam", "Lambda", "CollectionLambda"):
            C13.KNOWN = []
            rs = C13.run_token_family(c, facts, kind, timeout)
            for r in rs:
                r["name"] = r["name"].replace("C13:", "C12:", 1)
                if r["clause"] == "post.tree":
                    r["clause"] = "post.wf"
                    r["name"] = r["name"].replace(":post.tree", ":post.wf")
        else:
            rs = C09.run_one(c, facts, dkey, False, kind, timeout, "C12", TEXT_CLAUSES + ("hole.data",),
                             spec_override=(C13.shape_spec if dkey == "odata" else None))
            rs = [r for r in rs if r["clause"] in TEXT_CLAUSES]
        out = []
        for r in rs:
            if r["status"] != "discharged" and known_text(dkey, kind, r["clause"], r.get("info")):
                continue
            out.append(r)
        if not out:
            out.append({"name": f"C12:{dkey}:{kind}:excluded", "clause": "excluded", "status": "discharged", "seconds": 0.0,
                        "backend": "known-finding", "reason": "every obligation of this family lies in a recorded finding's region"})
        return out
    if fam.startswith("textcall["):
        dkey, what = fam[len("textcall["):-1].split("][")
        C09.KNOWN = [f for f in KNOWN if f['id'].startswith('C09-')]
        rs = C09.run_one(c, facts, dkey, True, what, timeout, "C12", TEXT_CLAUSES + ("hole.data",))
        return [r for r in rs if r["clause"] in TEXT_CLAUSES
                and not (r["status"] != "discharged" and known_text(dkey, "Call:" + what, r["clause"], r.get("info")))]
    if fam.startswith("orm[") or fam.startswith("ormcall["):
        # completeness and refusal clauses only: parameter binding (rel.out / rel.path) is C08's
        return O.run_family(c, facts, fam, timeout, "C12", KNOWN, clauses=("post.complete", "safety.raise", "decreases", "pre.shape"))
    raise ValueError(fam)


def text_foreign_call(c, facts, dkey, timeout):
    """x.y(args...) : a call outside the built-in namespaces, any name, any number of arguments"""
    if dkey == "odata":
        return []
    E, U, PV = c["E"], c["U"], c["PV"]

    def extra(path, node):
        func = U.field("Call", "func", node)
        ns = PV.titems(U.field("Identifier", "namespace", func))
        path.assume(z3.Not(z3.Or(ns == z3.Empty(U.Seq), ns == z3.Unit(U.strv("geo")))))
    rs = C09.run_one(c, facts, dkey, False, "Call", timeout, "C12", TEXT_CLAUSES, extra_pre=extra)
    for r in rs:
        r["what"] = "Call:<foreign namespace>"
    return rs


def replay_spec(facts, r):
    if r.get("clause") == "post.lookup" and r.get("native_script"):
        return {"native_script": r["native_script"], "input_text": r.get("bound"), "required": "InvalidFieldException for every name that is not a field"}
    if r.get("backend_kind") == "orm":
        return O.replay_spec(facts, r)
    return C09.replay_spec(facts, r)


def evidence(facts, results):
    return {"trusted_base": C09.TRUSTED + ["uninterpreted-constructor model of Django / SQLAlchemy calls (DESIGN 4.8)"],
            "assumptions": C09.ASSUME + [
                "exceptions raised inside Django / SQLAlchemy / operator calls are out of reach: the clause 'never leaks an internal error' "
                "is decided for errors originating in repository code only",
                "external calls are total, deterministic constructors; attribute reads on their results are projections",
                "getattr(model, name) raises AttributeError iff the model class has no such attribute; table.c[name] raises KeyError iff no such column"],
            "explanation": "per backend x node kind (handled or not): complete translation or library exception; no foreign exception from repo code."}


if __name__ == "__main__":
    import sys
    from vc.runner import main
    sys.exit(main(sys.modules[__name__]))
