"""C13 -- AST -> OData text -> AST is the identity (relative to C05/C06: the OData reader is the grammar proved there).

Contract of AstToODataVisitor.visit(t) for shaped t:  returns text r such that, read with the OData grammar
(precedence of OData 4.01 5.1.1.14, binary operators left-associative, unary above binary except `in`, (x,) for singleton
lists, quotes doubled in strings), wf(r), tree(r) = t and r exposes no operator weaker than prec_odata(top(t)).
Operator nodes and literals go through the reader; paths, calls, lambdas are checked against their exact token shapes.
Corollary: render(parse(render t)) = render t.
"""
import z3

from contracts import C09
from contracts import sqlcommon as Q
from vc import reader as R
from vc.propkit import judge

PROPERTY = "C13"
NEEDS_MODULES = ["odata_query.ast", "odata_query.visitor", "odata_query.roundtrip"]
KNOWN = []
CLAUSES = ("post.wf", "post.tree", "side.left", "side.right", "side.adj", "post.lvl", "post.lead", "hole.data", "safety.raise", "unsupported",
           "pre.frag", "decreases", "cover")
CLS = "odata_query.roundtrip.AstToODataVisitor"


OPSPLIT = {"BinOp": ("op", ["Add", "Sub", "Mult", "Div", "Mod"]), "BoolOp": ("op", ["And", "Or"]),
           "Compare": ("comparator", ["Eq", "NotEq", "Lt", "LtE", "Gt", "GtE", "In"]), "UnaryOp": ("op", ["Not", "USub"])}


def families(facts):
    fams = []
    for k in facts.kinds:
        if k in Q.OP_KINDS:
            continue
        if k in OPSPLIT:
            fams += [f"visit[odata][{k}:{o}]" for o in OPSPLIT[k][1]]      # one work unit per operator (parallelism)
        else:
            fams.append(f"visit[odata][{k}]")
    return fams + ["canary"]


def shape_spec(c, dkey, kind, path, node, alias):
    """Expected reading of each handler's template."""
    U, PV = c["U"], c["PV"]
    fld = U.field
    if kind in ("BinOp", "BoolOp", "Compare"):
        opf = "comparator" if kind == "Compare" else "op"
        table = {"BinOp": Q.OD_BINOP, "BoolOp": Q.OD_BOOL, "Compare": Q.OD_CMP}[kind]
        left, right = fld(kind, "left", node), fld(kind, "right", node)

        def spec(tree, used):
            k = C09.op_kind_on_path(c, path, fld(kind, opf, node), list(table))
            if k is None:
                return False, "operator kind not determined"
            if tree[0] != "bin" or tree[1] != table[k]:
                return False, f"root is {tree[:2]}, expected {table[k]}"
            ok = C09.is_hole_of(tree[2], left) and C09.is_hole_of(tree[3], right) and len(used) == 2
            return ok, "" if ok else "operands are not (left, right) in order"
        return spec
    if kind == "UnaryOp":
        operand = fld("UnaryOp", "operand", node)

        def spec(tree, used):
            k = C09.op_kind_on_path(c, path, fld("UnaryOp", "op", node), ["Not", "USub"])
            want = {"Not": "NOT", "USub": "-"}.get(k)
            ok = tree[0] == "un" and tree[1] == want and C09.is_hole_of(tree[2], operand) and len(used) == 1
            return ok, "" if ok else f"expected prefix {want} over the operand"
        return spec
    if kind == "List":
        seq = PV.items(fld("List", "val", node))

        def spec(tree, used):
            if tree[0] == "list" and len(tree) == 3 and tree[1][0] == "hole" and tree[2] == ("trailing-comma",):
                # the one-element list, unrolled: (x,)
                ok1 = path.entails(z3.Length(seq) == 1) and path.entails(tree[1][1].payload == seq[0])
                return ok1, "" if ok1 else "(x,) printed for something that is not the single element"
            ok = tree[0] == "list" and len(tree) >= 2 and tree[1][0] == "listhole" and \
                z3.simplify(tree[1][1].payload).eq(z3.simplify(seq))
            if not ok:
                return False, "expected a parenthesised, comma separated list"
            trailing = len(tree) == 3 and tree[2] == ("trailing-comma",)
            # "(x)" is a parenthesised expression, not a list: exactly the singleton needs the trailing comma
            if trailing:
                ok2 = path.entails(z3.Length(seq) == 1)
                return ok2, "" if ok2 else "trailing comma on a list that is not a singleton"
            ok2 = path.entails(z3.Length(seq) != 1)
            return ok2, "" if ok2 else "a one-element list is printed as (x), which parses as a parenthesised expression"
        return spec
    if kind in ("Integer", "Float", "Boolean", "Date", "Time", "DateTime", "GUID"):
        def spec(tree, used):
            ok = tree[0] == "data" and tree[1].payload.kind == kind and tree[1].payload.field == "val" and not tree[1].payload.transforms
            return ok, "" if ok else "expected exactly the literal's own text"
        return spec
    if kind == "Null":
        return lambda tree, used: (tree == ("kw", "NULL"), "expected null")
    if kind == "String":
        def spec(tree, used):
            if tree[0] != "str" or len(tree[1]) != 1 or not isinstance(tree[1][0], R.Hole):
                return False, "expected one quoted literal holding the value"
            h = tree[1][0].payload
            ok = h.kind == "String" and h.field == "val"
            # the parser un-doubles quotes: the printer must double them (checked by hole.data)
            return ok, "" if ok else "literal does not hold String.val"
        return spec
    if kind in ("Duration", "Geography"):
        def spec(tree, used):
            ok = tree[0] == "typed" and tree[1] == kind.upper() and len(tree[2]) == 1 and isinstance(tree[2][0], R.Hole) \
                and tree[2][0].payload.kind == kind and not tree[2][0].payload.transforms
            return ok, "" if ok else f"expected {kind.lower()}'<val>'"
        return spec
    return None


def token_shape(c, kind, path, node, value):
    """Exact token shape for paths, identifiers, calls and lambdas: [(clause, goal, info)]"""
    U, PV = c["U"], c["PV"]
    fld = U.field
    from vc.symexec import Sym as _Sym
    if isinstance(value, _Sym) and path.entails(U.is_tag("StrV", value.term)):
        value = c["E"].from_pv(U.strv(PV.s(value.term)))
    parts = Q.to_parts(c, value, None) if isinstance(value, (str, Q.SStr)) else None
    if parts is None:
        return [("post.wf", z3.BoolVal(False), {"problem": f"handler returned {type(value).__name__}: {value!r}"[:200]})]
    text = "".join(p if isinstance(p, str) else "{" + p.kind + "}" for p in parts)

    def is_expr(p, term):
        return isinstance(p, R.Hole) and p.kind == "expr" and z3.simplify(p.payload).eq(z3.simplify(term))

    def is_data(p, k, f):
        return isinstance(p, R.Hole) and p.kind == "data" and p.payload.kind == k and p.payload.field == f and not p.payload.transforms
    ok, why = False, f"unexpected template {text!r}"
    if kind == "Identifier":
        # name, or namespace parts joined with dots + "." + name
        if len(parts) == 1 and is_data(parts[0], "Identifier", "name"):
            ok = path.entails(z3.Length(PV.titems(fld("Identifier", "namespace", node))) == 0)
            why = "namespace dropped"
        elif len(parts) == 3 and parts[1] == "." and is_data(parts[2], "Identifier", "name") and isinstance(parts[0], R.Hole):
            o = parts[0].payload.raw_atom.origin if parts[0].kind == "data" and parts[0].payload.raw_atom is not None else None
            ok = bool(o) and o[0] == "join_seq" and o[1] == "." and \
                z3.simplify(o[2]).eq(z3.simplify(PV.titems(fld("Identifier", "namespace", node))))
            why = "namespace not joined with dots"
    elif kind == "Attribute":
        ok = len(parts) == 3 and is_expr(parts[0], fld("Attribute", "owner", node)) and parts[1] == "/" \
            and is_data(parts[2], "Attribute", "attr")
    elif kind == "Call":
        ok = len(parts) == 4 and is_expr(parts[0], fld("Call", "func", node)) and parts[1] == "(" and parts[3] == ")" \
            and isinstance(parts[2], R.Hole) and parts[2].kind == "list" \
            and z3.simplify(parts[2].payload).eq(z3.simplify(PV.items(fld("Call", "args", node))))
        if not ok and len(parts) == 3 and parts[1] == "()":
            ok = False
    elif kind == "NamedParam":
        ok = len(parts) == 3 and is_expr(parts[0], fld("NamedParam", "name", node)) and parts[1] == "=" \
            and is_expr(parts[2], fld("NamedParam", "param", node))
    elif kind == "Lambda":
        ok = len(parts) == 3 and is_expr(parts[0], fld("Lambda", "identifier", node)) and parts[1] == ": " \
            and is_expr(parts[2], fld("Lambda", "expression", node))
    elif kind == "CollectionLambda":
        owner, lam = fld("CollectionLambda", "owner", node), fld("CollectionLambda", "lambda_", node)
        opk = C09.op_kind_on_path(c, path, fld("CollectionLambda", "operator", node), ["Any", "All"])
        word = {"Any": "any", "All": "all"}.get(opk)
        if len(parts) == 2 and is_expr(parts[0], owner) and parts[1] == f"/{word}()":
            ok = path.entails(U.is_tag("NoneV", lam))
        elif len(parts) == 4 and is_expr(parts[0], owner) and parts[1] == f"/{word}(" and is_expr(parts[2], lam) and parts[3] == ")":
            ok = True
    return [("post.tree", z3.BoolVal(bool(ok)), {"template": text[:200], "why": "" if ok else why})]


def run_family(facts, fam, tier):
    C09.KNOWN = KNOWN
    timeout = C09.TIMEOUT[tier]
    c = Q.build(facts)
    if fam == "canary":
        rd = R.read(R.ODATA, [R.Hole("expr", z3.Const("a", c["PV"])), " sub ", R.Hole("expr", z3.Const("b", c["PV"]))])
        strict = [s for s in rd["side"] if s[1] == "L"][0][3]
        return [{"name": "C13:canary:right-operand-of-sub-must-bind-strictly-tighter", "clause": "canary", "seconds": 0.0,
                 "canary": True, "status": "discharged" if strict else "undecided", "selfcheck_failed": not strict,
                 "reason": "reader demands strictly tighter right operands for left-associative operators"}]
    kind = fam[len("visit[odata]["):-1]
    extra = None
    if ":" in kind:
        kind, opk = kind.split(":")
        fld = OPSPLIT[kind][0]
        extra = lambda path, nd: path.assume(c["U"].is_kind(opk, c["U"].field(kind, fld, nd)))
    token_kinds = ("Identifier", "Attribute", "Call", "NamedParam", "Lambda", "CollectionLambda")
    if kind in token_kinds:
        return run_token_family(c, facts, kind, timeout)
    rs = C09.run_one(c, facts, "odata", False, kind, timeout, "C13", CLAUSES, spec_override=shape_spec, extra_pre=extra)
    return apply_known(rs)


def apply_known(rs):
    ids = {f["id"] for f in KNOWN}
    out = []
    for r in rs:
        k = r.get("what")
        skip = False
        if r["status"] != "discharged":
            if "C13-string-quotes" in ids and k == "String" and r["clause"] == "hole.data":
                skip = True
            if "C13-singleton-list" in ids and k == "List" and r["clause"] == "post.tree":
                skip = True
            if "C13-right-operand-parentheses" in ids and k in ("BinOp", "Compare", "BoolOp") and r["clause"] == "side.right":
                skip = True
            if "C13-no-handler" in ids and k in ("NamedParam", "Geography") and r["clause"] in ("post.wf", "post.tree"):
                skip = True
        if not skip:
            out.append(r)
    return out


def run_token_family(c, facts, kind, timeout):
    from vc.propkit import explore, src_of, is_lib_exc
    from vc.speclib import fresh_node
    from vc.symexec import FuncRef, Obj, Sym, Obligation
    E, U, PV = c["E"], c["U"], c["PV"]
    Q.install_visit_contract(c, "odata")
    cf = facts.classes[CLS]
    handler = cf["members"].get("visit_" + kind) or cf["members"]["generic_visit"]
    holder = {}

    def runner(path):
        nd, consts = fresh_node(E, path, kind)
        holder["node"] = nd
        c["field_consts"] = {cc.get_id(): (kind, fn) for cc, fn in zip(consts, facts.kind_fields[kind])}
        path.assume(c["shape"](nd))
        self_obj = Obj(CLS)
        m = cf["members"]["visit"]
        return E.run_function(path, FuncRef(m, defcls=m["definer"]), [self_obj, Sym(nd)], self_val=self_obj)
    res = explore(E, runner)
    node = holder.get("node")
    base = f"C13:odata:{handler['qualname']}[{kind}]"
    out = []
    for idx, (path, outcome) in enumerate(res):
        obls = [o for o in path.obligations if o.clause in ("decreases",)]
        if outcome[0] == "return":
            for clause, goal, info in token_shape(c, kind, path, node, outcome[1]):
                obls.append(Obligation(clause, path.pc + path.insts, goal, info))
        elif outcome[0] == "raise":
            if not is_lib_exc(outcome[1]):
                obls.append(Obligation("safety.raise", path.pc + path.insts, z3.BoolVal(False), {"exception": outcome[1].name}))
        else:
            out.append({"name": base + ":unsupported", "clause": "unsupported", "status": "undecided", "seconds": 0.0,
                        "reason": outcome[1], "source": src_of(handler)})
            continue
        for o in obls:
            extra = {"info": {k: str(v)[:300] for k, v in (o.info or {}).items()}, "dialect": "odata", "what": kind}
            out.append(judge(E, f"{base}:{o.clause}", o.clause, o.hyps, o.goal, src_of(handler), timeout, {"e": node},
                             extra=extra, path_idx=idx))
    return apply_known(out)


def replay_spec(facts, r):
    from vc.pyval import to_py_source
    from contracts.native_ref import NATIVE_REF
    w = r.get("witness") or {}
    if "e" not in w:
        return None
    es = to_py_source(w["e"])
    script = NATIVE_REF + f"""
import json
from odata_query.roundtrip import AstToODataVisitor
problems = []

def requote(n):
    # the same tree with awkward string contents (the solver's strings are arbitrary)
    if isinstance(n, list):
        return [requote(x) for x in n]
    if not dataclasses.is_dataclass(n):
        return n
    if isinstance(n, ast.String):
        return ast.String("it's ''" + n.val)
    if isinstance(n, ast.Geography):
        # the lexer keeps a geography body verbatim: parser-producible values hold quotes doubled
        return ast.Geography("O''Hare " + n.val)
    return type(n)(**{{f.name: requote(getattr(n, f.name)) for f in dataclasses.fields(n)}})

try:
    T0 = sanitize({es})
    for T in (T0, requote(T0)):
        text = AstToODataVisitor().visit(T)
        kind, val = parse_outcome(text)
        if kind != 'ast':
            problems.append('rendered text %r does not parse: %s' % (text, type(val).__name__))
        elif val != T:
            problems.append('render/parse changed the tree: %r -> %r' % (text, ref_render(val)))
        elif AstToODataVisitor().visit(val) != text:
            problems.append('rendering is not a fixpoint')
except Exception as ex:
    problems.append(type(ex).__name__ + ': ' + str(ex)[:160])
print(json.dumps({{'violates': bool(problems), 'problems': problems}}))
"""
    return {"native_script": script, "input_text": es[:300], "required": "parse(render(t)) == t"}


def evidence(facts, results):
    return {"trusted_base": C09.TRUSTED + ["the OData grammar of the reader is the one proved/assumed in C05/C06"],
            "assumptions": ["reader soundness (DESIGN 5.3)", "trees are shaped like parser output (shape)",
                            "per-character homomorphism lemma for quote doubling"],
            "explanation": "every handler of AstToODataVisitor per path: reader obligations for operators/literals/lists, exact token "
                           "shapes for identifiers, paths, calls and lambdas."}


if __name__ == "__main__":
    import sys
    from vc.runner import main
    sys.exit(main(sys.modules[__name__]))
