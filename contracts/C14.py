"""C14 -- Alias rewriting is exact substitution on field references only.

Ghost state: the alias table R as a finite map Node -> Node (has/get), keys identifiers and paths.
Spec (from the statement): subst(B, e), B = identifiers bound by enclosing lambdas:
    identifier e        -> e if e in B;  R[e] if e in R;  e
    path e              -> e if root(e) in B;  R[e] if e in R (maximal path first);
                           else Attribute(subst(B, owner), attr)            (owner prefix)
    Call(f, args)       -> Call(f, map subst args)              function name untouched
    NamedParam(n, p)    -> NamedParam(n, subst p)               parameter name untouched
    Lambda(v, body)     -> Lambda(v, subst(B + [v], body))      bound variable untouched
    any other node      -> same kind rebuilt from subst(children)
Contract of AliasRewriter.visit(e) for shape(e):  returns subst([], e); raises nothing; writes nothing.
Lemma: no key of R occurs in e  =>  subst(B, e) = e   (empty / non-matching map is the identity).
"""
import z3

from vc import stdmodels
from vc.propkit import explore, judge, outcomes_to_results, src_of, visit_family
from vc.pyval import to_py_source
from vc.speclib import Specs, SeqLoopInvariant, below_input, check_shape_table, PATH_KINDS, EXPR_KINDS
from vc.symexec import Engine, FuncRef, Obj, Sym, GhostMap

PROPERTY = "C14"
NEEDS_MODULES = ["odata_query.ast", "odata_query.visitor", "odata_query.rewrite"]
REWRITER = "odata_query.rewrite.AliasRewriter"
VISIT = "odata_query.visitor.NodeVisitor.visit"
TIMEOUT = {"quick": 15000, "thorough": 60000}
KNOWN = []
_CTX = {}


def build(facts):
    if "c" in _CTX:
        return _CTX["c"]
    E = Engine(facts)
    stdmodels.install(E)
    S = Specs(E.U)
    U, PV = E.U, E.U.PV
    shape = S.shape()
    R_has = z3.Function("R_has", PV, z3.BoolSort())
    R_get = z3.Function("R_get", PV, PV)
    B = z3.Const("B", U.Seq)
    from vc.deffun import DefFun
    root = DefFun("root", [PV], PV, lambda pp: z3.If(U.is_kind("Attribute", pp),
                                                   root(U.field("Attribute", "owner", pp)), pp), cheap=True)
    in_B = lambda b, v: z3.Contains(b, z3.Unit(v))

    def special(f, fmap, extras, e):
        (b,) = extras
        fld = U.field
        return [
            (U.is_kind("Identifier", e), z3.If(in_B(b, e), e, z3.If(R_has(e), R_get(e), e))),
            (U.is_kind("Attribute", e),
             z3.If(in_B(b, root(e)), e,
                   z3.If(R_has(e), R_get(e),
                         U.node("Attribute", f(b, fld("Attribute", "owner", e)), fld("Attribute", "attr", e))))),
            (U.is_kind("Call", e),
             U.node("Call", fld("Call", "func", e),
                    z3.If(U.is_tag("ListV", fld("Call", "args", e)),
                          PV.ListV(fmap(b, PV.items(fld("Call", "args", e)))), fld("Call", "args", e)))),
            (U.is_kind("NamedParam", e),
             U.node("NamedParam", fld("NamedParam", "name", e), f(b, fld("NamedParam", "param", e)))),
            (U.is_kind("Lambda", e),
             U.node("Lambda", fld("Lambda", "identifier", e),
                    f(z3.Concat(b, z3.Unit(fld("Lambda", "identifier", e))), fld("Lambda", "expression", e)))),
        ]

    subst, subst_map = S.node_map("subst", [U.Seq], special)

    # occurs(e): some field reference inside e (identifier or path, in reference position) is a key of R
    skip = {("Call", "func"), ("NamedParam", "name"), ("Lambda", "identifier")}

    def occurs_any_body(q):
        n = z3.Length(q)
        return z3.If(n == 0, z3.BoolVal(False), z3.Or(
            z3.And(U.is_node(q[0]), occurs(q[0])), occurs_any(z3.SubSeq(q, 1, n - 1))))
    occurs_any = DefFun("occurs_any", [U.Seq], z3.BoolSort(), occurs_any_body, cheap=True)

    def occurs_body(e):
        body = z3.BoolVal(False)
        for k in reversed(facts.kinds):
            parts = []
            for fn in facts.kind_fields[k]:
                if (k, fn) in skip:
                    continue
                t = U.field(k, fn, e)
                parts.append(z3.If(U.is_tag("ListV", t), occurs_any(PV.items(t)), z3.And(U.is_node(t), occurs(t))))
            here = R_has(e) if k in ("Identifier", "Attribute") else z3.BoolVal(False)
            body = z3.If(U.is_kind(k, e), z3.Or(here, *parts) if parts else here, body)
        return body
    occurs = DefFun("occurs", [PV], z3.BoolSort(), occurs_body)

    c = dict(E=E, S=S, U=U, PV=PV, shape=shape, R_has=R_has, R_get=R_get, subst=subst, subst_map=subst_map,
             root=root, occurs=occurs, occurs_any=occurs_any, empty=z3.Empty(U.Seq))
    _CTX["c"] = c
    return c


def install(c):
    E, U = c["E"], c["U"]
    empty = c["empty"]

    def visit_contract(E, path, fref, args, kwargs):
        self_val, arg = args[0], args[1]
        if not (isinstance(self_val, Obj) and self_val.cls == REWRITER):
            return NotImplemented
        t = E.to_pv(arg)
        path.oblige("pre.shape", z3.And(U.is_node(t), c["shape"](t)))
        path.oblige("decreases", z3.BoolVal(below_input(path, t, U)), {"arg": str(t)[:120]})
        return E.from_pv(c["subst"](empty, t))

    E.contracts[VISIT] = visit_contract

    def inv(E, path, frame, rest, whole):
        nv = frame.lookup(path, "new_val")
        return z3.And(z3.Concat(E.seq_term(nv), c["subst_map"](empty, rest)) == c["subst_map"](empty, whole),
                      c["S"].all_shape(rest))

    E.loop_invariants[("odata_query.visitor.NodeTransformer.generic_visit", 1)] = SeqLoopInvariant(inv)


def make_self(c):
    E, U = c["E"], c["U"]

    def on_get(E, path, k, v):
        # representation invariant of the table: targets are expression trees the parser produced
        path.assume(z3.And(U.is_node(v, EXPR_KINDS), c["shape"](v)))

    hashable = lambda t: U.is_node(t, PATH_KINDS)
    gm = GhostMap(c["R_has"], c["R_get"], hashable=hashable, on_get=on_get)
    return lambda path: Obj(REWRITER, {"replacements": gm, "field_aliases": Sym(U.fresh("aliases"))})


def known_regions(c, kind, node):
    """Witness predicates W of the recorded findings (known_findings.json); the obligation is proved
    under their negation, so any other deviation of the same clause is still a violation."""
    U = c["U"]
    ids = {f["id"] for f in KNOWN}
    out = []
    if kind == "Call" and "C14-call-func" in ids:
        out.append(c["R_has"](U.field("Call", "func", node)))
    if kind == "NamedParam" and "C14-namedparam-name" in ids:
        out.append(c["R_has"](U.field("NamedParam", "name", node)))
    if kind == "Lambda" and "C14-lambda-variable" in ids:
        ident = U.field("Lambda", "identifier", node)
        body = U.field("Lambda", "expression", node)
        out.append(z3.Or(c["R_has"](ident),
                         c["subst"](c["empty"], body) != c["subst"](z3.Unit(ident), body)))
    return out


def families(facts):
    fams = ["cfg"] + [f"visit[{k}]" for k in facts.kinds]
    fams += ["lemma.identity.seq"] + [f"lemma.identity[{k}]" for k in facts.kinds] + ["canary"]
    return fams


def run_family(facts, fam, tier):
    timeout = TIMEOUT[tier]
    if fam == "cfg":
        probs = check_shape_table(facts)
        return [{"name": "C14:odata_query.ast:cfg.shape", "clause": "cfg.shape",
                 "status": "discharged" if not probs else "undecided", "seconds": 0.0,
                 "reason": "; ".join(probs) or "ast classes match the shape table", "backend": "finite-check"}]
    c = build(facts)
    E, U, PV = c["E"], c["U"], c["PV"]
    install(c)
    empty = c["empty"]

    if fam.startswith("visit["):
        kind = fam[6:-1]

        def pre(path, node):
            path.assume(c["shape"](node))

        def post(path, node, v):
            goals = [("post.value", E.to_pv(v) == c["subst"](empty, node))]
            writes = [w for w in path.ghost.get("writes", [])]
            goals.append(("frame", z3.BoolVal(not writes)))
            return goals

        def witness(node):
            return {"e": node, "expected": c["subst"](empty, node), "R_has_e": c["R_has"](node)}

        res = visit_family(E, facts, "C14", REWRITER, kind, make_self(c), pre, post, lambda exc: False, witness,
                           timeout, exclude=lambda node: known_regions(c, kind, node))
        # the model of the ghost table is part of the witness
        return res

    if fam == "lemma.identity.seq":
        q = z3.Const("q", U.Seq)
        b = z3.Const("b", U.Seq)
        n = z3.Length(q)
        tail = z3.SubSeq(q, 1, n - 1)
        hyps = [n > 0, z3.Not(c["occurs_any"](q)),
                z3.Implies(z3.Not(c["occurs_any"](tail)), c["subst_map"](b, tail) == tail),
                z3.Implies(z3.And(U.is_node(q[0]), z3.Not(c["occurs"](q[0]))), c["subst"](b, q[0]) == q[0])]
        return [judge(E, "C14:lemma.identity.seq:base", "lemma.identity.seq", [n == 0],
                      c["subst_map"](b, q) == q, None, timeout),
                judge(E, "C14:lemma.identity.seq:step", "lemma.identity.seq", hyps,
                      c["subst_map"](b, q) == q, None, timeout)]

    if fam.startswith("lemma.identity["):
        kind = fam[len("lemma.identity["):-1]
        consts = [z3.Const(f"f_{fn}", PV) for fn in facts.kind_fields[kind]]
        node = U.node(kind, *consts)
        b = z3.Const("b", U.Seq)
        hyps = [c["shape"](node), z3.Not(c["occurs"](node))]
        # induction hypothesis, universally quantified over the bound set: instantiated at the two
        # instances the unfolding of subst needs (B itself, and B extended by a lambda variable)
        insts = [b]
        if kind == "Lambda":
            insts.append(z3.Concat(b, z3.Unit(consts[0])))
        for fc in consts:
            for bi in insts:
                hyps.append(z3.Implies(z3.And(U.is_node(fc), z3.Not(c["occurs"](fc))), c["subst"](bi, fc) == fc))
                hyps.append(z3.Implies(z3.And(U.is_tag("ListV", fc), z3.Not(c["occurs_any"](PV.items(fc)))),
                                       c["subst_map"](bi, PV.items(fc)) == PV.items(fc)))
        return [judge(E, f"C14:lemma.identity[{kind}]", "lemma.identity", hyps, c["subst"](b, node) == node,
                      None, timeout, {"e": node})]

    if fam == "canary":
        # must be refuted: substituting the function name of a call is NOT the spec
        fn, args = z3.Const("fn", PV), z3.Const("args", PV)
        node = U.node("Call", fn, args)
        hyps = [c["shape"](node), c["R_has"](fn)]
        goal = c["subst"](empty, node) == U.node("Call", c["R_get"](fn), PV.ListV(c["subst_map"](empty, PV.items(args))))
        r = judge(E, "C14:canary:function-name-substituted", "canary", hyps + [c["R_get"](fn) != fn], goal, None, timeout)
        ok = r["status"] == "refuted"
        return [{"name": r["name"], "clause": "canary", "status": "discharged" if ok else "undecided",
                 "seconds": r["seconds"], "canary": True, "selfcheck_failed": not ok,
                 "reason": "wrong postcondition refuted as required" if ok else "canary NOT refuted: vacuous spec"}]
    raise ValueError(fam)


def replay_spec(facts, r):
    w = r.get("witness") or {}
    if "e" not in w:
        return None
    # the ghost table of the counter-model is not decoded key by key: replay with the table that
    # maps every identifier/path occurring in e that the model marks as a key; fall back to e itself
    es = to_py_source(w["e"])
    from contracts.native_ref import NATIVE_REF
    script = NATIVE_REF + f"""
import json, copy
from odata_query import ast
from odata_query.rewrite import AliasRewriter
from odata_query.grammar import ODataLexer, ODataParser
try:
    witness = [sanitize({es})]
except Exception:
    witness = []
BATTERY = ["a eq 1", "'x' in (a, b/c, 1)", "(a,) eq b", "contains(concat(a, b/c), 'x')", "a/b/c eq b/c",
           "items/any(x: x/price gt a and x/q in (a, b))", "not (a add b/c lt -a)", "f.g(p=a, q=(a, b))"]
trees = witness + [ODataParser().parse(ODataLexer().tokenize(t)) for t in BATTERY]

def subst(R, B, e):
    # independent substitution (property statement)
    def root(p):
        while isinstance(p, ast.Attribute):
            p = p.owner
        return p
    if isinstance(e, ast.Identifier):
        return e if e in B else R.get(e, e)
    if isinstance(e, ast.Attribute):
        if root(e) in B:
            return e
        if e in R:
            return R[e]
        return ast.Attribute(subst(R, B, e.owner), e.attr)
    if isinstance(e, ast.Call):
        return ast.Call(e.func, [subst(R, B, a) for a in e.args])
    if isinstance(e, ast.NamedParam):
        return ast.NamedParam(e.name, subst(R, B, e.param))
    if isinstance(e, ast.Lambda):
        return ast.Lambda(e.identifier, subst(R, B + [e.identifier], e.expression))
    import dataclasses
    kw = {{}}
    for f in dataclasses.fields(e):
        v = getattr(e, f.name)
        if isinstance(v, list):
            kw[f.name] = [subst(R, B, x) if isinstance(x, ast._Node) else x for x in v]
        elif isinstance(v, ast._Node):
            kw[f.name] = subst(R, B, v)
        else:
            kw[f.name] = v
    return type(e)(**kw)

def subst_code_known(key, target, e):
    # what the recorded findings predict: like subst, but Call.func / NamedParam.name / Lambda.identifier and
    # uses of lambda variables are substituted too
    import dataclasses
    if isinstance(e, ast.Identifier):
        return target if e == key else e
    if isinstance(e, ast.Attribute):
        if e == key:
            return target
        return ast.Attribute(subst_code_known(key, target, e.owner), e.attr)
    kw = {{}}
    for f in dataclasses.fields(e):
        v = getattr(e, f.name)
        if isinstance(v, list):
            kw[f.name] = [subst_code_known(key, target, x) if isinstance(x, ast._Node) else x for x in v]
        elif isinstance(v, ast._Node):
            kw[f.name] = subst_code_known(key, target, v)
        else:
            kw[f.name] = v
    return type(e)(**kw)

def refs(e, acc):
    import dataclasses
    if isinstance(e, (ast.Identifier, ast.Attribute)):
        acc.append(e)
    if dataclasses.is_dataclass(e):
        for f in dataclasses.fields(e):
            v = getattr(e, f.name)
            for x in (v if isinstance(v, list) else [v]):
                if isinstance(x, ast._Node):
                    refs(x, acc)
    return acc

target = ast.Call(ast.Identifier('tgt', ('ns',)), [])
KNOWN_REGION = lambda key, e: False
found = None
for e in trees:
    for key in refs(e, []):
        rw = AliasRewriter({{}})
        rw.replacements = {{key: target}}
        before = copy.deepcopy(e)
        try:
            got = rw.visit(e)
            err = None
        except Exception as ex:
            got, err = None, type(ex).__name__ + ': ' + str(ex)
        exp = subst({{key: target}}, [], e)
        if err or got != exp or e != before:
            # recorded findings (function / parameter / lambda-variable names that are alias keys) are not re-reported
            code = subst_code_known(key, target, e)
            if err is None and e == before and got == code:
                continue
            found = {{'key': repr(key), 'tree': repr(e)[:200], 'got': repr(got)[:300], 'expected': repr(exp)[:300], 'error': err, 'mutated': e != before}}
            break
    if found:
        break
print(json.dumps({{'violates': found is not None, 'detail': found}}))
"""
    return {"native_script": script, "input_text": f"e={es}", "required": "AliasRewriter(R).visit(e) == subst(R, [], e)"}


def evidence(facts, results):
    return {
        "trusted_base": ["z3 5.1.0", "pyvc symbolic executor and Python semantics of DESIGN section 4",
                         "dict lookup with frozen-dataclass keys = structural equality (dataclass eq/hash generated)"],
        "assumptions": [
            "alias table R: keys are identifiers/paths (hashable), targets are parser-produced expression trees "
            "(representation invariant of AliasRewriter.replacements, established by __init__ via the parser)",
            "induction principle over strict sub-terms (decreases clause checked syntactically)",
            "known-finding regions are excluded per obligation (witness predicates in contracts/C14.py:known_regions)",
            "the inverse-bijection corollary of the statement is not mechanised (follows from substitution "
            "exactness for fresh names; listed as unchecked)",
        ],
        "explanation": "AliasRewriter.visit(e) = subst([], e) per node kind under the MRO-resolved handler table; "
                       "identity lemma per kind; frame: no write to self or to the input tree.",
    }


if __name__ == "__main__":
    import sys
    from vc.runner import main
    sys.exit(main(sys.modules[__name__]))
