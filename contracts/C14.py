"""C14 -- Alias rewriting is exact substitution on field references only.

Ghost state: the alias table R as a finite map Node -> Node (has/get), keys identifiers and paths.
Spec (from the statement): subst(B, e), B = identifiers bound by enclosing lambdas:
    identifier e        -> e if e in B;  R[e] if e in R;  e
    path e              -> e if root(e) in B;  R[e] if e in R (maximal path first);
                           else Attribute(subst(B, owner), attr)            (owner prefix)
    Call(f, args)       -> Call(f, map subst args)              function name untouched
    NamedParam(n, p)    -> NamedParam(n, subst p)               parameter name untouched
    Lambda(v, body)     -> Lambda(v, subst(B + [v], body))      bound variable untouched
    any other node      -> same kind rebuilt from subst(children)
Contract of AliasRewriter.visit(e) for shape(e):  returns subst([], e); raises nothing; writes nothing.
Lemma: no key of R occurs in e  =>  subst(B, e) = e   (empty / non-matching map is the identity).
"""
import z3

from vc import stdmodels
from vc.propkit import explore, judge, outcomes_to_results, src_of, visit_family
from vc.pyval import to_py_source
from vc.speclib import Specs, SeqLoopInvariant, below_input, check_shape_table, PATH_KINDS, EXPR_KINDS
from vc.symexec import Engine, FuncRef, Obj, Sym, GhostMap

PROPERTY = "C14"
NEEDS_MODULES = ["odata_query.ast", "odata_query.visitor", "odata_query.rewrite"]
REWRITER = "odata_query.rewrite.AliasRewriter"
VISIT = "odata_query.visitor.NodeVisitor.visit"
TIMEOUT = {"quick": 15000, "thorough": 60000}
KNOWN = []
_CTX = {}


def build(facts):
    if "c" in _CTX:
        return _CTX["c"]
    E = Engine(facts)
    stdmodels.install(E)
    S = Specs(E.U)
    U, PV = E.U, E.U.PV
    shape = S.shape()
    R_has = z3.Function("R_has", PV, z3.BoolSort())
    R_get = z3.Function("R_get", PV, PV)
    B = z3.Const("B", U.Seq)
    from vc.deffun import DefFun
    root = DefFun("root", [PV], PV, lambda pp: z3.If(U.is_kind("Attribute", pp),
                                                   root(U.field("Attribute", "owner", pp)), pp), cheap=True)
    in_B = lambda b, v: z3.Contains(b, z3.Unit(v))

    def special(f, fmap, extras, e):
        (b,) = extras
        fld = U.field
        return [
            (U.is_kind("Identifier", e), z3.If(in_B(b, e), e, z3.If(R_has(e), R_get(e), e))),
            (U.is_kind("Attribute", e),
             z3.If(in_B(b, root(e)), e,
                   z3.If(R_has(e), R_get(e),
                         U.node("Attribute", f(b, fld("Attribute", "owner", e)), fld("Attribute", "attr", e))))),
            (U.is_kind("Call", e),
             U.node("Call", fld("Call", "func", e),
                    z3.If(U.is_tag("ListV", fld("Call", "args", e)),
                          PV.ListV(fmap(b, PV.items(fld("Call", "args", e)))), fld("Call", "args", e)))),
            (U.is_kind("NamedParam", e),
             U.node("NamedParam", fld("NamedParam", "name", e), f(b, fld("NamedParam", "param", e)))),
            (U.is_kind("Lambda", e),
             U.node("Lambda", fld("Lambda", "identifier", e),
                    f(z3.Concat(b, z3.Unit(fld("Lambda", "identifier", e))), fld("Lambda", "expression", e)))),
        ]

    subst, subst_map = S.node_map("subst", [U.Seq], special)

    # occurs(e): some field reference inside e (identifier or path, in reference position) is a key of R
    skip = {("Call", "func"), ("NamedParam", "name"), ("Lambda", "identifier")}

    def occurs_any_body(q):
        n = z3.Length(q)
        return z3.If(n == 0, z3.BoolVal(False), z3.Or(
            z3.And(U.is_node(q[0]), occurs(q[0])), occurs_any(z3.SubSeq(q, 1, n - 1))))
    occurs_any = DefFun("occurs_any", [U.Seq], z3.BoolSort(), occurs_any_body, cheap=True)

    def occurs_body(e):
        body = z3.BoolVal(False)
        for k in reversed(facts.kinds):
            parts = []
            for fn in facts.kind_fields[k]:
                if (k, fn) in skip:
                    continue
                t = U.field(k, fn, e)
                parts.append(z3.If(U.is_tag("ListV", t), occurs_any(PV.items(t)), z3.And(U.is_node(t), occurs(t))))
            here = R_has(e) if k in ("Identifier", "Attribute") else z3.BoolVal(False)
            body = z3.If(U.is_kind(k, e), z3.Or(here, *parts) if parts else here, body)
        return body
    occurs = DefFun("occurs", [PV], z3.BoolSort(), occurs_body)

    c = dict(E=E, S=S, U=U, PV=PV, shape=shape, R_has=R_has, R_get=R_get, subst=subst, subst_map=subst_map,
             root=root, occurs=occurs, occurs_any=occurs_any, empty=z3.Empty(U.Seq))
    _CTX["c"] = c
    return c


def install(c):
    E, U = c["E"], c["U"]
    empty = c["empty"]

    def visit_contract(E, path, fref, args, kwargs):
        self_val, arg = args[0], args[1]
        if not (isinstance(self_val, Obj) and self_val.cls == REWRITER):
            return NotImplemented
        t = E.to_pv(arg)
        path.oblige("pre.shape", z3.And(U.is_node(t), c["shape"](t)))
        path.oblige("decreases", z3.BoolVal(below_input(path, t, U)), {"arg": str(t)[:120]})
        return E.from_pv(c["subst"](empty, t))

    E.contracts[VISIT] = visit_contract

    def inv(E, path, frame, rest, whole):
        nv = frame.lookup(path, "new_val")
        return z3.And(z3.Concat(E.seq_term(nv), c["subst_map"](empty, rest)) == c["subst_map"](empty, whole),
                      c["S"].all_shape(rest))

    E.loop_invariants[("odata_query.visitor.NodeTransformer.generic_visit", 1)] = SeqLoopInvariant(inv)


def make_self(c):
    E, U = c["E"], c["U"]

    def on_get(E, path, k, v):
        # representation invariant of the table: targets are expression trees the parser produced
        path.assume(z3.And(U.is_node(v, EXPR_KINDS), c["shape"](v)))

    hashable = lambda t: U.is_node(t, PATH_KINDS)
    gm = GhostMap(c["R_has"], c["R_get"], hashable=hashable, on_get=on_get)
    # fields the constructor stores besides the two of the model: a handler that reads one is outside the contract (undecided,
    # never a violation); the bounded pipeline family runs the real constructor
    extra = init_written_fields(E.facts) - set(MODEL_FIELDS)
    return lambda path: Obj(REWRITER, {"replacements": gm, "field_aliases": Sym(U.fresh("aliases"))}, unmodelled=extra)


MODEL_FIELDS = ("replacements", "field_aliases")


def _self_attr_names(source, store):
    import ast as pyast
    import textwrap
    out = set()
    for n in pyast.walk(pyast.parse(textwrap.dedent(source))):
        if isinstance(n, pyast.Attribute) and isinstance(n.value, pyast.Name) and n.value.id == "self" and \
                isinstance(n.ctx, pyast.Store if store else pyast.Load):
            out.add(n.attr)
    return out


def init_written_fields(facts):
    """instance fields assigned by AliasRewriter.__init__ (MRO-resolved source of the tree under check)"""
    m = facts.classes[REWRITER]["members"].get("__init__")
    return _self_attr_names(m["source"], True) if m and m.get("source") else set()


def fields_read_by_members(facts):
    out = set()
    for name, m in facts.classes[REWRITER]["members"].items():
        if name != "__init__" and m.get("source") and str(m.get("definer", "")).startswith("odata_query."):
            out |= _self_attr_names(m["source"], False)
    return out


def known_regions(c, kind, node):
    """Witness predicates W of the recorded findings (known_findings.json); the obligation is proved
    under their negation, so any other deviation of the same clause is still a violation."""
    U = c["U"]
    ids = {f["id"] for f in KNOWN}
    out = []
    if kind == "Call" and "C14-call-func" in ids:
        out.append(c["R_has"](U.field("Call", "func", node)))
    if kind == "NamedParam" and "C14-namedparam-name" in ids:
        out.append(c["R_has"](U.field("NamedParam", "name", node)))
    if kind == "Lambda" and "C14-lambda-variable" in ids:
        ident = U.field("Lambda", "identifier", node)
        body = U.field("Lambda", "expression", node)
        out.append(z3.Or(c["R_has"](ident),
                         c["subst"](c["empty"], body) != c["subst"](z3.Unit(ident), body)))
    return out


def families(facts):
    fams = ["cfg", "init.table"] + [f"visit[{k}]" for k in facts.kinds]
    fams += ["lemma.identity.seq"] + [f"lemma.identity[{k}]" for k in facts.kinds] + ["bounded.pipeline", "canary"]
    return fams


def run_family(facts, fam, tier):
    timeout = TIMEOUT[tier]
    if fam == "cfg":
        probs = check_shape_table(facts)
        return [{"name": "C14:odata_query.ast:cfg.shape", "clause": "cfg.shape",
                 "status": "discharged" if not probs else "undecided", "seconds": 0.0,
                 "reason": "; ".join(probs) or "ast classes match the shape table", "backend": "finite-check"}]
    if fam == "init.table":
        return init_table(facts, timeout)
    if fam == "bounded.pipeline":
        return bounded_pipeline(facts, tier)
    c = build(facts)
    E, U, PV = c["E"], c["U"], c["PV"]
    install(c)
    empty = c["empty"]

    if fam.startswith("visit["):
        kind = fam[6:-1]

        def pre(path, node):
            path.assume(c["shape"](node))

        def post(path, node, v):
            goals = [("post.value", E.to_pv(v) == c["subst"](empty, node))]
            writes = [w for w in path.ghost.get("writes", [])]
            goals.append(("frame", z3.BoolVal(not writes)))
            return goals

        def witness(node):
            return {"e": node, "expected": c["subst"](empty, node), "R_has_e": c["R_has"](node)}

        res = visit_family(E, facts, "C14", REWRITER, kind, make_self(c), pre, post, lambda exc: False, witness,
                           timeout, exclude=lambda node: known_regions(c, kind, node))
        # the model of the ghost table is part of the witness
        return res

    if fam == "lemma.identity.seq":
        q = z3.Const("q", U.Seq)
        b = z3.Const("b", U.Seq)
        n = z3.Length(q)
        tail = z3.SubSeq(q, 1, n - 1)
        hyps = [n > 0, z3.Not(c["occurs_any"](q)),
                z3.Implies(z3.Not(c["occurs_any"](tail)), c["subst_map"](b, tail) == tail),
                z3.Implies(z3.And(U.is_node(q[0]), z3.Not(c["occurs"](q[0]))), c["subst"](b, q[0]) == q[0])]
        return [judge(E, "C14:lemma.identity.seq:base", "lemma.identity.seq", [n == 0],
                      c["subst_map"](b, q) == q, None, timeout),
                judge(E, "C14:lemma.identity.seq:step", "lemma.identity.seq", hyps,
                      c["subst_map"](b, q) == q, None, timeout)]

    if fam.startswith("lemma.identity["):
        kind = fam[len("lemma.identity["):-1]
        consts = [z3.Const(f"f_{fn}", PV) for fn in facts.kind_fields[kind]]
        node = U.node(kind, *consts)
        b = z3.Const("b", U.Seq)
        hyps = [c["shape"](node), z3.Not(c["occurs"](node))]
        # induction hypothesis, universally quantified over the bound set: instantiated at the two
        # instances the unfolding of subst needs (B itself, and B extended by a lambda variable)
        insts = [b]
        if kind == "Lambda":
            insts.append(z3.Concat(b, z3.Unit(consts[0])))
        for fc in consts:
            for bi in insts:
                hyps.append(z3.Implies(z3.And(U.is_node(fc), z3.Not(c["occurs"](fc))), c["subst"](bi, fc) == fc))
                hyps.append(z3.Implies(z3.And(U.is_tag("ListV", fc), z3.Not(c["occurs_any"](PV.items(fc)))),
                                       c["subst_map"](bi, PV.items(fc)) == PV.items(fc)))
        return [judge(E, f"C14:lemma.identity[{kind}]", "lemma.identity", hyps, c["subst"](b, node) == node,
                      None, timeout, {"e": node})]

    if fam == "canary":
        # must be refuted: substituting the function name of a call is NOT the spec
        fn, args = z3.Const("fn", PV), z3.Const("args", PV)
        node = U.node("Call", fn, args)
        hyps = [c["shape"](node), c["R_has"](fn)]
        goal = c["subst"](empty, node) == U.node("Call", c["R_get"](fn), PV.ListV(c["subst_map"](empty, PV.items(args))))
        r = judge(E, "C14:canary:function-name-substituted", "canary", hyps + [c["R_get"](fn) != fn], goal, None, timeout)
        ok = r["status"] == "refuted"
        return [{"name": r["name"], "clause": "canary", "status": "discharged" if ok else "undecided",
                 "seconds": r["seconds"], "canary": True, "selfcheck_failed": not ok,
                 "reason": "wrong postcondition refuted as required" if ok else "canary NOT refuted: vacuous spec"}]
    raise ValueError(fam)


NATIVE_SUBST = r"""
import json, copy, dataclasses
from odata_query import ast
from odata_query.rewrite import AliasRewriter
from odata_query.grammar import ODataLexer, ODataParser


def P(text):
    return ODataParser().parse(ODataLexer().tokenize(text))


def subst(R, B, e):
    # independent substitution (property statement)
    def root(p):
        while isinstance(p, ast.Attribute):
            p = p.owner
        return p
    if isinstance(e, ast.Identifier):
        return e if e in B else R.get(e, e)
    if isinstance(e, ast.Attribute):
        if root(e) in B:
            return e
        if e in R:
            return R[e]
        return ast.Attribute(subst(R, B, e.owner), e.attr)
    if isinstance(e, ast.Call):
        return ast.Call(e.func, [subst(R, B, a) for a in e.args])
    if isinstance(e, ast.NamedParam):
        return ast.NamedParam(e.name, subst(R, B, e.param))
    if isinstance(e, ast.Lambda):
        return ast.Lambda(e.identifier, subst(R, B + [e.identifier], e.expression))
    kw = {}
    for f in dataclasses.fields(e):
        v = getattr(e, f.name)
        if isinstance(v, list):
            kw[f.name] = [subst(R, B, x) if isinstance(x, ast._Node) else x for x in v]
        elif isinstance(v, ast._Node):
            kw[f.name] = subst(R, B, v)
        else:
            kw[f.name] = v
    return type(e)(**kw)


def subst_code_known(key, target, e):
    # what the recorded findings predict: like subst, but Call.func / NamedParam.name / Lambda.identifier and
    # uses of lambda variables are substituted too
    if isinstance(e, ast.Identifier):
        return target if e == key else e
    if isinstance(e, ast.Attribute):
        if e == key:
            return target
        return ast.Attribute(subst_code_known(key, target, e.owner), e.attr)
    kw = {}
    for f in dataclasses.fields(e):
        v = getattr(e, f.name)
        if isinstance(v, list):
            kw[f.name] = [subst_code_known(key, target, x) if isinstance(x, ast._Node) else x for x in v]
        elif isinstance(v, ast._Node):
            kw[f.name] = subst_code_known(key, target, v)
        else:
            kw[f.name] = v
    return type(e)(**kw)


def refs(e, acc):
    if isinstance(e, (ast.Identifier, ast.Attribute)):
        acc.append(e)
    if dataclasses.is_dataclass(e):
        for f in dataclasses.fields(e):
            v = getattr(e, f.name)
            for x in (v if isinstance(v, list) else [v]):
                if isinstance(x, ast._Node):
                    refs(x, acc)
    return acc


TARGET_TEXT = "ns.tgt()"
TARGET = ast.Call(ast.Identifier('tgt', ('ns',)), [])


def run_one(key, e):
    # the REAL constructor builds the table from text; -> None or a description of the deviation
    ktext = ref_render(key)
    try:
        if P(ktext) != key or P(TARGET_TEXT) != TARGET:
            return None                      # not expressible as alias text: outside the statement
    except Exception:
        return None
    before = copy.deepcopy(e)
    try:
        rw = AliasRewriter({ktext: TARGET_TEXT})
        got = rw.visit(e)
        err = None
    except Exception as ex:
        got, err = None, type(ex).__name__ + ': ' + str(ex)
    exp = subst({key: TARGET}, [], e)
    if err or got != exp or e != before:
        # recorded findings (function / parameter / lambda-variable names that are alias keys) are not re-reported
        if err is None and e == before and got == subst_code_known(key, TARGET, e):
            return None
        return {'alias': {ktext: TARGET_TEXT}, 'tree': ref_render(e)[:200], 'got': repr(got)[:300], 'expected': repr(exp)[:300],
                'error': err, 'mutated': e != before}
    return None


def keys_for(e):
    # alias keys tried for a tree: every reference in it, and near misses of each (bare / namespaced / prefix / last segment)
    out = []
    for k in refs(e, []):
        out.append(k)
        if isinstance(k, ast.Identifier):
            out.append(ast.Identifier(k.name, ()) if k.namespace else ast.Identifier(k.name, ('zz',)))
            out.append(ast.Identifier(k.name.upper(), k.namespace))
        else:
            out.append(k.owner)
            out.append(ast.Identifier(k.attr, ()))
            out.append(ast.Attribute(k, 'more'))
    seen, uniq = set(), []
    for k in out:
        if repr(k) not in seen:
            seen.add(repr(k))
            uniq.append(k)
    return uniq
"""

BATTERY = ["a eq 1", "'x' in (a, b/c, 1)", "(a,) eq b", "contains(concat(a, b/c), 'x')", "a/b/c eq b/c",
           "items/any(x: x/price gt a and x/q in (a, b))", "not (a add b/c lt -a)", "f.g(p=a, q=(a, b))",
           "contoso.name eq name", "name eq 'name' and author/name eq n.name", "geo.length(route) gt length(name)",
           "ns.author/name eq author/name", "a/b eq b and a eq a/b/c", "x/any(a: a/b eq b) and a/b eq 1",
           "Name eq name and NAME eq 'name'", "items/all(i: i/tags/any(t: t eq a/b or i/a eq a))"]


def replay_spec(facts, r):
    if r.get("bounded") and r.get("native_script"):
        return {"native_script": r["native_script"], "input_text": r.get("bound"), "required": "AliasRewriter(R).visit(e) == subst(R, [], e)"}
    w = r.get("witness") or {}
    if "e" not in w:
        return None
    # the ghost table of the counter-model is not decoded key by key: replay with every single-key table whose key is an
    # identifier/path occurring in e, built by the real constructor from alias text
    es = to_py_source(w["e"])
    from contracts.native_ref import NATIVE_REF
    script = NATIVE_REF + NATIVE_SUBST + f"""
try:
    witness = [sanitize({es})]
except Exception:
    witness = []
trees = witness + [P(t) for t in {BATTERY[:8]!r}]
found = None
for e in trees:
    for key in refs(e, []):
        found = run_one(key, e)
        if found:
            break
    if found:
        break
print(json.dumps({{'violates': found is not None, 'detail': found}}))
"""
    return {"native_script": script, "input_text": f"e={es}", "required": "AliasRewriter(R).visit(e) == subst(R, [], e)"}


def bounded_script(filters):
    from contracts.native_ref import NATIVE_REF
    return NATIVE_REF + NATIVE_SUBST + f"""
bad, ran = [], 0
for t in {filters!r}:
    e = P(t)
    for key in keys_for(e):
        ran += 1
        d = run_one(key, e)
        if d:
            bad.append(d)
print(json.dumps({{'violates': bool(bad), 'problems': bad[:5], 'count': len(bad), 'ran': ran}}))
"""


def bounded_pipeline(facts, tier):
    """Bounded stand-in (labelled, never counted): the REAL constructor builds the table from alias text, the real visitor
    rewrites the battery's trees; compared with the independent substitution.  Covers what the handler contracts assume of
    __init__ beyond init.table: fields derived from the table, key normalisation, parser reuse."""
    import time
    from vc.runner import native_run
    t0 = time.time()
    script = bounded_script(BATTERY)
    nat = native_run(script, timeout=600)
    name = "C14:pipeline:bounded"
    if "problems" not in nat:
        return [{"name": name, "clause": "bounded", "bounded": True, "status": "undecided", "seconds": time.time() - t0,
                 "reason": str(nat)[:300], "bound": "native run failed"}]
    ok = not nat["violates"]
    return [{"name": name, "clause": "bounded", "bounded": True, "status": "discharged" if ok else "refuted", "seconds": time.time() - t0,
             "backend": "real AliasRewriter(field_aliases) vs independent substitution (bounded, not a proof)",
             "bound": f"{len(BATTERY)} filters x every reference in them and its near misses as the single alias key ({nat['ran']} runs)",
             "reason": "rewritten tree equals subst(R, [], e) in every run" if ok else str(nat["problems"][:2])[:400],
             "solver_output": str(nat["problems"][:3])[:800], "native_script": script}]


def init_table(facts, timeout):
    """Contract of AliasRewriter.__init__ (what the handler contracts assume of `self`):  replacements = {P(k): P(v)} with P the
    supplied-or-fresh parser over the supplied-or-fresh lexer (term comparison, shared with C20 init.instances), and no further
    field that a handler reads."""
    import time
    from contracts import C20
    from contracts import grammar_common as G
    t0 = time.time()
    c2 = G.build(facts)
    fs = set()
    out = C20.init_instances(c2, facts, timeout, t0, prefix="C14", clause="init.table", fields=fs)
    fs |= init_written_fields(facts)
    extra = sorted(fs - set(MODEL_FIELDS))
    read = sorted(set(extra) & fields_read_by_members(facts))
    r = {"name": f"C14:{REWRITER}.__init__:init.fields", "clause": "init.fields", "seconds": time.time() - t0, "backend": "finite-check",
         "status": "discharged" if not read else "undecided",
         "reason": (f"the constructor stores {sorted(fs)}; handlers read only the modelled fields {list(MODEL_FIELDS)}" if not read else
                    f"the constructor also stores {read}, which handlers read: its relation to the alias table is outside the contract "
                    "(bounded.pipeline runs the real constructor)")}
    return out + [r]


def evidence(facts, results):
    return {
        "trusted_base": ["z3 5.1.0", "pyvc symbolic executor and Python semantics of DESIGN section 4",
                         "dict lookup with frozen-dataclass keys = structural equality (dataclass eq/hash generated)"],
        "assumptions": [
            "alias table R: keys are identifiers/paths (hashable), targets are parser-produced expression trees "
            "(representation invariant of AliasRewriter.replacements; that __init__ builds exactly {parse(k): parse(v)} is the "
            "obligation init.table, what the parser returns for a key is C05/C06/C10's subject)",
            "a handler reading a constructor-set field outside the object model {replacements, field_aliases} is undecided; only the "
            "bounded pipeline family (real constructor) speaks about such fields",
            "induction principle over strict sub-terms (decreases clause checked syntactically)",
            "known-finding regions are excluded per obligation (witness predicates in contracts/C14.py:known_regions)",
            "the inverse-bijection corollary of the statement is not mechanised (follows from substitution "
            "exactness for fresh names; listed as unchecked)",
        ],
        "explanation": "AliasRewriter.visit(e) = subst([], e) per node kind under the MRO-resolved handler table; "
                       "identity lemma per kind; frame: no write to self or to the input tree.",
    }


if __name__ == "__main__":
    import sys
    from vc.runner import main
    sys.exit(main(sys.modules[__name__]))
