"""C15 -- Shorthands conjoin the filter with the incoming query and leave the host intact.

Layer 1 (contracts on the real shorthand functions, counted).  Calls into Django / SQLAlchemy are uninterpreted
constructors (DESIGN 4.8); the lexer, parser and visitor are under their own contracts (C05/C06/C12), here
`where = visit(parse(tokenize(text)))` is one opaque term.  On every path of the real function:
   post.compose   the value returned is built from the *incoming* query object by the calls the statement names and
                  nothing else:   Django:  [annotate(**annotations)].filter(where)   (annotate iff the visitor collected any)
                                  Core:    query.filter(where)
                                  ORM:     query [.join(j) for the required joins j, in order, that are not already
                                           joined (neither str(j) nor str(j.key) among the existing joins)] .filter(where)
                  -- so conditions, joins, ordering and annotations already on the base query are kept (the base object is
                  the receiver of every call), an already joined relationship is not joined again, every required join is
                  added.  The ORM loop is unrolled for 0, 1 and 2 required joins (stated bound on the list length).
   post.instances the visitor is built for the model / table of the incoming query, and the text is parsed once.
   cfg.package    every SQL function class of functions_ext registers under the package "odata" (SQLAlchemy keeps one
                  registry per package: the host's sqlalchemy.func.<name> is untouched).
Layer 2 (bounded, labelled, never counted): base queries (plain, pre-filtered, ordered, pre-joined, legacy Query;
Django manager / filtered / annotated querysets) x filters executed on in-memory SQLite: rows = rows of the base query
that satisfy the filter; no relationship joined twice; sqlalchemy.func.<name> classes identical before and after importing
the backend (fresh processes).
"""
import ast as pyast
import json
import os
import time

import z3

from contracts import grammar_common as G
from contracts import sqlcommon as Q
from vc.propkit import explore, src_of
from vc.runner import native_run
from vc.symexec import Atom, ExtVal, FuncRef, ListObj, SBool, SStr, Unsupported

PROPERTY = "C15"
NEEDS_MODULES = ["odata_query.django.shorthand", "odata_query.sqlalchemy.shorthand", "odata_query.sqlalchemy.functions_ext",
                 "odata_query.django.django_q", "odata_query.sqlalchemy.orm", "odata_query.sqlalchemy.core"]
KNOWN = []
VIS = {"django": "odata_query.django.django_q.AstToDjangoQVisitor", "sa_orm": "odata_query.sqlalchemy.orm.AstToSqlAlchemyOrmVisitor",
       "sa_core": "odata_query.sqlalchemy.core.AstToSqlAlchemyCoreVisitor"}
FUNCS = {"django": "odata_query.django.shorthand.apply_odata_query", "sa_orm": "odata_query.sqlalchemy.shorthand.apply_odata_query",
         "sa_core": "odata_query.sqlalchemy.shorthand.apply_odata_core"}


def families(facts):
    return ["shorthand[django]", "shorthand[sa_core]", "shorthand[sa_orm/0]", "shorthand[sa_orm/1]", "shorthand[sa_orm/2]", "cfg.package",
            "bounded.compose[django]", "bounded.compose[sa_orm]", "bounded.compose[sa_core]", "bounded.compose-rel[sa_orm]",
            "bounded.func-registry", "canary"]


def res(name, clause, ok, t0, reason, extra=None, backend="pyvc (term comparison)"):
    r = {"name": name, "clause": clause, "status": "discharged" if ok else "refuted", "seconds": time.time() - t0,
         "backend": backend, "reason": reason}
    if not ok:
        r["solver_output"] = reason
    if extra:
        r.update(extra)
    return r


def call_of(v, method):
    """v == recv.method(args...) -> (recv, args, kwargs) | None"""
    if isinstance(v, ExtVal) and v.name == "<call>" and v.args and isinstance(v.args[0], ExtVal) and v.args[0].name == "getattr" \
            and len(v.args[0].args) == 2 and v.args[0].args[1] == method:
        return v.args[0].args[0], list(v.args[1:]), list(v.kwargs)
    return None


def is_ext(v, name):
    return isinstance(v, ExtVal) and v.name == name


def run_shorthand(facts, fam, tier, t0):
    bkey = fam[len("shorthand["):-1]
    njoins = 0
    if "/" in bkey:
        bkey, n = bkey.split("/")
        njoins = int(n)
    c = Q.build(facts)
    E = c["E"]
    fq = FUNCS[bkey]
    if fq not in facts.functions:
        return [{"name": f"C15:{fq}:import", "clause": "unsupported", "status": "undecided", "seconds": 0.0, "reason": "function not extracted"}]
    m = facts.functions[fq]
    text = z3.String("text")
    joins = [ExtVal(f"<required join {i}>") for i in range(njoins)]
    holder = {"visits": 0, "tok": 0, "parse": 0}
    joined = None

    def k_tok(E_, path, fref, args, kwargs):
        path.ghost["tok"] = path.ghost.get("tok", 0) + 1
        return ExtVal("tokenize", list(args[1:]))

    def k_parse(E_, path, fref, args, kwargs):
        path.ghost["parse"] = path.ghost.get("parse", 0) + 1
        return ExtVal("parse", list(args[1:]))

    def k_visit(E_, path, fref, args, kwargs):
        self_obj = args[0]
        path.ghost["visitor"] = self_obj
        path.ghost["visits"] = path.ghost.get("visits", 0) + 1
        if bkey == "django":
            self_obj.attrs["queryset_annotations"] = ExtVal("<annotations>")
        if bkey == "sa_orm":
            self_obj.attrs["join_relationships"] = ListObj(list(joins))
        return ExtVal("where", [args[1]])

    existing0 = z3.Const("existing_joins", c["U"].Seq)

    def k_joined(E_, path, fref, args, kwargs):
        # the names of the relationships the incoming query already joins: some list of strings (what _get_joined_attrs
        # reads from SQLAlchemy's private _setup_joins is out of reach); a real list, so later mutations are seen
        path.assume_fact(c["S"].all_str(existing0))
        return ListObj(existing0, fresh=True)

    def in_hook(E_, path, x, cont):
        raise Unsupported("`in` on an external value")
    saved = (dict(E.contracts), dict(E.ext_models))
    for qn in ("sly.lex.Lexer.tokenize", G.LEXER + ".tokenize"):
        E.contracts[qn] = k_tok
    for qn in ("sly.yacc.Parser.parse", G.PARSER + ".parse"):
        E.contracts[qn] = k_parse
    for cls in list(VIS.values()) + ["odata_query.visitor.NodeVisitor"]:
        E.contracts[cls + ".visit"] = k_visit
    E.contracts["odata_query.sqlalchemy.shorthand._get_joined_attrs"] = k_joined
    E.ext_models["<in>"] = in_hook
    out = []
    try:
        rs = explore(E, lambda path: E.run_function(path, FuncRef(m), [ExtVal("<query>"), SStr([Atom(text, ("term",))])]))
        name = f"C15:{fq}" + (f"[{njoins} required joins]" if bkey == "sa_orm" else "")
        for i, (path, oc) in enumerate(rs):
            if oc[0] == "unsupported":
                out.append({"name": name + ":unsupported", "clause": "unsupported", "status": "undecided", "seconds": 0.0, "reason": oc[1],
                            "source": src_of(m), "path": i})
                continue
            if oc[0] == "raise":
                out.append(res(name + ":safety.raise", "safety.raise", False, t0, f"raises {oc[1].name}{oc[1].args!r}"[:200],
                               {"source": src_of(m), "path": i, "witness": {"backend": bkey}}))
                continue
            v = oc[1]
            pcs = [z3.simplify(x) for x in path.pc]
            ok, why = compose_ok(E, bkey, v, joins, existing0, path, pcs)
            out.append(res(name + ":post.compose", "post.compose", ok, t0, why, {"source": src_of(m), "path": i, "witness": {"backend": bkey},
                                                                                 "info": {"result": repr(v)[:300]}}))
            vis = path.ghost.get("visitor")
            inst_ok, inst_why = instances_ok(bkey, vis, path)
            out.append(res(name + ":post.instances", "post.instances", inst_ok, t0, inst_why, {"source": src_of(m), "path": i,
                                                                                               "witness": {"backend": bkey}}))
    finally:
        E.contracts.clear()
        E.contracts.update(saved[0])
        E.ext_models.clear()
        E.ext_models.update(saved[1])
    if not out:
        out.append({"name": f"C15:{fq}:cover", "clause": "cover", "status": "undecided", "seconds": 0.0, "selfcheck_failed": True, "reason": "no path"})
    return out


def instances_ok(bkey, vis, path):
    if vis is None or path.ghost.get("visits") != 1 or path.ghost.get("tok") != 1 or path.ghost.get("parse") != 1:
        return False, f"the text is tokenised {path.ghost.get('tok', 0)}x, parsed {path.ghost.get('parse', 0)}x, translated {path.ghost.get('visits', 0)}x (each must be exactly once)"
    attr = {"django": "root_model", "sa_orm": "root_model", "sa_core": "table"}[bkey]
    root = vis.attrs.get(attr)
    r = repr(root)
    want = {"django": "getattr(<query>(), 'model')", "sa_core": "getitem(getattr(<query>(), 'columns_clause_froms'), 0)"}.get(bkey)
    if bkey == "sa_orm":
        ok = r in ("getattr(getitem(getattr(<query>(), 'columns_clause_froms'), 0), 'entity_namespace')",
                   "getattr(getitem(getattr(<call>(getattr(<query>(), '__clause_element__')), 'columns_clause_froms'), 0), 'entity_namespace')")
    else:
        ok = r == want
    return ok, ("the visitor is built for the model / table of the incoming query" if ok else f"the visitor is built for {r}")


def compose_ok(E, bkey, v, joins, existing0, path, pcs):
    f = call_of(v, "filter") or (call_of(v, "where") if bkey != "django" else None)      # Select.where is filter's synonym
    if f is None:
        return False, f"the result is not <something>.filter(where): {v!r}"[:300]
    recv, args, kwargs = f
    if kwargs or len(args) != 1 or not (is_ext(args[0], "where") and repr(args[0]) == "where(parse(tokenize(SStr(<term:text>))))"):
        return False, f"filter() is not applied to the translation of the given text: {args!r}"[:300]
    if bkey == "sa_core":
        ok = is_ext(recv, "<query>")
        return ok, "query.filter(where)" if ok else f"filter() is applied to {recv!r}, not to the incoming query"[:300]
    if bkey == "django":
        truthy = any("ext_truthy" in str(x) and not str(x).startswith("Not(") for x in pcs)
        falsy = any(str(x).startswith("Not(ext_truthy") for x in pcs)
        if truthy:
            a = call_of(recv, "annotate")
            ok = a is not None and is_ext(a[0], "<query>") and not a[1] and len(a[2]) == 1 and a[2][0][0] == "**" and is_ext(a[2][0][1], "<annotations>")
            return ok, "queryset.annotate(**annotations).filter(where)" if ok else f"annotations were collected but the receiver of filter() is {recv!r}"[:300]
        ok = falsy and is_ext(recv, "<query>")
        return ok, "queryset.filter(where)" if ok else f"no annotations, but the receiver of filter() is {recv!r}"[:300]
    # sa_orm: chain of joins over the incoming query
    chain = []
    cur = recv
    while True:
        j = call_of(cur, "join")
        if j is None:
            break
        if j[2] or len(j[1]) != 1:
            return False, f"join() called with {j[1]!r} {j[2]!r}"[:200]
        chain.append(j[1][0])
        cur = j[0]
    chain.reverse()
    if not is_ext(cur, "<query>"):
        return False, f"the join chain does not start from the incoming query but from {cur!r}"[:300]
    # which joins must be present on this path: those for which the path says neither spelling is already joined
    want = []
    for jv in joins:
        s1 = z3.Contains(existing0, z3.Unit(E.to_pv(E.to_str(path, jv))))
        s2 = z3.Contains(existing0, z3.Unit(E.to_pv(E.to_str(path, ExtVal("getattr", [jv, "key"])))))
        already = path.entails(z3.Or(s1, s2))
        needed = path.entails(z3.And(z3.Not(s1), z3.Not(s2)))
        if not (already or needed):
            return False, "the path does not decide whether a required join is already present"
        if needed:
            want.append(jv)
    ok = len(chain) == len(want) and all(a is b for a, b in zip(chain, want))
    return ok, ("query" + "".join(".join(j)" for _ in want) + ".filter(where): required joins not already present, in order" if ok else
                f"joins applied {chain!r}, required and not yet joined {want!r}"[:300])


def cfg_package(facts, t0):
    """finite check on the real source file: every GenericFunction subclass of functions_ext sets package = 'odata' """
    out = []
    root = facts.raw.get("repo_root") or os.environ.get("REPO_ROOT", "/repo")
    path = os.path.join(root, "odata_query", "sqlalchemy", "functions_ext.py")
    try:
        tree = pyast.parse(open(path).read())
    except Exception as ex:
        return [{"name": "C15:functions_ext:cfg.package", "clause": "unsupported", "status": "undecided", "seconds": 0.0, "reason": str(ex)[:200]}]
    n = 0
    classes = {nd.name: nd for nd in tree.body if isinstance(nd, pyast.ClassDef)}

    def base_names(nd):
        return [b.id if isinstance(b, pyast.Name) else getattr(b, "attr", "") for b in nd.bases]

    def is_generic(nd, seen=()):
        bs = base_names(nd)
        return "GenericFunction" in bs or any(b in classes and b not in seen and is_generic(classes[b], seen + (nd.name,)) for b in bs)

    def own(nd, attr):
        for st in nd.body:
            if isinstance(st, pyast.Assign) and any(isinstance(t, pyast.Name) and t.id == attr for t in st.targets) \
                    and isinstance(st.value, pyast.Constant):
                return st.value.value
        return None
    for node in tree.body:
        if not isinstance(node, pyast.ClassDef) or not is_generic(node):
            continue
        if own(node, "_register") is False:
            continue            # an abstract base: SQLAlchemy does not register it
        n += 1
        # SQLAlchemy reads `package` from the class's own namespace (clsdict.get("package", "_default")), not through inheritance
        val = None
        for st in node.body:
            if isinstance(st, pyast.Assign) and any(isinstance(t, pyast.Name) and t.id == "package" for t in st.targets) \
                    and isinstance(st.value, pyast.Constant):
                val = st.value.value
        ok = val == "odata"
        out.append(res(f"C15:odata_query.sqlalchemy.functions_ext.{node.name}:cfg.package", "cfg.package", ok, t0,
                       "registers under the package 'odata'" if ok else f"package = {val!r}: registers in the host's default function registry",
                       {"witness": {"class": node.name}}, backend="finite-check"))
    if n == 0:
        out.append({"name": "C15:functions_ext:cover", "clause": "cover", "status": "undecided", "seconds": 0.0, "selfcheck_failed": True,
                    "reason": "no GenericFunction subclass found"})
    return out


def cfg_funcnames(facts, t0, prop):
    """finite check on the real source file: the SQL name each GenericFunction subclass of functions_ext emits is its class name
    (SQLAlchemy: `name` defaults to the class name, `identifier` to `name`) -- the translation tables name these functions by class."""
    out = []
    root = facts.raw.get("repo_root") or os.environ.get("REPO_ROOT", "/repo")
    path = os.path.join(root, "odata_query", "sqlalchemy", "functions_ext.py")
    try:
        tree = pyast.parse(open(path).read())
    except Exception as ex:
        return [{"name": f"{prop}:functions_ext:cfg.funcnames", "clause": "unsupported", "status": "undecided", "seconds": 0.0, "reason": str(ex)[:200]}]
    classes = {nd.name: nd for nd in tree.body if isinstance(nd, pyast.ClassDef)}

    def base_names(nd):
        return [b.id if isinstance(b, pyast.Name) else getattr(b, "attr", "") for b in nd.bases]

    def is_generic(nd, seen=()):
        bs = base_names(nd)
        return "GenericFunction" in bs or any(b in classes and b not in seen and is_generic(classes[b], seen + (nd.name,)) for b in bs)

    def lookup(nd, attr, seen=()):
        """value of a class attribute through the bases inside the module: ('const', v) | ('other',) | None"""
        for st in nd.body:
            tg = st.targets if isinstance(st, pyast.Assign) else ([st.target] if isinstance(st, pyast.AnnAssign) and st.value is not None else [])
            if any(isinstance(t, pyast.Name) and t.id == attr for t in tg):
                return ("const", st.value.value) if isinstance(st.value, pyast.Constant) else ("other",)
        for b in base_names(nd):
            if b in classes and b not in seen:
                r = lookup(classes[b], attr, seen + (nd.name,))
                if r is not None:
                    return r
        return None
    n = 0
    for node in tree.body:
        if not isinstance(node, pyast.ClassDef) or not is_generic(node):
            continue
        n += 1
        bad = []
        for attr in ("name", "identifier"):
            v = lookup(node, attr)
            if v is not None and v != ("const", node.name):
                bad.append(f"{attr} = {v[1]!r}" if v[0] == "const" else f"{attr} is computed")
        for st in node.body:
            if isinstance(st, (pyast.FunctionDef, pyast.AsyncFunctionDef)) and st.name in ("__init__", "_compiler_dispatch", "compile"):
                bad.append(f"defines {st.name}")
        out.append(res(f"{prop}:odata_query.sqlalchemy.functions_ext.{node.name}:cfg.funcnames", "cfg.funcnames", not bad, t0,
                       f"emits the SQL function `{node.name}`" if not bad else f"the class named {node.name} does not emit `{node.name}`: " + "; ".join(bad),
                       {"witness": {"class": node.name}, "what": node.name}, backend="finite-check"))
    if n == 0:
        out.append({"name": f"{prop}:functions_ext:cover", "clause": "cover", "status": "undecided", "seconds": 0.0, "selfcheck_failed": True,
                    "reason": "no GenericFunction subclass found"})
    return out


COMPOSE = r'''
import sqlite3
from odata_query.grammar import ODataLexer, ODataParser
bkey = __BKEY__
rows_ = [dict(title="a", content="x", rating=1.5, views=1, likes=2, public=True), dict(title="b", content="y", rating=0.5, views=5, likes=0, public=False),
         dict(title="ab", content="x", rating=None, views=None, likes=3, public=None), dict(title="c", content="z", rating=2.0, views=7, likes=7, public=True)]
FILTERS = ["views gt 0", "title eq 'a' or likes eq 7", "contains(title, 'b')", "public eq true", "views add likes ge 7"]
problems = []
def ids(it):
    return sorted(it)
if bkey == "django":
    from odata_query.django import apply_odata_query
    from django.db import connection
    from django.db.models import F, Value
    M = fixture("django")
    with connection.schema_editor() as ed:
        for m in _FIX["_keep_django"]:
            ed.create_model(m)
    M.objects.bulk_create([M(id=i + 1, **r) for i, r in enumerate(rows_)])
    bases = {"manager": lambda: M.objects, "all": lambda: M.objects.all(), "prefiltered": lambda: M.objects.filter(likes__gt=0),
             "ordered": lambda: M.objects.order_by("-views"), "annotated": lambda: M.objects.annotate(double=F("likes") * 2).filter(double__lt=10)}
    for bn, mk in bases.items():
        base_ids = set(mk().values_list("id", flat=True))
        for f in FILTERS:
            alone = set(apply_odata_query(M.objects.all(), f).values_list("id", flat=True))
            got_q = apply_odata_query(mk(), f)
            got = list(got_q.values_list("id", flat=True))
            if set(got) != base_ids & alone:
                problems.append([bn, f, "rows %s, expected %s" % (sorted(got), sorted(base_ids & alone))])
            if bn == "ordered" and got != [i for i in mk().values_list("id", flat=True) if i in alone]:
                problems.append([bn, f, "ordering of the base queryset lost"])
            if bn == "annotated" and "double" not in got_q.query.annotations:
                problems.append([bn, f, "annotation of the base queryset lost"])
else:
    import sqlalchemy as sa
    from sqlalchemy.orm import Session
    from odata_query.sqlalchemy import apply_odata_query, apply_odata_core
    M = fixture("sa_orm")
    Author = _FIX["_keep_sa"][1]
    tbl = _FIX["sa_core"]
    eng = sa.create_engine("sqlite://")
    _FIX["_keep_sa"][0].metadata.create_all(eng)
    with eng.begin() as con:
        con.execute(Author.__table__.insert(), [dict(id=1, name="ann"), dict(id=2, name="bob")])
        con.execute(tbl.insert(), [dict(id=i + 1, author_id=(i % 2) + 1, **r) for i, r in enumerate(rows_)])
    FILTERS2 = FILTERS + (["author/name eq 'ann'", "author/name eq 'bob' and views gt 0"] if bkey == "sa_orm" else [])
    with Session(eng) as ses:
        if bkey == "sa_orm":
            bases = {"select": lambda: sa.select(M), "prefiltered": lambda: sa.select(M).filter(M.likes > 0), "ordered": lambda: sa.select(M).order_by(M.views.desc()),
                     "prejoined": lambda: sa.select(M).join(M.author).filter(Author.name != "zed"), "legacy": lambda: ses.query(M).filter(M.likes > 0)}
            apply_ = apply_odata_query
            def run(q):
                if hasattr(q, "all") and not hasattr(q, "compile"):
                    return [o.id for o in q.all()]
                return [o.id for o in ses.execute(q).scalars().all()]
            def sql_of(q):
                return str(q.statement.compile(eng)) if hasattr(q, "statement") else str(q.compile(eng))
        else:
            bases = {"select": lambda: sa.select(tbl), "prefiltered": lambda: sa.select(tbl).filter(tbl.c.likes > 0), "ordered": lambda: sa.select(tbl).order_by(tbl.c.views.desc())}
            apply_ = apply_odata_core
            def run(q):
                return [r[0] for r in ses.execute(q).all()]
            def sql_of(q):
                return str(q.compile(eng))
        for bn, mk in bases.items():
            base_list = run(mk())
            for f in FILTERS2:
                try:
                    alone = set(run(apply_(bases["select"](), f)))
                    q = apply_(mk(), f)
                    got = run(q)
                except Exception as ex:
                    problems.append([bn, f, "error " + type(ex).__name__ + ": " + str(ex).splitlines()[0][:100]])
                    continue
                if set(got) != set(base_list) & alone:
                    problems.append([bn, f, "rows %s, expected %s" % (sorted(got), sorted(set(base_list) & alone))])
                if bn == "ordered" and got != [i for i in base_list if i in alone]:
                    problems.append([bn, f, "ordering of the base query lost"])
                if sql_of(q).upper().count("JOIN AUTHOR") > 1:
                    problems.append([bn, f, "relationship joined twice: " + sql_of(q)[-200:]])
print(json.dumps({"violates": bool(problems), "problems": problems[:6], "bases": len(bases)}))
'''

COMPOSE_REL = r'''
# two different relationships (Comment.post, Post.author) and base queries that already join none / the first / both
import sqlalchemy as sa
from sqlalchemy.orm import Session
from odata_query.sqlalchemy import apply_odata_query
RM = rel_models("sa_orm")
Author, Post, Comment = RM["Author"], RM["Post"], RM["Comment"]
problems = []
bases = {"plain": lambda: sa.select(Comment), "joined-first": lambda: sa.select(Comment).join(Comment.post),
         "joined-both": lambda: sa.select(Comment).join(Comment.post).join(Post.author),
         "joined-first-filtered": lambda: sa.select(Comment).join(Comment.post).filter(Post.views >= 0)}
FILTERS = ["score gt 0", "post/title eq 'a'", "post/author/name eq 'ann'", "post/title eq 'a' and post/author/name eq 'ann'",
           "post/author/name eq 'ann' and post/title ne 'b'", "post/views ge 1 or post/author/name eq 'bob'"]
for seed in range(3):
    load_db("sa_orm", make_db(seed))
    with Session(RM["engine"]) as ses:
        def run(q):
            return sorted(o.id for o in ses.execute(q).scalars().all())
        for bn, mk in bases.items():
            base_list = run(mk())
            for f in FILTERS:
                try:
                    alone = run(apply_odata_query(bases["plain"](), f))
                    q = apply_odata_query(mk(), f)
                    got = run(q)
                    sql = str(q.compile(RM["engine"])).upper()
                except Exception as ex:
                    problems.append([bn, f, "error " + type(ex).__name__ + ": " + str(ex).splitlines()[0][:100]])
                    continue
                want = sorted(set(base_list) & set(alone))
                if got != want and not any(p[:2] == [bn, f] for p in problems):
                    problems.append([bn, f, "database %d: rows %s, expected %s" % (seed, got, want)])
                frm = sql.split("WHERE")[0]
                for tname in ("POST", "AUTHOR"):
                    if frm.count("JOIN " + tname + " ") > 1 and not any(p[:2] == [bn, f] for p in problems):
                        problems.append([bn, f, "relationship joined twice: " + frm[-160:]])
                if ("," in frm.split("FROM", 1)[1]) and not any(p[:2] == [bn, f] for p in problems):
                    problems.append([bn, f, "a required relationship is not joined (cartesian product): " + frm[-160:]])
print(json.dumps({"violates": bool(problems), "problems": problems[:6], "bases": len(bases), "filters": len(FILTERS)}))
'''

REGISTRY = r'''
import json, subprocess, sys
code = """
import json, sqlalchemy as sa
names = ["concat", "lower", "upper", "substr", "round", "floor", "ceil", "strpos", "ltrim", "rtrim", "char_length", "now", "count", "max"]
def snap():
    out = {}
    for n in names:
        f = getattr(sa.func, n)("x") if n not in ("now", "count") else getattr(sa.func, n)()
        out[n] = type(f).__module__ + "." + type(f).__name__ + "|" + str(f)
    return out
before = snap()
%s
after = snap()
print(json.dumps({"before": before, "after": after}))
"""
res = {}
for order in ("import odata_query.sqlalchemy", "import odata_query.sqlalchemy.functions_ext, odata_query.sqlalchemy"):
    p = subprocess.run([sys.executable, "-c", code % order], capture_output=True, text=True)
    res[order] = json.loads(p.stdout.strip().splitlines()[-1]) if p.returncode == 0 else {"error": p.stderr[-300:]}
bad = [[o, n, r["before"][n], r["after"][n]] for o, r in res.items() if "error" not in r for n in r["before"] if r["before"][n] != r["after"][n]]
errs = [o for o, r in res.items() if "error" in r]
print(json.dumps({"violates": bool(bad), "problems": bad[:5], "errors": errs, "orders": len(res)}))
'''


def bounded(fam, tier):
    from contracts.orm_native import ORM_NATIVE
    t0 = time.time()
    if fam == "bounded.func-registry":
        script = REGISTRY
        bound = "14 sqlalchemy.func names before / after importing the backend, 2 import orders, fresh processes"
        name = "C15:func-registry:bounded"
    elif fam == "bounded.compose-rel[sa_orm]":
        from contracts.rel_native import REL_NATIVE
        script = REL_NATIVE + COMPOSE_REL
        bound = "sa_orm: 4 base queries (joining none / the first / both of two required relationships) x 6 filters x 3 generated databases"
        name = "C15:compose-rel[sa_orm]:bounded"
    else:
        bkey = fam[len("bounded.compose["):-1]
        script = ORM_NATIVE + COMPOSE.replace("__BKEY__", repr(bkey))
        bound = f"{bkey}: 3-5 base queries (plain, pre-filtered, ordered, pre-joined / annotated, legacy Query) x 5-7 filters on 4 rows"
        name = f"C15:compose[{bkey}]:bounded"
    nat = native_run(script, timeout=600)
    ok = nat.get("violates") is False and not nat.get("errors")
    return [{"name": name, "clause": "bounded", "bounded": True,
             "status": "discharged" if ok else ("refuted" if nat.get("violates") else "undecided"), "seconds": time.time() - t0,
             "backend": "native execution on in-memory SQLite (bounded, not a proof)", "bound": bound,
             "reason": json.dumps(nat)[:400], "native_script": script, "solver_output": json.dumps(nat)[:600]}]


def run_family(facts, fam, tier):
    t0 = time.time()
    if fam == "canary":
        # must be refuted: filtering a fresh query instead of the incoming one is not composition
        v = ExtVal("<call>", [ExtVal("getattr", [ExtVal("<fresh query>"), "filter"]), ExtVal("where", [])])
        f = call_of(v, "filter")
        good = f is not None and not is_ext(f[0], "<query>")
        return [{"name": "C15:canary:filter-on-a-fresh-query", "clause": "canary", "seconds": 0.0, "canary": True,
                 "status": "discharged" if good else "undecided", "selfcheck_failed": not good,
                 "reason": "a receiver other than the incoming query is rejected" if good else "canary NOT refuted"}]
    if fam.startswith("shorthand["):
        return run_shorthand(facts, fam, tier, t0)
    if fam == "cfg.package":
        return cfg_package(facts, t0)
    if fam.startswith("bounded."):
        return bounded(fam, tier)
    raise ValueError(fam)


def replay_spec(facts, r):
    if r.get("bounded") and r.get("native_script"):
        return {"native_script": r["native_script"], "input_text": r.get("bound"), "required": "rows of the base query that satisfy the filter"}
    w = r.get("witness") or {}
    if w.get("backend"):
        from contracts.orm_native import ORM_NATIVE
        return {"native_script": ORM_NATIVE + COMPOSE.replace("__BKEY__", repr(w["backend"])), "input_text": "base queries x filters on the fixture",
                "required": "rows of the base query that satisfy the filter; joins not duplicated"}
    if w.get("class"):
        return {"native_script": REGISTRY, "input_text": "sqlalchemy.func before / after import", "required": "host func names unchanged"}
    return None


def evidence(facts, results):
    return {"trusted_base": ["pyvc symbolic executor and Python semantics of DESIGN section 4", "z3 5.1.0",
                             "uninterpreted-constructor model of Django / SQLAlchemy calls (DESIGN 4.8)"],
            "assumptions": ["queryset.filter / annotate and statement.filter / join return a query that keeps everything the receiver had and adds the "
                            "argument (the ORMs' documented behaviour; exercised by the bounded families, not proved)",
                            "the existing-join test is modelled as an uninterpreted predicate over str(join) / str(join.key): what "
                            "_get_joined_attrs reads from SQLAlchemy's private _setup_joins is outside reach",
                            "the ORM join loop is unrolled for 0, 1 and 2 required joins",
                            "lexer, parser and visitor are under their own contracts (C05, C06, C12): here their composition is one opaque term",
                            "SQLAlchemy keeps one function registry per package name"],
            "explanation": "the shorthand returns the incoming query object extended by exactly the required annotate / join / filter calls; function "
                           "classes register under their own package; bounded execution on SQLite for what the ORMs do with those calls."}


if __name__ == "__main__":
    import sys
    from vc.runner import main
    sys.exit(main(sys.modules[__name__]))
