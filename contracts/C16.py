"""C16 -- Visitor and transformer base classes traverse completely and never mutate.

(a) traversal   ghost trace: every entry of `visit` appends its node.  Contract of the handler-less
                NodeVisitor: trace' = trace ++ preorder(node)  (fields in declaration order, list
                items in order, non-node values skipped); result None; no exception.
(b) dispatch    for a subclass that defines visit_<K> (modelled by an uninterpreted handler H):
                visit(n) for kind K returns H(n) and calls nothing else; every other kind falls
                back to generic_visit.
(c) transformer TR(n) = H(n) at overridden kinds, else the same kind rebuilt from TR(children);
                NodeTransformer.visit(n) = TR(n); corollary: no overrides => visit(n) = n.
(d) no mutation ownership obligations on every list mutation, frozen dataclasses (cfg), no write to
                `self` by the base classes.
(e) equality    dataclass configuration: frozen, eq generated, no user __eq__/__hash__, all fields compared.
"""
import z3

from vc import stdmodels
from vc.deffun import DefFun
from vc.propkit import explore, judge, outcomes_to_results, src_of, visit_family
from vc.pyval import to_py_source
from vc.speclib import Specs, SeqLoopInvariant, below_input, check_shape_table
from vc.symexec import Engine, FuncRef, Obj, Sym

PROPERTY = "C16"
NEEDS_MODULES = ["odata_query.ast", "odata_query.visitor"]
NV = "odata_query.visitor.NodeVisitor"
NT = "odata_query.visitor.NodeTransformer"
VISIT = "odata_query.visitor.NodeVisitor.visit"
TIMEOUT = {"quick": 15000, "thorough": 60000}
KNOWN = []
_CTX = {}


def build(facts):
    if "c" in _CTX:
        return _CTX["c"]
    E = Engine(facts)
    stdmodels.install(E)
    S = Specs(E.U)
    U, PV = E.U, E.U.PV
    shape = S.shape()

    # preorder(n) and its lift to sequences
    def pre_seq_body(q):
        n = z3.Length(q)
        return z3.If(n == 0, z3.Empty(U.Seq),
                     z3.Concat(z3.If(U.is_node(q[0]), preorder(q[0]), z3.Empty(U.Seq)),
                               preorder_seq(z3.SubSeq(q, 1, n - 1))))
    preorder_seq = DefFun("preorder_seq", [U.Seq], U.Seq, pre_seq_body, cheap=True)

    def pre_body(e):
        body = z3.Unit(e)
        for k in reversed(facts.kinds):
            parts = [z3.Unit(e)]
            for fn in facts.kind_fields[k]:
                t = U.field(k, fn, e)
                parts.append(z3.If(U.is_tag("ListV", t), preorder_seq(PV.items(t)),
                                   z3.If(U.is_node(t), preorder(t), z3.Empty(U.Seq))))
            body = z3.If(U.is_kind(k, e), z3.Concat(*parts) if len(parts) > 1 else parts[0], body)
        return body
    preorder = DefFun("preorder", [PV], U.Seq, pre_body)

    # transformer with uninterpreted overrides
    H = z3.Function("H_override", PV, PV)
    ov = {k: z3.Bool(f"overridden_{k}") for k in facts.kinds}

    def special(f, fmap, extras, e):
        return [(z3.And(U.is_kind(k, e), ov[k]), H(e)) for k in facts.kinds]
    TR, TR_map = S.node_map("TR", [], special)

    c = dict(E=E, S=S, U=U, PV=PV, shape=shape, preorder=preorder, preorder_seq=preorder_seq, H=H, ov=ov,
             TR=TR, TR_map=TR_map)
    _CTX["c"] = c
    return c


# ------------------------------------------------------------------------------------------
def install_visitor(c):
    """Contract + invariant for the handler-less NodeVisitor (ghost trace)."""
    E, U = c["E"], c["U"]

    def visit_contract(E, path, fref, args, kwargs):
        self_val, arg = args[0], args[1]
        if not (isinstance(self_val, Obj) and self_val.cls in (NV, "probe")):
            return NotImplemented
        t = E.to_pv(arg)
        path.oblige("pre.shape", z3.And(U.is_node(t), c["shape"](t)))
        path.oblige("decreases", z3.BoolVal(below_input(path, t, U)), {"arg": str(t)[:120]})
        path.ghost["trace"] = z3.Concat(path.ghost["trace"], c["preorder"](t))
        return None

    E.contracts[VISIT] = visit_contract

    def inv(E, path, frame, rest, whole):
        entry = path.ghost["_entry"]["trace"]
        return z3.And(z3.Concat(path.ghost["trace"], c["preorder_seq"](rest))
                      == z3.Concat(entry, c["preorder_seq"](whole)),
                      c["S"].all_shape(rest))

    E.loop_invariants[("odata_query.visitor.NodeVisitor.generic_visit", 1)] = SeqLoopInvariant(inv, ghost=["trace"])


def install_transformer(c):
    E, U = c["E"], c["U"]

    def visit_contract(E, path, fref, args, kwargs):
        self_val, arg = args[0], args[1]
        if not (isinstance(self_val, Obj) and self_val.cls in (NT, "probe")):
            return NotImplemented
        t = E.to_pv(arg)
        path.oblige("pre.shape", z3.And(U.is_node(t), c["shape"](t)))
        path.oblige("decreases", z3.BoolVal(below_input(path, t, U)), {"arg": str(t)[:120]})
        return E.from_pv(c["TR"](t))

    E.contracts[VISIT] = visit_contract

    def inv(E, path, frame, rest, whole):
        nv = frame.lookup(path, "new_val")
        return z3.And(z3.Concat(E.seq_term(nv), c["TR_map"](rest)) == c["TR_map"](whole), c["S"].all_shape(rest))

    E.loop_invariants[("odata_query.visitor.NodeTransformer.generic_visit", 1)] = SeqLoopInvariant(inv)


def probe_class(facts, base, kind):
    """A synthetic subclass of `base` that defines visit_<kind> (an uninterpreted handler)."""
    cf = dict(facts.classes[base])
    members = dict(cf["members"])
    members["visit_" + kind] = {"qualname": "probe.visit_" + kind, "name": "visit_" + kind, "module": "odata_query.visitor",
                                "source": "def visit_%s(self, node):\n    return __H__(node)\n" % kind,
                                "sha256": "probe-" + kind, "member_kind": "method", "definer": "probe",
                                "definer_repo": True, "file": None, "line": None, "wrapper": None}
    cf = dict(cf, qualname="probe", name="probe", mro=["probe"] + cf["mro"], members=members)
    facts.classes["probe"] = cf
    return cf


# ------------------------------------------------------------------------------------------
def families(facts):
    fams = ["cfg.shape", "cfg.dataclass"]
    fams += [f"visitor[{k}]" for k in facts.kinds]
    fams += [f"dispatch[{k}]" for k in facts.kinds]
    fams += [f"transformer[{k}]" for k in facts.kinds] + [f"transformer.override[{k}]" for k in facts.kinds]
    fams += ["lemma.noop.seq"] + [f"lemma.noop[{k}]" for k in facts.kinds] + ["bounded.traversal", "canary"]
    return fams


def run_family(facts, fam, tier):
    timeout = TIMEOUT[tier]
    if fam == "cfg.shape":
        probs = check_shape_table(facts)
        return [{"name": "C16:odata_query.ast:cfg.shape", "clause": "cfg.shape",
                 "status": "discharged" if not probs else "undecided", "seconds": 0.0,
                 "reason": "; ".join(probs) or "ast classes match the shape table", "backend": "finite-check"}]
    if fam == "bounded.traversal":
        return bounded_traversal(facts, tier)
    if fam == "cfg.dataclass":
        out = []
        for k in facts.kinds + [n for n in facts.ast_classes if n.startswith("_")]:
            cf = facts.ast_classes[k]
            dc = cf.get("dataclass")
            bad = []
            if not dc:
                bad.append("not a dataclass")
            else:
                if not dc["frozen"]:
                    bad.append("not frozen (instances can be mutated)")
                if not dc["eq"]:
                    bad.append("eq=False (equality is identity)")
                if dc["user_eq"]:
                    bad.append("user-defined __eq__")
                if dc["user_hash"]:
                    bad.append("user-defined __hash__")
                for f in dc["fields"]:
                    if not f["compare"]:
                        bad.append(f"field {f['name']} excluded from comparison")
                for m in ("__setattr__", "__eq__", "__ne__"):
                    if m in cf["members"]:
                        bad.append(f"user-defined {m}")
            r = {"name": f"C16:odata_query.ast.{k}:cfg.dataclass", "clause": "cfg.dataclass", "seconds": 0.0,
                 "backend": "finite-check", "reason": "; ".join(bad) or "frozen, structural eq, all fields compared",
                 "status": "discharged" if not bad else "refuted", "kind": k, "problems": bad}
            out.append(r)
            # the contracts take `Kind(f1, ..., fn)` to be the record of its arguments (DESIGN 4): a user-written constructor hook
            # may store something else.  Not a violation by itself (a validating hook is fine): undecided, the bounded family decides.
            hooks = [m for m in ("__post_init__", "__init__", "__new__", "__getattribute__", "__getattr__", "__delattr__") if m in cf["members"]]
            hooks += [f"field {f['name']} has init=False" for f in (dc["fields"] if dc else []) if not f.get("init", True)]
            out.append({"name": f"C16:odata_query.ast.{k}:cfg.record", "clause": "cfg.record", "seconds": 0.0, "backend": "finite-check",
                        "status": "discharged" if not hooks else "undecided", "kind": k,
                        "reason": "generated constructor: a node is the record of its arguments" if not hooks else
                        "user-written construction hooks " + ", ".join(hooks) + ": the node may not be the record of its arguments (bounded.traversal runs the real classes)"})
        return out

    c = build(facts)
    E, U, PV = c["E"], c["U"], c["PV"]

    if fam.startswith("visitor["):
        kind = fam[len("visitor["):-1]
        install_visitor(c)
        t0 = z3.Const("trace0", U.Seq)

        def pre(path, node):
            path.assume(c["shape"](node))
            path.ghost["trace"] = z3.Concat(t0, z3.Unit(node))    # entry of this visit call

        def post(path, node, v):
            return [("post.trace", path.ghost["trace"] == z3.Concat(t0, c["preorder"](node))),
                    ("post.value", z3.BoolVal(v is None)),
                    ("frame", z3.BoolVal(not path.ghost.get("writes")))]

        return visit_family(E, facts, "C16", NV, kind, lambda path: Obj(NV), pre, post, lambda exc: False,
                            lambda node: {"e": node, "expected_trace": c["preorder"](node)}, timeout)

    if fam.startswith("dispatch["):
        kind = fam[len("dispatch["):-1]
        install_visitor(c)
        probe_class(facts, NV, kind)
        Hd = z3.Function("H_dispatch", PV, PV)

        def probe_contract(E, path, fref, args, kwargs):
            path.ghost["handler_calls"] = path.ghost.get("handler_calls", []) + [E.to_pv(args[1])]
            return Sym(Hd(E.to_pv(args[1])))
        E.contracts["probe.visit_" + kind] = probe_contract
        t0 = z3.Const("trace0", U.Seq)
        out = []
        # the handler's own kind, every kind whose class name is textually related to it (prefix, suffix,
        # substring, case-insensitively: Not/NotEq, Lt/LtE, Date/DateTime ...) and two unrelated ones
        rel = [k for k in facts.kinds if k == kind or k.lower() in kind.lower() or kind.lower() in k.lower()]
        others = [k for k in facts.kinds if k not in rel]
        for k2 in rel + others[:1] + others[-1:]:
            def pre(path, node):
                path.assume(c["shape"](node))
                path.ghost["trace"] = z3.Concat(t0, z3.Unit(node))

            def post(path, node, v, k2=k2):
                calls = path.ghost.get("handler_calls", [])
                if k2 == kind:
                    ok = len(calls) == 1
                    return [("post.dispatch", z3.And(z3.BoolVal(ok), (calls[0] == node) if ok else z3.BoolVal(False),
                                                     E.to_pv(v) == Hd(node),
                                                     path.ghost["trace"] == z3.Concat(t0, z3.Unit(node))))]
                return [("post.dispatch", z3.And(z3.BoolVal(len(calls) == 0),
                                                 path.ghost["trace"] == z3.Concat(t0, c["preorder"](node))))]
            rs = visit_family(E, facts, "C16", "probe", k2, lambda path: Obj("probe"), pre, post, lambda exc: False,
                              lambda node: {"e": node}, timeout, prefix=f"g{k2}")
            for r in rs:
                r["name"] = r["name"].replace("C16:", f"C16:dispatch[handler=visit_{kind}]:", 1)
                if r.get("source", {}).get("qualname", "").startswith("probe."):
                    r["source"] = src_of(facts.classes[NV]["members"]["visit"])
            # keep the record small: only the dispatch clause matters here
            out.extend([r for r in rs if r["clause"] in ("post.dispatch", "safety.raise", "unsupported")])
        return out

    if fam.startswith("transformer["):
        kind = fam[len("transformer["):-1]
        install_transformer(c)

        def pre(path, node):
            path.assume(c["shape"](node))
            path.assume(z3.Not(c["ov"][kind]))

        def post(path, node, v):
            return [("post.value", E.to_pv(v) == c["TR"](node)), ("frame", z3.BoolVal(not path.ghost.get("writes")))]

        return visit_family(E, facts, "C16", NT, kind, lambda path: Obj(NT), pre, post, lambda exc: False,
                            lambda node: {"e": node}, timeout)

    if fam.startswith("transformer.override["):
        kind = fam[len("transformer.override["):-1]
        install_transformer(c)
        probe_class(facts, NT, kind)

        def probe_contract(E, path, fref, args, kwargs):
            return Sym(c["H"](E.to_pv(args[1])))
        E.contracts["probe.visit_" + kind] = probe_contract

        def pre(path, node):
            path.assume(c["shape"](node))
            path.assume(c["ov"][kind])

        def post(path, node, v):
            return [("post.value", E.to_pv(v) == c["TR"](node))]

        rs = visit_family(E, facts, "C16", "probe", kind, lambda path: Obj("probe"), pre, post, lambda exc: False,
                          lambda node: {"e": node}, timeout)
        for r in rs:
            r["name"] = r["name"].replace("probe.visit_", "odata_query.visitor.NodeVisitor.visit[override=visit_")
            r["source"] = src_of(facts.classes[NV]["members"]["visit"])
        return rs

    if fam == "lemma.noop.seq":
        q = z3.Const("q", U.Seq)
        n = z3.Length(q)
        tail = z3.SubSeq(q, 1, n - 1)
        noov = [z3.Not(v) for v in c["ov"].values()]
        hyps = noov + [n > 0, c["TR_map"](tail) == tail, z3.Implies(U.is_node(q[0]), c["TR"](q[0]) == q[0])]
        return [judge(E, "C16:lemma.noop.seq:base", "lemma.noop.seq", noov + [n == 0], c["TR_map"](q) == q, None, timeout),
                judge(E, "C16:lemma.noop.seq:step", "lemma.noop.seq", hyps, c["TR_map"](q) == q, None, timeout)]

    if fam.startswith("lemma.noop["):
        kind = fam[len("lemma.noop["):-1]
        consts = [z3.Const(f"f_{fn}", PV) for fn in facts.kind_fields[kind]]
        node = U.node(kind, *consts)
        hyps = [z3.Not(v) for v in c["ov"].values()] + [c["shape"](node)]
        for fc in consts:
            hyps.append(z3.Implies(U.is_node(fc), c["TR"](fc) == fc))
            hyps.append(z3.Implies(U.is_tag("ListV", fc), c["TR_map"](PV.items(fc)) == PV.items(fc)))
        return [judge(E, f"C16:lemma.noop[{kind}]", "lemma.noop", hyps, c["TR"](node) == node, None, timeout, {"e": node})]

    if fam == "canary":
        # must be refuted: a traversal that skips list items is not preorder
        v = z3.Const("v", PV)
        node = U.node("List", v)
        hyps = [c["shape"](node), z3.Length(PV.items(v)) > 0]
        r = judge(E, "C16:canary:list-items-skipped", "canary", hyps, c["preorder"](node) == z3.Unit(node), None, timeout)
        ok = r["status"] == "refuted"
        return [{"name": r["name"], "clause": "canary", "status": "discharged" if ok else "undecided",
                 "seconds": r["seconds"], "canary": True, "selfcheck_failed": not ok,
                 "reason": "wrong postcondition refuted as required" if ok else "canary NOT refuted: vacuous spec"}]
    raise ValueError(fam)


# ------------------------------------------------------------------------------------------
TRAVERSAL = r'''
import json, copy, dataclasses
from odata_query import ast
from odata_query.visitor import NodeVisitor, NodeTransformer
from odata_query.grammar import ODataLexer, ODataParser

BATTERY = ["a eq 1", "status in (draft, fallback_status, 'open') and id in ((1, 2), (a, 4))", "not (a add b mul -c lt 2.5)",
           "contains(concat(a, b/c), 'x') or startswith(n.s.f(p=a, q=(a, b)), 'y')", "items/any(x: x/price gt a and x/q in (a, b))",
           "items/all(i: i/tags/any(t: t eq a/b or i/a eq null))", "posts/any()", "(a,) eq b", "d gt 2020-01-02T10:20:30Z and t lt 10:20:30",
           "g eq 12345678-1234-1234-1234-123456789abc and dur eq duration'P1DT2H' and geo.distance(p, geography'SRID=0;Point(1 2)') lt 5",
           "now() eq null or n.g() eq true", "b in ((1,), (2, 3))"]


def children(n):
    # independent of iter_dataclass_fields / generic_visit: declared field order, nodes inside any sequence
    for f in dataclasses.fields(n):
        v = getattr(n, f.name)
        if isinstance(v, ast._Node):
            yield v
        elif isinstance(v, (list, tuple)):
            for x in v:
                if isinstance(x, ast._Node):
                    yield x


def preorder(n):
    out = [n]
    for c in children(n):
        out.extend(preorder(c))
    return out


def mapped(n, fn):
    # rebuild bottom-up, applying fn to every node after its children were mapped
    if isinstance(n, (list, tuple)):
        return type(n)(mapped(x, fn) for x in n)
    if not isinstance(n, ast._Node):
        return n
    return fn(type(n)(**{f.name: mapped(getattr(n, f.name), fn) for f in dataclasses.fields(n)}))


class Rec(NodeVisitor):
    def __init__(self):
        self.trace = []

    def visit(self, node):
        self.trace.append(node)
        return super().visit(node)


problems = []
ran = 0
for text in BATTERY:
    try:
        tree = ODataParser().parse(ODataLexer().tokenize(text))
    except Exception as ex:
        problems.append([text, "battery filter does not parse: " + type(ex).__name__])
        continue
    ran += 1
    before = copy.deepcopy(tree)
    want = preorder(tree)
    r = Rec()
    r.visit(tree)
    if len(r.trace) != len(want) or any(a is not b for a, b in zip(r.trace, want)):
        problems.append([text, "default visitor trace %s != depth-first field order %s" % ([type(x).__name__ for x in r.trace][:30], [type(x).__name__ for x in want][:30])])
    kinds = sorted({type(x).__name__ for x in want})
    for k in kinds:
        seen = []

        def handler(self, node, seen=seen):
            seen.append(node)
            self.generic_visit(node)
        V = type("V_" + k, (NodeVisitor,), {"visit_" + k: handler})
        V().visit(tree)
        exp = [x for x in want if type(x).__name__ == k]
        if len(seen) != len(exp) or any(a is not b for a, b in zip(seen, exp)):
            problems.append([text, "visit_%s called %d times, %d nodes of that kind" % (k, len(seen), len(exp))])
    got = NodeTransformer().visit(tree)
    if got != tree:
        problems.append([text, "transformer without overrides returned a different tree"])

    def up(node):
        return ast.Identifier(node.name.upper(), node.namespace) if isinstance(node, ast.Identifier) else node
    T = type("Upper", (NodeTransformer,), {"visit_Identifier": lambda self, node: up(node)})
    got = T().visit(tree)
    if got != mapped(tree, up):
        problems.append([text, "transformer overriding visit_Identifier did not change exactly the identifiers"])
    if tree != before:
        problems.append([text, "input tree modified by a traversal"])
    if tree != copy.deepcopy(tree) or (len(want) > 1 and tree == mapped(tree, up) and any(isinstance(x, ast.Identifier) and x.name != x.name.upper() for x in want)):
        problems.append([text, "equality is not structural"])
print(json.dumps({"violates": bool(problems), "problems": problems[:5], "count": len(problems), "ran": ran}))
'''


def bounded_traversal(facts, tier):
    """Bounded stand-in (labelled, never counted): the real base classes on parser-built trees against an independent
    depth-first walk over the declared dataclass fields (covers what the handler contracts assume of node construction)."""
    import time
    from vc.runner import native_run
    t0 = time.time()
    nat = native_run(TRAVERSAL, timeout=600)
    name = "C16:traversal:bounded"
    if "problems" not in nat:
        return [{"name": name, "clause": "bounded", "bounded": True, "status": "undecided", "seconds": time.time() - t0,
                 "reason": str(nat)[:300], "bound": "native run failed"}]
    ok = not nat["violates"]
    return [{"name": name, "clause": "bounded", "bounded": True, "status": "discharged" if ok else "refuted", "seconds": time.time() - t0,
             "backend": "real NodeVisitor / NodeTransformer on parser-built trees vs an independent walk (bounded, not a proof)",
             "bound": f"{nat['ran']} filters covering every node kind, lists in lists, empty lists, optional lambda bodies, named parameters; "
                      "default trace, one single-kind handler per kind present, identity transformer, identifier-mapping transformer, no mutation, equality",
             "reason": "every run agrees with the independent walk" if ok else str(nat["problems"][:2])[:400],
             "solver_output": str(nat["problems"][:3])[:800], "native_script": TRAVERSAL}]


def replay_spec(facts, r):
    if r.get("bounded") and r.get("native_script"):
        return {"native_script": r["native_script"], "input_text": r.get("bound"), "required": "traversal = depth-first field order; identity / exact rewrite; no mutation"}
    if r.get("clause") == "cfg.dataclass":
        k = r.get("kind")
        script = f"""
import json, dataclasses, copy
from odata_query import ast
cls = ast.{k}
p = cls.__dataclass_params__
problems = {r.get('problems')!r}
# structural equality / immutability observed natively
viol = (not p.frozen) or (not p.eq) or any(not f.compare for f in dataclasses.fields(cls))
print(json.dumps({{'violates': bool(viol) or bool(problems), 'frozen': p.frozen, 'eq': p.eq, 'problems': problems}}))
"""
        return {"native_script": script, "input_text": f"ast.{k}", "required": "frozen dataclass with generated structural __eq__"}
    w = r.get("witness") or {}
    if "e" not in w:
        return None
    es = to_py_source(w["e"])
    from contracts.native_ref import NATIVE_REF
    script = NATIVE_REF + f"""
import json, copy, dataclasses
from odata_query import ast
from odata_query.visitor import NodeVisitor, NodeTransformer
from odata_query.grammar import ODataLexer, ODataParser
try:
    witness = [sanitize({es})]
except Exception:
    witness = []
BATTERY = ["concat(title, 'x') eq name", "a in (b, c, 1)", "items/any(x: x/price gt 1 and contains(x/name, n))",
           "not (a/b/c eq -d)", "f.g(p=a, q=(b, c))", "substring(concat(a, b), 1, length(c)) ne null"]
trees = witness + [ODataParser().parse(ODataLexer().tokenize(t)) for t in BATTERY]
all_problems = []
for e in trees:
  if True:

    def preorder(n):
        out = [n]
        for f in dataclasses.fields(n):
            v = getattr(n, f.name)
            if isinstance(v, list):
                for x in v:
                    if isinstance(x, ast._Node):
                        out += preorder(x)
            elif isinstance(v, ast._Node):
                out += preorder(v)
        return out

    class Tracer(NodeVisitor):
        def __init__(self):
            self.trace = []
        def visit(self, node):
            self.trace.append(node)
            return super().visit(node)

    before = copy.deepcopy(e)
    problems = []
    t = Tracer()
    try:
        res = t.visit(e)
        if res is not None:
            problems.append('default visitor returned ' + repr(res))
        if [id(x) for x in t.trace] != [id(x) for x in preorder(e)]:
            problems.append('trace != preorder: %d vs %d nodes' % (len(t.trace), len(preorder(e))))
    except Exception as ex:
        problems.append('visitor raised ' + type(ex).__name__ + ': ' + str(ex))
    try:
        out = NodeTransformer().visit(e)
        if out != e:
            problems.append('transformer without overrides changed the tree: ' + repr(out))
    except Exception as ex:
        problems.append('transformer raised ' + type(ex).__name__ + ': ' + str(ex))
    # single-kind overrides: exactly the nodes of that kind change
    for kind in sorted({{type(x).__name__ for x in preorder(e)}}):
        marker = ast.String('<<' + kind + '>>')
        T = type('T', (NodeTransformer,), {{'visit_' + kind: (lambda self, node: marker)}})
        def expect(n):
            if type(n).__name__ == kind:
                return marker
            kw = {{}}
            for f in dataclasses.fields(n):
                v = getattr(n, f.name)
                if isinstance(v, list):
                    kw[f.name] = [expect(x) if isinstance(x, ast._Node) else x for x in v]
                elif isinstance(v, ast._Node):
                    kw[f.name] = expect(v)
                else:
                    kw[f.name] = v
            return type(n)(**kw)
        try:
            got = T().visit(e)
            if got != expect(e):
                problems.append('override of ' + kind + ' gave ' + repr(got))
        except Exception as ex:
            problems.append('override of ' + kind + ' raised ' + type(ex).__name__ + ': ' + str(ex))
        seen = []
        V = type('V', (NodeVisitor,), {{'visit_' + kind: (lambda self, node: seen.append(node))}})
        try:
            V().visit(e)
        except Exception as ex:
            problems.append('visitor with handler ' + kind + ' raised ' + type(ex).__name__)
    if e != before:
        problems.append('input tree was mutated')

    all_problems += [(repr(e)[:80], p) for p in problems]
print(json.dumps({{'violates': bool(all_problems), 'problems': all_problems[:5]}}))
"""
    return {"native_script": script, "input_text": f"e={es}",
            "required": "trace == preorder(e); NodeTransformer().visit(e) == e; overrides change exactly their kind; input unchanged"}


def evidence(facts, results):
    return {
        "trusted_base": ["z3 5.1.0", "pyvc symbolic executor and Python semantics of DESIGN section 4",
                         "dataclasses generates __eq__/__init__/frozen __setattr__ as configured (configuration itself is checked: cfg.dataclass)"],
        "assumptions": [
            "ghost trace: one entry per call of visit, appended at entry (instrumentation is in the contract, not in the code)",
            "override handlers are arbitrary deterministic functions H(node) that do not themselves call back into the tree",
            "induction principle over strict sub-terms (decreases clause checked syntactically)",
            "a node Kind(f1..fn) is the record of its arguments: guaranteed by the generated constructor (cfg.record checks there is no "
            "user-written __post_init__/__init__/__new__/__getattr(ibute)__ and no init=False field; otherwise undecided)",
            "'no backend translation modifies its input' is carried by the frame/ownership clauses of the other properties' "
            "families (every list mutation site yields an own.fresh obligation; attribute writes on nodes raise FrozenInstanceError)",
        ],
        "explanation": "preorder trace, dispatch by class name, transformer = TR, no-override identity lemma, dataclass configuration.",
    }


if __name__ == "__main__":
    import sys
    from vc.runner import main
    sys.exit(main(sys.modules[__name__]))
