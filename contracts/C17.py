"""C17 -- Making a lambda body relative strips exactly the lambda variable's prefix.

Spec (from the property statement, via root / first step, not via the code's recursion):
    rooted_at(x, p)  : p is a path whose root identifier equals x (name AND namespace)
    drop_first(p)    : p without its first step   (x/a -> a, x/a/b -> a/b)
    reroot(x, e)     : path e  ->  drop_first(e) if rooted_at(x, e) else e
                       other   ->  same kind rebuilt from reroot(children)
Contract of IdentifierStripper(x).visit(e), for shape(e), x an Identifier:
    returns reroot(x, e); raises nothing; mutates nothing.
Lemma: no path in e is rooted at x  =>  reroot(x, e) = e.
"""
import z3

from vc import stdmodels
from vc.propkit import explore, judge, outcomes_to_results, src_of
from vc.pyval import to_py_source
from vc.speclib import Specs, SeqLoopInvariant, below_input, check_shape_table, fresh_node
from vc.symexec import Engine, FuncRef, Obj, Sym, ListObj

PROPERTY = "C17"
NEEDS_MODULES = ["odata_query.ast", "odata_query.visitor", "odata_query.rewrite", "odata_query.utils"]
STRIPPER = "odata_query.rewrite.IdentifierStripper"
VISIT = "odata_query.visitor.NodeVisitor.visit"
TIMEOUT = {"quick": 10000, "thorough": 60000}


# ------------------------------------------------------------------------------------------
_CTX = {}


def build(facts):
    if "c" in _CTX:
        return _CTX["c"]
    E = Engine(facts)
    stdmodels.install(E)
    S = Specs(E.U)
    U, PV = E.U, E.U.PV
    shape = S.shape()
    x = z3.Const("x", PV)

    from vc.deffun import DefFun
    B_ = z3.BoolSort()
    fld = U.field

    def rooted_body(xx, pp):
        return z3.And(U.is_kind("Attribute", pp),
                      z3.Or(fld("Attribute", "owner", pp) == xx, rooted_at(xx, fld("Attribute", "owner", pp))))
    rooted_at = DefFun("rooted_at", [PV, PV], B_, rooted_body, cheap=True)

    def drop_body(pp):
        owner = fld("Attribute", "owner", pp)
        attr = fld("Attribute", "attr", pp)
        return z3.If(U.is_kind("Attribute", owner), U.node("Attribute", drop_first(owner), attr),
                     U.node("Identifier", attr, U.tuplev(z3.Empty(U.Seq))))
    drop_first = DefFun("drop_first", [PV], PV, drop_body, cheap=True)

    def special(f, fmap, extras, e):
        (xx,) = extras
        return [(U.is_kind("Attribute", e), z3.If(rooted_at(xx, e), drop_first(e), e))]

    reroot, reroot_map = S.node_map("reroot", [PV], special)

    # mentions(x, e): some path inside e is rooted at x
    def mentions_any_body(xx, q):
        n = z3.Length(q)
        return z3.If(n == 0, z3.BoolVal(False), z3.Or(
            z3.And(U.is_node(q[0]), mentions(xx, q[0])), mentions_any(xx, z3.SubSeq(q, 1, n - 1))))
    mentions_any = DefFun("mentions_any", [PV, U.Seq], B_, mentions_any_body, cheap=True)

    def mentions_body(xx, e):
        body = z3.BoolVal(False)
        for k in reversed(facts.kinds):
            parts = []
            for fn in facts.kind_fields[k]:
                t = fld(k, fn, e)
                parts.append(z3.If(U.is_tag("ListV", t), mentions_any(xx, PV.items(t)),
                                   z3.And(U.is_node(t), mentions(xx, t))))
            here = rooted_at(xx, e) if k == "Attribute" else z3.BoolVal(False)
            body = z3.If(U.is_kind(k, e), z3.Or(here, *parts) if parts else here, body)
        return body
    mentions = DefFun("mentions", [PV, PV], B_, mentions_body)

    ctx = dict(E=E, S=S, U=U, PV=PV, shape=shape, x=x, reroot=reroot, reroot_map=reroot_map,
               rooted_at=rooted_at, drop_first=drop_first, mentions=mentions, mentions_any=mentions_any)
    _CTX["c"] = ctx
    return ctx


def pre_x(c):
    U = c["U"]
    return z3.And(U.is_kind("Identifier", c["x"]), c["shape"](c["x"]))


def install_visit_contract(c):
    E, U, x = c["E"], c["U"], c["x"]

    def visit_contract(E, path, fref, args, kwargs):
        self_val, arg = args[0], args[1]
        if not (isinstance(self_val, Obj) and self_val.cls == STRIPPER):
            return NotImplemented
        t = E.to_pv(arg)
        path.oblige("pre.shape", z3.And(U.is_node(t), c["shape"](t)))
        path.oblige("decreases", z3.BoolVal(below_input(path, t, U)), {"arg": str(t)[:120]})
        return E.from_pv(c["reroot"](x, t))

    E.contracts[VISIT] = visit_contract

    # loop invariant of NodeTransformer.generic_visit's inner loop (suffix form)
    def inv(E, path, frame, rest, whole):
        nv = frame.lookup(path, "new_val")
        return z3.And(z3.Concat(E.seq_term(nv), c["reroot_map"](x, rest)) == c["reroot_map"](x, whole),
                      c["S"].all_shape(rest))

    E.loop_invariants[("odata_query.visitor.NodeTransformer.generic_visit", 1)] = SeqLoopInvariant(inv)


# ------------------------------------------------------------------------------------------
def families(facts):
    fams = ["cfg"]
    fams += [f"visit[{k}]" for k in facts.kinds]
    fams += ["wrapper", "lemma.identity.seq"]
    fams += [f"lemma.identity[{k}]" for k in facts.kinds]
    fams += ["canary"]
    return fams


def run_family(facts, fam, tier):
    timeout = TIMEOUT[tier]
    if fam == "cfg":
        probs = check_shape_table(facts)
        return [{"name": "C17:odata_query.ast:cfg.shape", "clause": "cfg.shape",
                 "status": "discharged" if not probs else "undecided", "seconds": 0.0,
                 "reason": "; ".join(probs) or "ast classes match the shape table", "backend": "finite-check"}]
    c = build(facts)
    E, U, PV, x = c["E"], c["U"], c["PV"], c["x"]
    install_visit_contract(c)
    cf = facts.classes[STRIPPER]

    if fam.startswith("visit["):
        kind = fam[6:-1]
        m = cf["members"]["visit"]
        handler = cf["members"].get("visit_" + kind) or cf["members"]["generic_visit"]
        fr = FuncRef(m, defcls=m["definer"])
        holder = {}

        def runner(path):
            node, consts = fresh_node(E, path, kind)
            holder["node"] = node
            path.assume(pre_x(c))
            path.assume(c["shape"](node))
            self_obj = Obj(STRIPPER, {"strip": Sym(x)})
            return E.run_function(path, fr, [self_obj, Sym(node)], self_val=self_obj)

        res = explore(E, runner)
        node = holder.get("node")

        def post(path, v):
            return E.to_pv(v) == c["reroot"](x, node)

        base = f"C17:{handler['qualname']}[{kind}]"
        wt = {"x": x, "e": node, "expected": c["reroot"](x, node)} if node is not None else {}
        return outcomes_to_results(E, base, src_of(handler), res, post, lambda exc: False, wt, timeout)

    if fam == "wrapper":
        f = facts.functions["odata_query.utils.expression_relative_to_identifier"]
        fr = FuncRef(f)
        ev = z3.Const("e", PV)

        def runner(path):
            path.sub_roots[ev.get_id()] = True   # the wrapper's callee receives the whole expression
            path.assume(pre_x(c))
            path.assume(z3.And(U.is_node(ev), c["shape"](ev)))
            return E.run_function(path, fr, [Sym(x), Sym(ev)])

        res = explore(E, runner)
        post = lambda path, v: E.to_pv(v) == c["reroot"](x, ev)
        out = outcomes_to_results(E, f"C17:{f['qualname']}", src_of(f), res, post, lambda exc: False,
                                  {"x": x, "e": ev, "expected": c["reroot"](x, ev)}, timeout)
        # the wrapper passes the expression itself, so `decreases` is about the callee's own measure
        return [r for r in out if r["clause"] != "decreases"]

    if fam == "lemma.identity.seq":
        q = z3.Const("q", U.Seq)
        n = z3.Length(q)
        tail = z3.SubSeq(q, 1, n - 1)
        hyps = [n > 0, z3.Not(c["mentions_any"](x, q)),
                z3.Implies(z3.Not(c["mentions_any"](x, tail)), c["reroot_map"](x, tail) == tail),
                z3.Implies(z3.And(U.is_node(q[0]), z3.Not(c["mentions"](x, q[0]))), c["reroot"](x, q[0]) == q[0])]
        r1 = judge(E, "C17:lemma.identity.seq:step", "lemma.identity.seq", hyps, c["reroot_map"](x, q) == q,
                   None, timeout)
        r0 = judge(E, "C17:lemma.identity.seq:base", "lemma.identity.seq", [n == 0], c["reroot_map"](x, q) == q,
                   None, timeout)
        return [r0, r1]

    if fam.startswith("lemma.identity["):
        kind = fam[len("lemma.identity["):-1]
        consts = [z3.Const(f"f_{fn}", PV) for fn in facts.kind_fields[kind]]
        node = U.node(kind, *consts)
        hyps = [pre_x(c), c["shape"](node), z3.Not(c["mentions"](x, node))]
        for fc in consts:  # induction hypothesis on the direct children and list fields
            hyps.append(z3.Implies(z3.And(U.is_node(fc), z3.Not(c["mentions"](x, fc))), c["reroot"](x, fc) == fc))
            hyps.append(z3.Implies(z3.And(U.is_tag("ListV", fc), z3.Not(c["mentions_any"](x, PV.items(fc)))),
                                   c["reroot_map"](x, PV.items(fc)) == PV.items(fc)))
        if kind == "Attribute":
            # auxiliary lemma of DESIGN C17: a path not rooted at x is unchanged -- holds by definition here
            pass
        return [judge(E, f"C17:lemma.identity[{kind}]", "lemma.identity", hyps, c["reroot"](x, node) == node,
                      None, timeout, {"x": x, "e": node})]

    if fam == "canary":
        # must be refuted: comparing only the *name* of the variable is not the spec
        o, a = z3.Const("o", PV), z3.Const("a", PV)
        node = U.node("Attribute", o, a)
        hyps = [pre_x(c), c["shape"](node), U.is_kind("Identifier", o),
                U.field("Identifier", "name", o) == U.field("Identifier", "name", x)]
        goal = c["reroot"](x, node) == U.node("Identifier", a, U.tuplev(z3.Empty(U.Seq)))
        r = judge(E, "C17:canary:name-only-comparison", "canary", hyps, goal, None, timeout)
        ok = r["status"] == "refuted"
        return [{"name": r["name"], "clause": "canary", "status": "discharged" if ok else "undecided",
                 "seconds": r["seconds"], "canary": True, "selfcheck_failed": not ok,
                 "reason": "wrong postcondition refuted as required" if ok else "canary NOT refuted: vacuous spec"}]
    raise ValueError(fam)


# ------------------------------------------------------------------------------------------
def replay_spec(facts, r):
    w = r.get("witness") or {}
    if "x" not in w or "e" not in w:
        return None
    xs, es = to_py_source(w["x"]), to_py_source(w["e"])
    exp = to_py_source(w["expected"]) if "expected" in w and not (isinstance(w["expected"], dict) and "?" in w["expected"]) else None
    from contracts.native_ref import NATIVE_REF
    # the witness, then a small enumeration around it (DESIGN 6): each expression position of the witness's top node replaced by a
    # path rooted at the variable / a deeper one / one rooted elsewhere; expectations of the variants from an independent reroot
    script = NATIVE_REF + f"""
import json, copy, dataclasses
from odata_query.utils import expression_relative_to_identifier
x = {xs}
e = {es}


def rooted(x, p):
    return isinstance(p, ast.Attribute) and (p.owner == x or rooted(x, p.owner))


def drop_first(p):
    return ast.Attribute(drop_first(p.owner), p.attr) if isinstance(p.owner, ast.Attribute) else ast.Identifier(p.attr)


def reroot(x, e):
    if isinstance(e, ast.Attribute):
        return drop_first(e) if rooted(x, e) else e
    if not dataclasses.is_dataclass(e):
        return e
    kw = {{}}
    for f in dataclasses.fields(e):
        v = getattr(e, f.name)
        if isinstance(v, list):
            kw[f.name] = [reroot(x, i) for i in v]
        elif isinstance(v, ast._Node):
            kw[f.name] = reroot(x, v)
        else:
            kw[f.name] = v
    return type(e)(**kw)


def variants(x, e):
    if not isinstance(x, ast.Identifier) or not dataclasses.is_dataclass(e) or type(e).__name__ not in SHAPE:
        return
    probes = [ast.Attribute(x, 'a'), ast.Attribute(ast.Attribute(x, 'a'), 'b'), ast.Attribute(ast.Identifier('y'), 'a'),
              ast.Attribute(ast.Attribute(ast.Attribute(x, 'a'), 'b'), 'c')]
    for f, spec in SHAPE[type(e).__name__].items():
        v = getattr(e, f)
        if spec == "expr" or (isinstance(spec, tuple) and spec[0] == "kind" and "Attribute" in spec[1]):
            for p in probes:
                yield dataclasses.replace(e, **{{f: p}})
        elif spec in ("exprs", "args") and isinstance(v, list):
            for i in range(len(v) + 1):
                for p in probes:
                    yield dataclasses.replace(e, **{{f: v[:i] + [p] + v[i + 1:]}})


def run(x, e, expected):
    before = copy.deepcopy(e)
    try:
        got = expression_relative_to_identifier(x, e)
        err = None
    except Exception as ex:
        got, err = None, type(ex).__name__ + ': ' + str(ex)
    violates = (err is not None) or (expected is not None and got != expected) or (e != before)
    return {{'tree': repr(e)[:300], 'got': repr(got)[:300], 'error': err, 'expected': repr(expected)[:300], 'mutated': e != before,
            'violates': bool(violates)}}


out = run(x, e, {exp if exp else 'None'})
if not out['violates']:
    for v in variants(x, e):
        try:
            want = reroot(x, v)
        except Exception:
            continue
        o = run(x, v, want)
        if o['violates']:
            out = dict(o, variant_of_witness=True)
            break
print(json.dumps(out))
"""
    return {"native_script": script, "input_text": f"x={xs}; e={es}", "required": f"result == {exp}"}


def evidence(facts, results):
    return {
        "trusted_base": ["z3 5.1.0 (recursive-function unfolding, datatypes, sequences)",
                         "pyvc symbolic executor (vc/symexec.py) and its Python semantics, DESIGN section 4",
                         "dataclasses generates structural __eq__/__init__ for frozen dataclasses (checked: cfg)"],
        "assumptions": [
            "int/bool confusion (1 == True) does not occur in AST fields",
            "the variable passed to expression_relative_to_identifier is an ast.Identifier (its signature)",
            "induction principle: per-kind obligations with the callee contract as hypothesis on strict sub-terms "
            "(checked syntactically by the `decreases` clause) establish the contract for every tree",
        ],
        "explanation": "visit(e) = reroot(x, e) for every node kind under IdentifierStripper's MRO-resolved handler "
                       "table; identity lemma per kind; loop invariant of NodeTransformer.generic_visit.",
    }


if __name__ == "__main__":
    import sys
    from vc.runner import main
    sys.exit(main(sys.modules[__name__]))
