"""C18 -- Type inference never reports a wrong type.

The strongest postcondition `itype(n)` of typing.infer_type is *derived mechanically* from the real
source (propkit.summarize: every path of infer_type / infer_return_type, recursive calls mapped to
itype itself), so harmless edits change nothing and any edit that changes behaviour changes itype.
The property is then a lemma over it, against the OData type assignment `otype` written from the
property statement / OData specification (partial: None = no static type, e.g. fields):

    wt(n)  =>  itype(n) = None  \\/  itype(n) = otype(n)                     per node kind, with IH
    typecheck(n, allowed, name) raises ArgumentTypeException(name, ..) iff itype(n) != None and
                                                                        itype(n) not in allowed
    corollaries: a well-typed argument whose OData type is allowed (or unknown) is never rejected;
                 a literal of a kind outside `allowed` is always rejected.
"""
import z3

from vc import stdmodels
from vc.deffun import DefFun
from vc.propkit import explore, judge, outcomes_to_results, src_of, summarize, ERR_PREFIX
from vc.pyval import to_py_source
from vc.speclib import Specs, check_shape_table
from vc.symexec import Engine, FuncRef, Obj, Sym, ClassRef

PROPERTY = "C18"
NEEDS_MODULES = ["odata_query.ast", "odata_query.typing", "odata_query.exceptions"]
TIMEOUT = {"quick": 15000, "thorough": 60000}
KNOWN = []
_CTX = {}

LITERALS = ["Null", "Integer", "Float", "Boolean", "String", "Geography", "Date", "Time", "DateTime", "Duration",
            "GUID", "List"]
# OData 4.01 URL conventions 5.1.1.5 - 5.1.1.13: canonical function return types, in this
# library's kind vocabulary (Edm.Int32 -> Integer, Edm.Decimal/Double -> Float, ...).
# "ARG0": same as the first argument; "ARGS": the common type of the arguments.
RETURN_TYPE = {
    "concat": "ARGS", "contains": "Boolean", "endswith": "Boolean", "indexof": "Integer", "length": "Integer",
    "startswith": "Boolean", "substring": "ARG0", "matchesPattern": "Boolean", "tolower": "String",
    "toupper": "String", "trim": "String",
    "year": "Integer", "month": "Integer", "day": "Integer", "hour": "Integer", "minute": "Integer",
    "second": "Integer", "fractionalseconds": "Float", "totalseconds": "Float", "date": "Date", "time": "Time",
    "totaloffsetminutes": "Integer", "mindatetime": "DateTime", "maxdatetime": "DateTime", "now": "DateTime",
    "round": "Float", "floor": "Float", "ceiling": "Float",
    "geo.distance": "Float", "geo.length": "Float", "geo.intersects": "Boolean",
    "hassubset": "Boolean", "hassubsequence": "Boolean",
}
ARITY = {"concat": (2, 2), "substring": (2, 3)}


def cls(U, kind):
    return U.clsv("odata_query.ast." + kind)


def build(facts):
    if "c" in _CTX:
        return _CTX["c"]
    E = Engine(facts)
    stdmodels.install(E)
    S = Specs(E.U)
    U, PV = E.U, E.U.PV
    shape = S.shape()
    for k in facts.kinds:           # stable class indices
        cls(U, k)
    fld = U.field

    # ---- itype: derived from the code -----------------------------------------------------
    f_inf = facts.functions["odata_query.typing.infer_type"]
    def fullname(func):
        return U.str_join(z3.StringVal("."), z3.Concat(PV.titems(fld("Identifier", "namespace", func)),
                                                       z3.Unit(fld("Identifier", "name", func))))

    def builtin_ns(func):
        ns = PV.titems(fld("Identifier", "namespace", func))
        return z3.Or(ns == z3.Empty(U.Seq), ns == z3.Unit(U.strv("geo")))

    def arity_pre(n):
        """built-in calls carry the number of arguments the OData table prescribes (established by the parser: C11)"""
        func = fld("Call", "func", n)
        cnt = z3.Length(PV.items(fld("Call", "args", n)))
        name = fullname(func)
        conds = [z3.Implies(name == z3.StringVal(fn), z3.And(cnt >= lo, cnt <= hi)) for fn, (lo, hi) in ARITY.items()]
        return z3.Implies(z3.And(U.is_kind("Call", n), builtin_ns(func)), z3.And(*conds))

    itype, finish = summarize(E, "itype", FuncRef(f_inf), max_paths=2500,
                              pre=lambda n: z3.And(U.is_node(n), shape(n), arity_pre(n)))

    rng = {}
    holder = {}

    def infer_contract(E, path, fref, args, kwargs):
        t = E.to_pv(args[0])
        r = itype(t)
        if not rng.get("done"):
            # while the summary is being derived: the declared result type Optional[Type] as induction
            # hypothesis for recursive calls (checked for every non-recursive case once the summary exists)
            path.assume_fact(z3.Or(U.is_tag("NoneV", r), U.is_tag("ClsV", r)))
        if rng.get("values"):
            # requires: a shaped, arity-correct tree (then no path of the summary raises: family `summary`)
            path.oblige("pre.shape", z3.And(U.is_node(t), shape(t), holder["wt"](t)))
            # range of itype (inductive: every non-recursive case returns one of these constants and the
            # recursive cases return itype of a sub-term) -- checked below when the summary is built
            path.assume_fact(z3.Or(U.is_tag("NoneV", r), U.is_tag("ClsV", r)))
        return E.from_pv(r)
    E.contracts["odata_query.typing.infer_type"] = infer_contract
    _, cases = finish()
    vals, ok = {}, True

    def leaves(v):
        v = z3.simplify(v)
        if z3.is_app(v) and v.decl().kind() == z3.Z3_OP_ITE:
            return leaves(v.arg(1)) + leaves(v.arg(2))
        return [v]
    for cond, val in cases:
        for v in leaves(val):
            if z3.is_app(v) and v.decl().eq(itype.uf):
                continue
            if U.ctor_name(v) == "ExtV":
                continue                      # error marker: excluded by the precondition (family `summary`)
            if U.ctor_name(v) in ("NoneV", "ClsV"):
                vals[v.get_id()] = v
            else:
                ok = False
    rng["values"] = list(vals.values()) if ok else None
    rng["done"] = True
    if not ok:
        from vc.propkit import SummaryFailed
        raise SummaryFailed("infer_type returns something that is neither None nor a class on some path")

    # ---- otype: from the specification ----------------------------------------------------
    def otype_body(e):
        body = U.none()
        for k in LITERALS:
            body = z3.If(U.is_kind(k, e), cls(U, k), body)
        body = z3.If(z3.Or(U.is_kind("Compare", e), U.is_kind("BoolOp", e)), cls(U, "Boolean"), body)
        un = z3.If(U.is_kind("Not", fld("UnaryOp", "op", e)), cls(U, "Boolean"), otype(fld("UnaryOp", "operand", e)))
        body = z3.If(U.is_kind("UnaryOp", e), un, body)
        func = fld("Call", "func", e)
        args = PV.items(fld("Call", "args", e))
        name = fullname(func)
        call = U.none()
        for fn, rt in RETURN_TYPE.items():
            if rt == "ARG0":
                v = otype(args[0])
            elif rt == "ARGS":
                v = z3.If(otype(args[0]) != U.none(), otype(args[0]), otype(args[1]))
            else:
                v = cls(U, rt)
            call = z3.If(name == z3.StringVal(fn), v, call)
        body = z3.If(z3.And(U.is_kind("Call", e), builtin_ns(func)), call, body)
        return body
    otype = DefFun("otype", [PV], PV, otype_body)

    # ---- wt: what "well-typed" needs for this lemma (arity of built-ins, agreeing concat args) ----
    def wt_local(e):
        func = fld("Call", "func", e)
        args = PV.items(fld("Call", "args", e))
        name = fullname(func)
        n = z3.Length(args)
        conds = []
        for fn in RETURN_TYPE:
            lo, hi = ARITY.get(fn, (None, None))
            if lo is not None:
                conds.append(z3.Implies(name == z3.StringVal(fn), z3.And(n >= lo, n <= hi)))
        a0, a1 = otype(args[0]), otype(args[1])
        conds.append(z3.Implies(name == z3.StringVal("concat"),
                                z3.Or(a0 == U.none(), a1 == U.none(), a0 == a1)))
        return z3.Implies(z3.And(U.is_kind("Call", e), builtin_ns(func)), z3.And(*conds))

    def wt_seq_body(q):
        n = z3.Length(q)
        return z3.If(n == 0, z3.BoolVal(True), z3.And(z3.Implies(U.is_node(q[0]), wt(q[0])), wt_seq(z3.SubSeq(q, 1, n - 1))))
    wt_seq = DefFun("wt_seq", [U.Seq], z3.BoolSort(), wt_seq_body, cheap=True)

    def wt_body(e):
        body = z3.BoolVal(True)
        for k in reversed(facts.kinds):
            parts = [wt_local(e)] if k == "Call" else []
            for fn in facts.kind_fields[k]:
                t = fld(k, fn, e)
                parts.append(z3.If(U.is_tag("ListV", t), wt_seq(PV.items(t)), z3.Implies(U.is_node(t), wt(t))))
            body = z3.If(U.is_kind(k, e), z3.And(*parts) if parts else z3.BoolVal(True), body)
        return body
    wt = DefFun("wt", [PV], z3.BoolSort(), wt_body)
    holder["wt"] = wt

    def in_range(t):
        """range of itype, established by induction over its derived summary (leaf cases are these constants,
        recursive cases return itype of a sub-term)"""
        return z3.Implies(z3.And(U.is_node(t), shape(t), arity_pre(t)),
                          z3.Or(U.is_tag("NoneV", itype(t)), U.is_tag("ClsV", itype(t))))

    c = dict(E=E, S=S, U=U, PV=PV, shape=shape, itype=itype, otype=otype, wt=wt, cases=cases, in_range=in_range,
             arity_pre=arity_pre,
             fullname=fullname, builtin_ns=builtin_ns)
    _CTX["c"] = c
    return c


def _consts(t):
    if z3.is_const(t) and t.decl().kind() == z3.Z3_OP_UNINTERPRETED:
        yield t
    elif z3.is_app(t):
        for i in range(t.num_args()):
            yield from _consts(t.arg(i))


def concrete_search(c, fn):
    import itertools
    from vc.deffun import eval_closed_term
    to_rec = lambda t: t
    U, PV = c["U"], c["PV"]
    ident = lambda n: U.node("Identifier", U.strv(n), U.tuplev(z3.Empty(U.Seq)))
    atoms = [ident("f"), U.node("String", U.strv("s")), U.node("Integer", U.strv("1")),
             U.node("List", PV.ListV(U.seq([U.node("Integer", U.strv("1"))]))), U.node("Boolean", U.strv("true"))]
    parts = fn.split(".")
    func = U.node("Identifier", U.strv(parts[-1]), U.tuplev(U.seq([U.strv(x) for x in parts[:-1]])))
    lo, hi = ARITY.get(fn, (None, None))
    counts = range(lo, hi + 1) if lo is not None else range(0, 4)
    for n in counts:
        for args in itertools.product(atoms, repeat=n):
            node = U.node("Call", func, PV.ListV(U.seq(list(args))))
            ok = eval_closed_term(z3.And(c["wt"](node), z3.Not(sound(c, node))))
            if z3.is_true(ok):
                return {"e": U.decode(node), "inferred": U.decode(eval_closed_term(c["itype"](node))),
                        "odata_type": U.decode(eval_closed_term(c["otype"](node)))}
    return None


def concrete_search_kind(c, kind):
    """small closed trees of one node kind: every field filled from a handful of atoms / operators"""
    import itertools
    from vc.deffun import eval_closed_term
    from vc.speclib import SHAPE
    U, PV = c["U"], c["PV"]
    ident = lambda n: U.node("Identifier", U.strv(n), U.tuplev(z3.Empty(U.Seq)))
    length = U.node("Call", ident("length"), PV.ListV(U.seq([ident("f")])))
    atoms = [ident("f"), U.node("String", U.strv("s")), U.node("Integer", U.strv("1")), U.node("Float", U.strv("1.5")),
             U.node("Boolean", U.strv("true")), length, U.node("Date", U.strv("2020-01-02")), U.node("Duration", U.strv("P1D"))]

    def options(spec):
        if spec == "expr":
            return atoms
        if spec == "str":
            return [U.strv("s")]
        if spec == "strs":
            return [U.tuplev(z3.Empty(U.Seq))]
        if spec in ("exprs", "args"):
            return [PV.ListV(U.seq([a])) for a in atoms[:3]] + [PV.ListV(U.seq([atoms[2], atoms[3]]))]
        if spec[0] == "kind":
            return [U.node(k) if not SHAPE[k] else (ident("f") if k == "Identifier" else None) for k in spec[1]]
        if spec[0] == "opt":
            return [U.none()] + [o for o in options(spec[1]) if o is not None]
        return []
    fields = [[o for o in options(sp) if o is not None] for sp in SHAPE[kind].values()]
    if any(not f for f in fields):
        return None
    for combo in itertools.islice(itertools.product(*fields), 2000):
        node = U.node(kind, *combo)
        ok = eval_closed_term(z3.And(c["wt"](node), z3.Not(sound(c, node))))
        if z3.is_true(ok):
            return {"e": U.decode(node), "inferred": U.decode(eval_closed_term(c["itype"](node))),
                    "odata_type": U.decode(eval_closed_term(c["otype"](node)))}
    return None


def sound(c, t):
    """itype(t) is unknown or the OData type"""
    U = c["U"]
    return z3.Or(c["itype"](t) == U.none(), c["itype"](t) == c["otype"](t))


ALLOWED_SPECS = {
    "field:(Identifier,String)": ["Identifier", "String"],     # call sites: django_q.py / sqlalchemy/common.py
    "substring:String": "String",
}
for _k in LITERALS:
    ALLOWED_SPECS.setdefault(f"single:{_k}", _k)


def families(facts):
    fams = ["cfg", "summary", "lemma.wt_arity"] + [f"lemma.sound[{k}]" for k in facts.kinds if k != "Call"]
    fams += [f"lemma.sound[Call:{fn}]" for fn in list(RETURN_TYPE) + ["<other>", "<other ns>"]]
    fams += [f"typecheck[{k}]" for k in ALLOWED_SPECS] + ["corollary.accept", "corollary.reject", "canary"]
    return fams


def run_family(facts, fam, tier):
    timeout = TIMEOUT[tier]
    if fam == "cfg":
        probs = check_shape_table(facts)
        probs += [f"literal kind {k} missing" for k in LITERALS if k not in facts.kinds]
        lit = facts.ast_subkinds("_Literal")
        probs += [f"ast._Literal subclass {k} has no row in the OData type table" for k in lit if k not in LITERALS]
        return [{"name": "C18:odata_query.ast:cfg.shape", "clause": "cfg.shape",
                 "status": "discharged" if not probs else "undecided", "seconds": 0.0,
                 "reason": "; ".join(probs) or "ast classes match the shape and literal tables", "backend": "finite-check"}]
    c = build(facts)
    E, U, PV = c["E"], c["U"], c["PV"]
    f_inf = facts.functions["odata_query.typing.infer_type"]
    f_ret = facts.functions["odata_query.typing.infer_return_type"]
    f_tc = facts.functions["odata_query.typing.typecheck"]

    if fam == "summary":
        # the derived summary must be total and exception-free on shaped, arity-correct trees (safety clause)
        n = z3.Const("n", PV)
        out = []
        for i, (cond, val) in enumerate(c["cases"]):
            is_err = U.ctor_name(val) == "ExtV" and any(
                nm.startswith(ERR_PREFIX) for nm in [U.ext_names[val.arg(0).as_long()]])
            if is_err:
                nparam = z3.Const("itype!a0", PV)
                hyps = [z3.substitute(cond, (nparam, n)), c["shape"](n), U.is_node(n), c["wt"](n)]
                out.append(judge(E, "C18:odata_query.typing.infer_type:safety.raise", "safety.raise", hyps,
                                 z3.BoolVal(False), src_of(f_inf), timeout, {"e": n},
                                 extra={"info": {"exception": U.ext_names[val.arg(0).as_long()]}}, path_idx=i))
        out.append({"name": "C18:odata_query.typing.infer_type:summary", "clause": "summary", "status": "discharged",
                    "seconds": 0.0, "reason": f"{len(c['cases'])} paths of infer_type/infer_return_type summarised",
                    "source": src_of(f_ret), "backend": "pyvc"})
        return out

    if fam.startswith("lemma.sound["):
        kind = fam[len("lemma.sound["):-1]
        only = None
        if kind.startswith("Call:"):
            kind, only = "Call", kind[5:]
        consts = [z3.Const(f"f_{fn}", PV) for fn in facts.kind_fields[kind]]
        node = U.node(kind, *consts)
        hyps = [c["shape"](node), c["wt"](node)]
        # induction hypothesis on the sub-terms infer_type can look at: direct children and list items 0, 1
        for fc in consts:
            hyps.append(z3.Implies(z3.And(U.is_node(fc), c["wt"](fc)), sound(c, fc)))
            hyps.append(c["in_range"](fc))
            hyps.append(z3.Implies(z3.And(U.is_node(fc), c["wt"](fc)), c["arity_pre"](fc)))     # lemma.wt_arity
            for i in (0, 1, 2):
                it = PV.items(fc)[i]
                hyps.append(z3.Implies(z3.And(U.is_tag("ListV", fc), z3.Length(PV.items(fc)) > i, c["wt"](it)),
                                       sound(c, it)))
                hyps.append(c["in_range"](it))
                hyps.append(z3.Implies(z3.And(U.is_node(it), c["wt"](it)), c["arity_pre"](it)))  # lemma.wt_arity
        src = src_of(f_ret if kind == "Call" else f_inf)
        wt_terms = {"e": node, "inferred": c["itype"](node), "odata_type": c["otype"](node)}
        if kind != "Call":
            r = judge(E, f"C18:odata_query.typing.infer_type[{kind}]:lemma.sound", "lemma.sound", hyps, sound(c, node),
                      src, timeout, wt_terms)
            if r["status"] == "undecided":
                # as for calls: a small concrete counterexample by closed evaluation (a model finder, not a proof)
                w = concrete_search_kind(c, kind)
                if w is not None:
                    r["status"] = "refuted"
                    r["reason"] = "concrete counterexample found by closed evaluation after solver timeout"
                    r["witness"] = w
                    r["solver_output"] = "closed evaluation: itype != otype on " + str(w.get("e"))[:300]
            return [r]
        # one obligation per function name of the OData table (+ every other name / namespace): smaller queries,
        # and a counter-model names the function
        func = consts[0]
        name = c["fullname"](func)
        if only == "<other>":
            notin = [name != z3.StringVal(fn) for fn in RETURN_TYPE]
            return [judge(E, "C18:odata_query.typing.infer_return_type[<other name>]:lemma.sound", "lemma.sound",
                          hyps + [c["builtin_ns"](func)] + notin, sound(c, node), src, 3 * timeout, wt_terms)]
        if only == "<other ns>":
            return [judge(E, "C18:odata_query.typing.infer_return_type[<other namespace>]:lemma.sound", "lemma.sound",
                          hyps + [z3.Not(c["builtin_ns"](func))], sound(c, node), src, 3 * timeout, wt_terms)]
        r = judge(E, f"C18:odata_query.typing.infer_return_type[{only}]:lemma.sound", "lemma.sound",
                  hyps + [c["builtin_ns"](func), name == z3.StringVal(only)], sound(c, node), src, timeout, wt_terms)
        if r["status"] == "undecided":
            # the solver could neither prove nor refute: look for a small concrete counterexample by evaluating
            # the derived summary and the specification on closed trees (a model finder, not a proof)
            w = concrete_search(c, only)
            if w is not None:
                r["status"] = "refuted"
                r["reason"] = "concrete counterexample found by closed evaluation after solver timeout"
                r["witness"] = w
                r["solver_output"] = "closed evaluation: itype != otype on " + str(w.get("e"))[:300]
        return [r]

    if fam == "lemma.wt_arity":
        # wt(t) => arity_pre(t): used as a hypothesis instance in lemma.sound; arity_pre is trivially true off Call
        consts = [z3.Const(f"f_{fn}", PV) for fn in facts.kind_fields["Call"]]
        node = U.node("Call", *consts)
        return [judge(E, "C18:lemma.wt_arity[Call]", "lemma.wt_arity", [c["shape"](node), c["wt"](node)],
                      c["arity_pre"](node), None, timeout, {"e": node})]

    if fam.startswith("typecheck["):
        key = fam[len("typecheck["):-1]
        spec = ALLOWED_SPECS[key]
        names = spec if isinstance(spec, list) else [spec]
        mk = lambda k: E.class_by_qualname("odata_query.ast." + k)
        expected = tuple(mk(k) for k in names) if isinstance(spec, list) else mk(spec)
        n = z3.Const("n", PV)
        fname = z3.Const("field_name", z3.StringSort())
        from vc.symexec import SStr, Atom
        allowed = z3.Or(*[c["itype"](n) == cls(U, k) for k in names])
        must_raise = z3.And(c["itype"](n) != U.none(), z3.Not(allowed))

        def runner(path):
            path.assume(z3.And(U.is_node(n), c["shape"](n), c["wt"](n)))
            return E.run_function(path, FuncRef(f_tc), [Sym(n), expected, SStr([Atom(fname, ("term",))])])

        res = explore(E, runner)
        out = []
        base = f"C18:odata_query.typing.typecheck[{key}]"
        for idx, (path, outcome) in enumerate(res):
            hyps = path.pc + path.insts
            if outcome[0] == "return":
                out.append(judge(E, base + ":post.accept", "post.accept", hyps, z3.Not(must_raise), src_of(f_tc),
                                 timeout, {"e": n, "inferred": c["itype"](n)}, path_idx=idx))
            elif outcome[0] == "raise":
                exc = outcome[1]
                ok_cls = exc.cls == "odata_query.exceptions.ArgumentTypeException"
                fn_attr = exc.attrs.get("function_name")
                fn_ok = z3.BoolVal(False)
                if isinstance(fn_attr, SStr):
                    fn_ok = fn_attr.term() == fname
                out.append(judge(E, base + ":post.reject", "post.reject", hyps,
                                 z3.And(z3.BoolVal(ok_cls), must_raise, fn_ok), src_of(f_tc), timeout,
                                 {"e": n, "inferred": c["itype"](n)}, path_idx=idx,
                                 extra={"info": {"exception": exc.name}}))
            else:
                out.append({"name": base + ":unsupported", "clause": "unsupported", "status": "undecided",
                            "seconds": 0.0, "reason": outcome[1], "source": src_of(f_tc)})
        return out

    if fam in ("corollary.accept", "corollary.reject"):
        n = z3.Const("n", PV)
        out = []
        for key, spec in ALLOWED_SPECS.items():
            names = spec if isinstance(spec, list) else [spec]
            in_allowed = lambda t: z3.Or(*[t == cls(U, k) for k in names])
            must_raise = z3.And(c["itype"](n) != U.none(), z3.Not(in_allowed(c["itype"](n))))
            if fam == "corollary.accept":
                # well-typed, and the OData type is allowed or unknown  =>  not rejected (uses the main lemma)
                hyps = [U.is_node(n), c["shape"](n), c["wt"](n), sound(c, n),
                        z3.Or(c["otype"](n) == U.none(), in_allowed(c["otype"](n)))]
                out.append(judge(E, f"C18:corollary.accept[{key}]", "lemma.accept", hyps, z3.Not(must_raise), None,
                                 timeout, {"e": n}))
            else:
                for k in LITERALS:
                    if k in names:
                        continue
                    hyps = [U.is_kind(k, n), c["shape"](n)]
                    out.append(judge(E, f"C18:corollary.reject[{key}][literal={k}]", "lemma.reject", hyps, must_raise,
                                     src_of(f_inf), timeout, {"e": n}))
        return out

    if fam == "canary":
        # must be refuted: `time(x)` is not a Date
        n = z3.Const("n", PV)
        func = U.field("Call", "func", n)
        hyps = [U.is_kind("Call", n), c["shape"](n), c["builtin_ns"](func), c["fullname"](func) == z3.StringVal("time")]
        r = judge(E, "C18:canary:time-returns-date", "canary", hyps, c["otype"](n) == cls(U, "Date"), None, timeout)
        ok = r["status"] == "refuted"
        return [{"name": r["name"], "clause": "canary", "status": "discharged" if ok else "undecided",
                 "seconds": r["seconds"], "canary": True, "selfcheck_failed": not ok,
                 "reason": "wrong postcondition refuted as required" if ok else "canary NOT refuted: vacuous spec"}]
    raise ValueError(fam)


def replay_spec(facts, r):
    w = r.get("witness") or {}
    if "e" not in w:
        return None
    es = to_py_source(w["e"])
    table = {k: v for k, v in RETURN_TYPE.items()}
    script = f"""
import json
from odata_query import ast, typing, exceptions
e = {es}
RETURN_TYPE = {table!r}
LITERALS = {LITERALS!r}

def otype(n):
    if type(n).__name__ in LITERALS:
        return type(n)
    if isinstance(n, (ast.Compare, ast.BoolOp)):
        return ast.Boolean
    if isinstance(n, ast.UnaryOp):
        return ast.Boolean if isinstance(n.op, ast.Not) else otype(n.operand)
    if isinstance(n, ast.Call) and n.func.namespace in ((), ('geo',)):
        rt = RETURN_TYPE.get(n.func.full_name())
        if rt == 'ARG0':
            return otype(n.args[0])
        if rt == 'ARGS':
            return otype(n.args[0]) or otype(n.args[1])
        return getattr(ast, rt) if rt else None
    return None

problems = []
try:
    got = typing.infer_type(e)
    want = otype(e)
    if got is not None and got is not want:
        problems.append('infer_type=%s but OData type=%s' % (got.__name__, want.__name__ if want else None))
except Exception as ex:
    got = None
    problems.append('infer_type raised ' + type(ex).__name__ + ': ' + str(ex))
for allowed in [(ast.Identifier, ast.String), ast.String] + [getattr(ast, k) for k in LITERALS]:
    al = allowed if isinstance(allowed, tuple) else (allowed,)
    want = otype(e)
    try:
        typing.typecheck(e, allowed, 'arg')
        rejected = False
    except exceptions.ArgumentTypeException as ex:
        rejected = True
        if ex.function_name != 'arg':
            problems.append('exception names ' + repr(ex.function_name))
    except Exception as ex:
        problems.append('typecheck raised ' + type(ex).__name__)
        continue
    if rejected and (want is None or want in al):
        problems.append('well-typed argument rejected for allowed=%s' % [a.__name__ for a in al])
    if not rejected and type(e).__name__ in LITERALS and type(e) not in al:
        problems.append('literal of kind %s accepted for allowed=%s' % (type(e).__name__, [a.__name__ for a in al]))
print(json.dumps({{'violates': bool(problems), 'problems': problems[:4], 'e': repr(e), 'inferred': getattr(got, '__name__', None)}}))
"""
    return {"native_script": script, "input_text": f"e={es}",
            "required": "infer_type(e) in (None, otype(e)); typecheck rejects iff type known and not allowed"}


def evidence(facts, results):
    return {
        "trusted_base": ["z3 5.1.0", "pyvc symbolic executor and Python semantics of DESIGN section 4",
                         "the OData return-type table in contracts/C18.py (written from OData 4.01 part 2, 5.1.1.5-13)"],
        "assumptions": [
            "well-typed calls have the table's arity and agreeing concat arguments (wt); other typing rules are not needed by the lemma",
            "classes are compared by identity; class objects are truthy",
            "log.debug is effect-free (dropped by the extractor)",
        ],
        "explanation": "itype = mechanically derived strongest postcondition of infer_type; per-kind soundness lemma against otype; "
                       "typecheck raises iff type known and not allowed; accept/reject corollaries.",
    }


if __name__ == "__main__":
    import sys
    from vc.runner import main
    sys.exit(main(sys.modules[__name__]))
