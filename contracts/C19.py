"""C19 -- Whitespace layout and keyword case do not change the meaning of a filter.

Mechanism-level obligations on the real lexer rules, grammar productions, token actions, literal classes and backend
handlers (all read from /repo on every run):

 (a) regex  (exact automata over the rule patterns under the lexer's flags)
     regex.op[T]        WS+ ci(kw) WS+  is inside L(rule T) for the 14 keyword operators; ci(not) WS+ inside L(NOT)
     regex.opshadow[T]  no rule tried earlier matches a prefix of such a spelling (first-match alternation)
     regex.ws           WS+ is inside L(WS)
     regex.kw[K]        every case assignment of the keyword letters of a literal kind / of any, all is inside its rule
     cfg.flags          the master regex is compiled case-insensitively and no rule switches the flag off inline
 (b) productions (finite check of the extracted grammar)
     prod.bws           BWS follows every "(" , precedes every ")", surrounds every "," and the lambda ":";
                        BWS derives both the empty string and WS; no action reads a BWS slot
 (c) token actions (pyvc): rel.case -- the node built is a function of the case-normalised text (normalising action),
     or the text is stored raw and then every consumer must be case-insensitive:
 (d) consumers of raw keyword-bearing values (Boolean, DateTime, Float; Duration when not normalised)
     pyval[K]           the literal's Python value mentions .val only under lower()/upper() or as the argument of a
                        case-insensitive parser of the dependency (float, dateutil isoparse: assumed, listed)
     backend[b][K]      2-safety of the handler of each of the 7 backends: on every path, result and path condition mention
                        .val only under lower()/upper(), through py_val, or (text back ends) as a token whose target
                        language is itself case-insensitive (a number's exponent marker in SQL; OData text re-read by (a))

That (a)-(d) give layout/case invariance of the whole lexer-parser-backend pipeline needs the SLY / `re` contracts of
C05/C06 (assumed there, listed here).
"""
import re
import time

import z3

from contracts import lexspec as L
from contracts import grammar_common as G
from contracts import sqlcommon as Q
from contracts import ormcommon as O
from contracts import C06
from vc import automata as A
from vc.propkit import explore, judge, src_of, is_lib_exc
from vc.speclib import fresh_node
from vc.symexec import Atom, DictObj, ExtVal, FuncRef, ListObj, SBool, SInt, SStr, SeqMap, Sym, Unsupported

PROPERTY = "C19"
NEEDS_MODULES = ["odata_query.ast", "odata_query.grammar", "odata_query.visitor", "odata_query.sql.base", "odata_query.sql.sqlite",
                 "odata_query.sql.athena", "odata_query.roundtrip", "odata_query.django.django_q", "odata_query.sqlalchemy.common",
                 "odata_query.sqlalchemy.orm", "odata_query.sqlalchemy.core"]
KNOWN = []
TIMEOUT = {"quick": 10000, "thorough": 60000}

KW_LITERAL = ["Boolean", "Null", "DateTime", "Duration", "Float", "Geography"]       # kinds whose spelling has keyword letters
KW_TOKENS = {"ANY": "any", "ALL": "all"}
CASE_KINDS = {"BOOLEAN": "Boolean", "DATETIME": "DateTime", "DECIMAL": "Float", "DURATION": "Duration"}
TEXT = ["standard", "sqlite", "athena", "odata"]
# parsers of the dependencies that read their argument case-insensitively (assumed; exercised by the bounded family)
CI_EXTERNALS = ("builtins.float", "isoparse")
# raw spellings that are tokens of a case-insensitive target language
RAW_OK = {("Float", "odata"): "the exponent marker of a numeric literal is case-insensitive in OData"}
for _k in CASE_KINDS.values():
    RAW_OK[(_k, "odata")] = "the output is OData text, re-read case-insensitively by the lexer obligations (a) and pyval"


def families(facts):
    fams = ["cfg.flags", "regex.ws", "prod.bws"]
    fams += [f"regex.op[{t}]" for t in list(L.KEYWORD_OPERATORS) + ["NOT"]]
    fams += [f"regex.kw[{k}]" for k in KW_LITERAL + list(KW_TOKENS)]
    fams += [f"regex.wsshadow[{r['name']}]" for r in facts.raw["lexer"]["rules"] if r["name"] != "WS"]
    fams += [f"action[{r['name']}]" for r in facts.raw["lexer"]["rules"] if r.get("action")]
    fams += [f"pyval[{k}]" for k in CASE_KINDS.values()]
    for k in CASE_KINDS.values():
        fams += [f"backend[{b}][{k}]" for b in TEXT + list(O.BACKENDS)]
    return fams + ["bounded.case-parsers", "canary"]


def ci(word):
    return "".join(f"[{ch.upper()}{ch.lower()}]" if ch.isalpha() else re.escape(ch) for ch in word)


# ------------------------------------------------------------------------------------------
# dependence on the raw spelling
# ------------------------------------------------------------------------------------------
def raw_mentions(t, raw_ids, seen=None):
    """sub-terms through which `t` depends on the raw text other than under str_upper / str_lower"""
    seen = set() if seen is None else seen
    if t.get_id() in seen:
        return []
    seen.add(t.get_id())
    if t.get_id() in raw_ids:
        return [str(t)[:60]]
    if z3.is_app(t):
        if t.decl().name() in ("str_upper", "str_lower"):
            return []
        if t.decl().kind() == z3.Z3_OP_DT_IS:
            return []           # a type test (is it a string at all) does not read the spelling
        out = []
        for i in range(t.num_args()):
            out += raw_mentions(t.arg(i), raw_ids, seen)
        return out
    return []


def value_raw_mentions(E, v, raw_ids, acc=None, in_ci=False):
    """the same over engine values: ExtVal trees, symbolic strings, lists"""
    acc = [] if acc is None else acc
    if isinstance(v, ExtVal):
        ci_ext = any(v.name == n or v.name.endswith("." + n) or v.name.endswith(n) for n in CI_EXTERNALS)
        for a in list(v.args) + [x for _, x in v.kwargs]:
            value_raw_mentions(E, a, raw_ids, acc, in_ci or ci_ext)
    elif isinstance(v, (tuple, list)):
        for a in v:
            value_raw_mentions(E, a, raw_ids, acc, in_ci)
    elif isinstance(v, ListObj) and v.is_concrete():
        for a in v.content:
            value_raw_mentions(E, a, raw_ids, acc, in_ci)
    elif isinstance(v, DictObj):
        for a in v.d.values():
            value_raw_mentions(E, a, raw_ids, acc, in_ci)
    elif isinstance(v, SeqMap):
        value_raw_mentions(E, v.elem_value, raw_ids, acc, in_ci)
    elif isinstance(v, SStr):
        if not in_ci:
            for p in v.parts:
                if isinstance(p, Atom):
                    acc += raw_mentions(z3.simplify(p.term), raw_ids)
    elif isinstance(v, Sym):
        if not in_ci:
            acc += raw_mentions(z3.simplify(v.term), raw_ids)
    elif isinstance(v, (SBool, SInt)):
        if not in_ci:
            acc += raw_mentions(z3.simplify(v.e), raw_ids)
    return acc


def text_raw_mentions(v, raw_ids, kind):
    """SQL text: a raw Boolean / Float spelling outside quotes is a keyword / number token, which SQL reads
    case-insensitively; inside a '...' literal (or for any other kind) the spelling is content"""
    if isinstance(v, str):
        return []
    out, quotes = [], 0
    for p in v.parts:
        if isinstance(p, str):
            quotes += p.count("'")
            continue
        ms = raw_mentions(z3.simplify(p.term), raw_ids)
        if ms and not (quotes % 2 == 0 and kind in ("Boolean", "Float")):
            out += [m + (" (inside a quoted literal)" if quotes % 2 else "") for m in ms]
    return out


def pc_raw_mentions(path, start, raw_ids):
    out = []
    for cnd in path.pc[start:]:
        s = z3.simplify(cnd)
        # conditions through a case-insensitive parser of the dependency: ext(...) terms carry the argument inside
        out += raw_mentions(s, raw_ids)
    return out


def res(name, clause, ok, t0, reason, extra=None, backend="finite-check"):
    r = {"name": name, "clause": clause, "status": "discharged" if ok else "refuted", "seconds": time.time() - t0,
         "backend": backend, "reason": reason}
    if not ok:
        r["solver_output"] = reason
    if extra:
        r.update(extra)
    return r


# ------------------------------------------------------------------------------------------
def keyword_letters(pattern):
    """letters the rule spells literally (outside character classes), e.g. "geography" for geography'...' """
    from vc.automata import sre_parse, sre_c
    out = []

    def walk(items):
        for op, av in items:
            if op == sre_c.LITERAL and chr(av).isalpha():
                out.append(chr(av))
            elif op == sre_c.SUBPATTERN:
                walk(av[3])
            elif op in (sre_c.MAX_REPEAT, sre_c.MIN_REPEAT):
                walk(av[2])
            elif op == sre_c.BRANCH:
                for alt in av[1]:
                    walk(alt)
    try:
        walk(sre_parse.parse(pattern))
    except Exception:
        return ""
    return "".join(out)


SAMPLE_TOKENS = {"GEOGRAPHY": "geography'SRID=0;Point(1 2)'"}


def case_pair_script(tok, kw):
    sample = SAMPLE_TOKENS.get(tok)
    return f"""
import json
from odata_query.grammar import ODataLexer
sample = {sample!r}
kw = {kw!r}
bad = []
if sample:
    n = len(kw)
    variants = [sample, sample[:n].upper() + sample[n:], sample[:1].upper() + sample[1:]]
    vals = []
    for v in variants:
        try:
            toks = list(ODataLexer().tokenize(v))
            vals.append(repr(toks[0].value) if len(toks) == 1 else "split into %d tokens" % len(toks))
        except Exception as ex:
            vals.append(type(ex).__name__)
    if len(set(vals)) != 1:
        bad = [list(z) for z in zip(variants, vals)]
print(json.dumps({{'violates': bool(bad), 'problems': bad}}))
"""


def action_normalises(c, facts, tok):
    """does the token action of `tok` build its node from the case-normalised text only?  (None: no action)"""
    rule = [r for r in facts.raw["lexer"]["rules"] if r["name"] == tok][0]
    if not rule.get("action"):
        return None, []
    text_holder = {}

    def extra_post(path, name, text, vt):
        ms = raw_mentions(z3.simplify(vt), {text.get_id()})
        text_holder.setdefault("ms", []).append(ms)
        return []
    G.run_token_action(G.build(facts), rule, 5000, "C19", extra_post=extra_post)
    ms = text_holder.get("ms", [["<no path>"]])
    return all(not m for m in ms), ms


def run_family(facts, fam, tier):
    timeout = TIMEOUT[tier]
    lx = facts.raw["lexer"]
    t0 = time.time()
    if fam == "canary":
        # must be refuted: an upper-case keyword is not in the language of the rule compiled WITHOUT the case flag
        P = C06.parser_for(facts)
        g = A.Group({"S": P.parse(ci("true"), 0), "R": P.parse("true|false", 0)})
        w = g.subset_witness("S", "R")
        good = w is not None
        return [{"name": "C19:canary:case-sensitive-rule-misses-upper-case", "clause": "canary", "seconds": time.time() - t0,
                 "status": "discharged" if good else "undecided", "canary": True, "selfcheck_failed": not good,
                 "reason": f"wrong inclusion refuted with witness {w!r}" if good else "canary NOT refuted"}]
    if fam == "cfg.flags":
        inline = [r["name"] for r in lx["rules"] if re.search(r"\(\?[a-zA-Z]*-[a-zA-Z]*i", r["pattern"])]
        ok = bool(lx["reflags"] & re.I) and bool(lx["master_flags"] & re.I) and not inline
        return [res("C19:odata_query.grammar.ODataLexer:cfg.flags", "cfg.flags", ok, t0,
                    "reflags and the compiled master regex carry re.IGNORECASE; no rule switches it off inline" if ok else
                    f"IGNORECASE missing (reflags={lx['reflags']}, master={lx['master_flags']}) or switched off inline in {inline}")]
    if fam.startswith("regex."):
        P = C06.parser_for(facts)
        rules = C06.rule_nodes(facts, P)
        names = [n for n, _ in rules]
        rule = dict(rules)
        ws = L.WS_CHARS
        if fam == "regex.ws":
            if "WS" not in rule:
                return [res("C19:odata_query.grammar.ODataLexer.WS:regex.ws", "regex.ws", False, t0, "no WS rule")]
            g = A.Group({"S": P.parse(ws + "+", 0), "R": rule["WS"]})
            return [C06.ares("C19:odata_query.grammar.ODataLexer.WS:regex.ws", "regex.ws", g.subset_witness("S", "R"), t0, {"token": "WS"})]
        what = fam[fam.index("[") + 1:-1]
        if fam.startswith("regex.op["):
            kw = "not" if what == "NOT" else L.KEYWORD_OPERATORS[what]
            spec = (ci(kw) + ws + "+") if what == "NOT" else (ws + "+" + ci(kw) + ws + "+")
            out = []
            if what not in rule:
                return [res(f"C19:odata_query.grammar.ODataLexer.{what}:regex.op", "regex.op", False, t0, "no such rule")]
            S = P.parse(spec, 0)
            g = A.Group({"S": S, "R": rule[what]})
            out.append(C06.ares(f"C19:odata_query.grammar.ODataLexer.{what}:regex.op", "regex.op", g.subset_witness("S", "R"), t0,
                                {"token": what, "spec": spec}))
            ctx = A.Cat([S, A.anystar()])
            for ename in names[:names.index(what)]:
                t1 = time.time()
                g = A.Group({"CTX": ctx, "E": A.prefix_of(rule[ename])})
                out.append(C06.ares(f"C19:odata_query.grammar.ODataLexer.{what}:regex.opshadow[{ename}]", "regex.opshadow",
                                    g.intersect_witness("CTX", "E"), t1, {"token": what, "earlier": ename, "spec": spec}))
            return out
        if fam.startswith("regex.wsshadow["):
            # optional whitespace before an operand: `WS+ token` must be lexed as WS then the token, i.e. no rule tried before WS
            # matches a prefix of it -- except the keyword operators themselves (` eq ` is the operator, by design)
            if "WS" not in rule or what not in rule:
                return [res(f"C19:odata_query.grammar.ODataLexer.{what}:regex.wsshadow", "regex.wsshadow", False, t0, "no such rule")]
            if names.index(what) > names.index("WS"):
                return [res(f"C19:odata_query.grammar.ODataLexer.{what}:regex.wsshadow", "regex.wsshadow", True, t0, "tried after WS")]
            toks = "|".join("(?:" + L.SPEC[k][1] + ")" for k in L.SPEC)
            delim = "(?:" + L.DELIM_IDENT + ")"
            ctx = P.parse(ws + "+(?:" + toks + ")(?:" + delim + "[\\s\\S]*)?", 0)
            kws = "|".join(ci(k) for k in list(L.KEYWORD_OPERATORS.values()))
            exc = P.parse(ws + "+(?:" + kws + ")" + ws + "[\\s\\S]*", 0)
            g = A.Group({"CTX": ctx, "E": A.prefix_of(rule[what]), "X": exc})
            w = g.find(["CTX", "E", "X"], lambda f: f[0] and f[1] and not f[2])
            return [C06.ares(f"C19:odata_query.grammar.ODataLexer.{what}:regex.wsshadow", "regex.wsshadow", w, t0, {"token": what})]
        if fam.startswith("regex.kw["):
            if what in KW_TOKENS:
                tok, spec = what, ci(KW_TOKENS[what])
            else:
                tok, spec = L.SPEC[what]
            if tok not in rule:
                return [res(f"C19:odata_query.grammar.ODataLexer.{tok}:regex.kw", "regex.kw", False, t0, "no such rule")]
            g = A.Group({"S": P.parse(spec, 0), "R": rule[tok]})
            return [C06.ares(f"C19:odata_query.grammar.ODataLexer.{tok}:regex.kw", "regex.kw", g.subset_witness("S", "R"), t0,
                             {"token": tok, "kind": what})]
    if fam == "prod.bws":
        return prod_bws(facts, t0)
    if fam == "bounded.case-parsers":
        return bounded_case(facts)

    if fam.startswith("action["):
        c = G.build(facts)
        tok = fam[len("action["):-1]
        rule = [r for r in lx["rules"] if r["name"] == tok][0]
        kind = G.TOKEN_KIND.get(tok)
        norm, ms = action_normalises(c, facts, tok)
        name = f"C19:{rule['action']['qualname']}:rel.case"
        src = src_of(rule["action"])
        if norm:
            return [res(name, "rel.case", True, t0, "the node is built from the case-normalised text (or from no text at all)",
                        {"source": src, "token": tok}, backend="pyvc (syntactic dependence)")]
        if tok in CASE_KINDS:
            return [res(name, "rel.case", True, t0, "the spelling is stored raw: every consumer is checked for case-insensitivity "
                        f"(families pyval[{CASE_KINDS[tok]}], backend[*][{CASE_KINDS[tok]}])", {"source": src, "token": tok, "raw": True},
                        backend="pyvc (syntactic dependence)")]
        kw = keyword_letters(rule["pattern"])
        if kw:
            # the rule spells a keyword (geography'...'): the value must not read those letters.  C06's contract of the action
            # (value = a positional slice of the token text) is such a function; its obligation is re-run here and carried.
            rs = [r for r in C06.run_family(facts, f"action[{tok}]", tier) if r.get("clause") in ("post.value", "unsupported", "safety.raise")]
            out = []
            for r in rs:
                r = dict(r)
                r["name"] = name + f"[value is a positional slice of the text: {r['clause']}]"
                r["clause"] = "rel.case"
                r["token"] = tok
                if r["status"] == "refuted":
                    r["native_script"] = case_pair_script(tok, kw)
                    r["bound"] = f"{tok}: spellings of the keyword letters {kw!r}"
                out.append(r)
            if not out:
                out.append({"name": name, "clause": "rel.case", "status": "undecided", "seconds": 0.0, "reason": "no value obligation for the action"})
            return out
        # raw text of tokens without keyword letters in their value (strings, identifiers, digits, GUIDs): case is content
        return [res(name, "rel.case", True, t0, "the raw text is content, not keyword spelling (string / identifier / digits / hex)",
                    {"source": src, "token": tok, "raw": True}, backend="pyvc (syntactic dependence)")]
    c = Q.build(facts)
    if fam.startswith("pyval["):
        kind = fam[len("pyval["):-1]
        return pyval_family(c, facts, kind, timeout, t0)
    if fam.startswith("backend["):
        b, kind = fam[len("backend["):-1].split("][")
        return backend_family(c, facts, b, kind, timeout, t0)
    raise ValueError(fam)


# ------------------------------------------------------------------------------------------
def prod_bws(facts, t0):
    import ast as pyast
    P = facts.raw["parser"]
    out = []
    prods = P["productions"]
    bws_alts = sorted(" ".join(p["prod"]) for p in prods if p["name"] == "BWS")
    empties = {p["name"] for p in prods if not p["prod"]}
    ok = any(a == "WS" for a in bws_alts) and any(a == "" or a in empties for a in bws_alts)
    out.append(res("C19:odata_query.grammar.ODataParser.BWS:prod.bws[alternatives]", "prod.bws", ok, t0,
                   f"BWS -> {' | '.join(a or 'empty' for a in bws_alts)}"))
    for p in prods:
        syms = p["prod"]
        for i, s in enumerate(syms):
            want = []
            if s == "(":
                want.append(("after", i + 1))
            if s == ")":
                want.append(("before", i - 1))
            if s in (",", ":"):
                want += [("before", i - 1), ("after", i + 1)]
            for side, j in want:
                good = 0 <= j < len(syms) and syms[j] == "BWS"
                name = f"C19:odata_query.grammar.ODataParser.{p['name']}#{p['number']}:prod.bws[{side} '{s}' @{i}]"
                info = {"production": f"{p['name']} -> {' '.join(syms)}", "number": p["number"], "position": i, "side": side, "literal": s}
                if not good and s in "()" and known_bws(p, i):
                    continue
                out.append(res(name, "prod.bws", good, t0, f"{p['name']} -> {' '.join(syms)}", {"info": info, "prod": info,
                               "source": src_of(p["func"]) if p.get("func") else None}))
        # no action reads a BWS slot
        if p.get("func") and "BWS" in syms:
            tree = pyast.parse("if 1:\n" + p["func"]["source"]) if p["func"]["source"].startswith((" ", "\t")) else pyast.parse(p["func"]["source"])
            bad = []
            for n in pyast.walk(tree):
                if isinstance(n, pyast.Subscript) and isinstance(n.value, pyast.Name) and n.value.id == "p":
                    ix = n.slice
                    if isinstance(ix, pyast.Constant) and isinstance(ix.value, int):
                        k = ix.value if ix.value >= 0 else len(syms) + ix.value
                        if 0 <= k < len(syms) and syms[k] == "BWS":
                            bad.append(f"p[{ix.value}]")
                    elif not isinstance(ix, pyast.Constant):
                        bad.append("p[<computed>]")
                if isinstance(n, pyast.Attribute) and isinstance(n.value, pyast.Name) and n.value.id == "p" and n.attr.startswith("BWS"):
                    bad.append("p." + n.attr)
            out.append(res(f"C19:odata_query.grammar.ODataParser.{p['name']}#{p['number']}:prod.bws[slots]", "prod.bws", not bad, t0,
                           "the action reads no BWS slot" if not bad else "the action reads " + ", ".join(bad),
                           {"source": src_of(p["func"])}))
    return out


def known_bws(p, i):
    ids = {f["id"] for f in KNOWN}
    return "C19-empty-call-no-bws" in ids and p["prod"] == ["ODATA_IDENTIFIER", "(", ")"]


# ------------------------------------------------------------------------------------------
def pyval_family(c, facts, kind, timeout, t0):
    E, U, PV = c["E"], c["U"], c["PV"]
    cls = facts.ast_classes[kind]
    m = cls["members"].get("py_val")
    name = f"C19:odata_query.ast.{kind}.py_val:rel.case"
    if m is None:
        return [res(name, "rel.case", True, t0, "the kind has no py_val")]
    tok = [t for t, k in CASE_KINDS.items() if k == kind][0]
    norm, _ = action_normalises(c, facts, tok)
    if norm:
        return [res(name, "rel.case", True, t0, f"the {tok} action stores the case-normalised spelling: both spellings give one .val",
                    {"source": src_of(m)}, backend="lemma (normalising action)")]
    v = z3.Const("val", z3.StringSort())
    node = U.node(kind, U.strv(v))
    holder = {}

    def runner(path):
        holder["n"] = len(path.pc)
        return E.run_function(path, FuncRef(m, defcls=m["definer"]), [Sym(node)])
    rs = explore(E, runner)
    raw_ids = {v.get_id(), z3.simplify(U.strv(v)).get_id()}
    out = []
    for i, (path, oc) in enumerate(rs):
        if oc[0] == "unsupported":
            out.append({"name": name, "clause": "unsupported", "status": "undecided", "seconds": 0.0, "reason": oc[1], "source": src_of(m)})
            continue
        ms = pc_raw_mentions(path, 0, raw_ids)
        if oc[0] == "return":
            ms += value_raw_mentions(E, oc[1], raw_ids)
        out.append(res(name, "rel.case", not ms, t0, "py_val reads .val only under lower()/upper() or through a case-insensitive parser"
                       if not ms else "py_val depends on the raw spelling: " + "; ".join(ms)[:200],
                       {"source": src_of(m), "path": i, "kind": kind, "witness": {"kind": kind}}, backend="pyvc (syntactic dependence)"))
    return out


def backend_family(c, facts, b, kind, timeout, t0):
    E, U, PV = c["E"], c["U"], c["PV"]
    tok = [t for t, k in CASE_KINDS.items() if k == kind][0]
    norm, _ = action_normalises(c, facts, tok)
    is_text = b in TEXT
    cls = Q.VISITORS[b][0] if is_text else O.BACKENDS[b]
    if cls not in facts.classes:
        return [{"name": f"C19:{b}:import", "clause": "unsupported", "status": "undecided", "seconds": 0.0, "reason": f"{cls} could not be imported"}]
    cf = facts.classes[cls]
    handler = cf["members"].get("visit_" + kind) or cf["members"]["generic_visit"]
    name = f"C19:{b}:{handler['qualname']}[{kind}]:rel.case"
    src = src_of(handler)
    if norm:
        return [res(name, "rel.case", True, t0, f"the {tok} action stores the case-normalised spelling: both spellings reach the "
                    "handler as one node", {"source": src, "orm": b, "kind": kind}, backend="lemma (normalising action)")]
    if is_text:
        Q.install_visit_contract(c, b)
        mk_self, alias = Q.make_self(c, b, symbolic_alias=False)
    else:
        O.install(c, b)
    holder = {}
    m = cf["members"]["visit"]

    def runner(path):
        nd, consts = fresh_node(E, path, kind)
        holder["node"], holder["consts"] = nd, consts
        if kind == "Duration":
            env = facts.module_env("odata_query.ast").get("DURATION_PATTERN")
            fm = E.uf("re_fullmatch", z3.StringSort(), z3.StringSort(), z3.BoolSort())
            path.assume(fm(z3.StringVal(env["pattern"]), PV.s(U.field("Duration", "val", nd))))
        path.assume(c["shape"](nd))
        holder["n"] = len(path.pc)
        self_obj = mk_self(path) if is_text else O.make_self(c, b)
        path.ghost["node_under_check"] = nd
        return E.run_function(path, FuncRef(m, defcls=m["definer"]), [self_obj, Sym(nd)], self_val=self_obj)
    try:
        rs = explore(E, runner)
    finally:
        E.attr_models.pop(("*", "*"), None)
    out = []
    for i, (path, oc) in enumerate(rs):
        if oc[0] == "unsupported":
            out.append({"name": name, "clause": "unsupported", "status": "undecided", "seconds": 0.0, "reason": oc[1], "source": src, "path": i})
            continue
        vt = z3.simplify(U.field(kind, "val", holder["node"]))
        raw_ids = {vt.get_id(), z3.simplify(PV.s(vt)).get_id()}
        ms = pc_raw_mentions(path, holder["n"], raw_ids)
        where = "path condition" if ms else ""
        if oc[0] == "return" and oc[1] is not None:
            rv = oc[1]
            if is_text and isinstance(rv, Sym) and E.tag_of(path, rv) == "StrV":
                rv = E.as_sstr(path, rv)
            if is_text and b != "odata" and isinstance(rv, (str, SStr)):
                rm = text_raw_mentions(rv, raw_ids, kind)
            else:
                rm = value_raw_mentions(E, oc[1], raw_ids)
            if rm and (kind, b) in RAW_OK:
                rm = []
            if rm:
                where = (where + " and " if where else "") + "result"
            ms += rm
        ok = not ms
        reason = ("result and path condition read .val only under lower()/upper(), through py_val"
                  + (", or as a token of a case-insensitive target language: " + RAW_OK[(kind, b)] if (kind, b) in RAW_OK else "")) \
            if ok else f"the {where} depends on the raw spelling of the literal: " + "; ".join(sorted(set(ms)))[:200]
        extra = {"source": src, "path": i, "kind": kind, "backend_name": b, "info": {"result": repr(oc[1])[:200] if oc[0] == "return" else oc[0]},
                 "witness": {"kind": kind, "backend": b}}
        if not ok and known_backend(b, kind):
            continue
        out.append(res(name, "rel.case", ok, t0, reason, extra, backend="pyvc (syntactic dependence, 2-safety)"))
    if not out:
        out.append({"name": name + ":excluded", "clause": "excluded", "status": "discharged", "seconds": 0.0,
                    "backend": "known-finding", "reason": "every obligation of this family lies in a recorded finding's region"})
    return out


def known_backend(b, kind):
    ids = {f["id"] for f in KNOWN}
    return "C19-sql-datetime-lowercase-designators" in ids and kind == "DateTime" and b in ("standard", "sqlite", "athena")


# ------------------------------------------------------------------------------------------
BOUNDED = r'''
import json, itertools, datetime
from dateutil.parser import isoparse
bad, n = [], 0
for s in ["1e5", "1.5e-3", "-2E+7", "0.0e0"]:
    for v in {s.lower(), s.upper()}:
        n += 1
        if float(v) != float(s):
            bad.append(["float", v])
base = ["2020-01-02T10:20:30Z", "2020-01-02T10:20Z", "1999-12-31T23:59:59.123456+01:00", "2020-01-02T10:20:30"]
for s in base:
    letters = [i for i, ch in enumerate(s) if ch.isalpha()]
    for mask in itertools.product([0, 1], repeat=len(letters)):
        v = list(s)
        for i, m in zip(letters, mask):
            v[i] = v[i].lower() if m else v[i].upper()
        v = "".join(v)
        n += 1
        try:
            if isoparse(v) != isoparse(s):
                bad.append(["isoparse", v])
        except Exception as ex:
            bad.append(["isoparse", v, type(ex).__name__])
print(json.dumps({"violates": bool(bad), "problems": bad[:5], "cases": n}))
'''


def bounded_case(facts):
    from vc.runner import native_run
    import json
    t0 = time.time()
    nat = native_run(BOUNDED, timeout=120)
    ok = nat.get("violates") is False
    return [{"name": "C19:case-parsers:bounded", "clause": "bounded", "bounded": True,
             "status": "discharged" if ok else ("refuted" if nat.get("violates") else "undecided"),
             "seconds": time.time() - t0, "backend": "native evaluation (bounded, not a proof)",
             "bound": f"float() and dateutil isoparse() on every case assignment of {nat.get('cases')} sample spellings",
             "reason": json.dumps(nat)[:300], "native_script": BOUNDED}]


# ------------------------------------------------------------------------------------------
def replay_spec(facts, r):
    if r.get("native_script") and (r.get("bounded") or r.get("clause") == "rel.case"):
        return {"native_script": r["native_script"], "input_text": r.get("bound"), "required": "equal values for both spellings"}
    clause = r.get("clause")
    if clause in ("regex.op", "regex.opshadow", "regex.ws", "regex.kw") and (r.get("witness") or {}).get("text") is not None:
        w = r["witness"]["text"]
        tok = r.get("token")
        script = f"""
import json
from odata_query.grammar import ODataLexer
w = {w!r}
text = ("a" + w + "b") if {clause!r} in ("regex.op", "regex.opshadow") and {tok!r} != "NOT" else ((w + "b") if {tok!r} == "NOT" else w)
try:
    toks = [(t.type, str(t.value)) for t in ODataLexer().tokenize(text)]
    err = None
except Exception as ex:
    toks, err = None, type(ex).__name__
types = [t for t, _ in toks] if toks else []
want = {tok!r}
ok = toks is not None and want in types and (len(toks) == (3 if text != w and want != "NOT" else (2 if want == "NOT" else 1)))
print(json.dumps({{'violates': not ok, 'text': text, 'tokens': toks, 'error': err, 'want': want}}))
"""
        return {"native_script": script, "input_text": w, "required": f"the spelling is one {tok} token"}
    if clause == "regex.wsshadow" and (r.get("witness") or {}).get("text") is not None:
        w = r["witness"]["text"]
        script = f"""
import json
from odata_query.grammar import ODataLexer
w = {w!r}
text = "(" + w
try:
    toks = [(t.type, str(t.value)) for t in ODataLexer().tokenize(text)]
    err = None
except Exception as ex:
    toks, err = None, type(ex).__name__
ok = toks is not None and len(toks) >= 2 and toks[1][0] == "WS"
print(json.dumps({{'violates': not ok and err is None, 'text': text, 'tokens': toks, 'error': err}}))
"""
        return {"native_script": script, "input_text": "(" + w, "required": "optional whitespace before an operand is a WS token"}
    if clause == "prod.bws" and r.get("prod"):
        return bws_replay(r["prod"])
    if clause == "rel.case" and (r.get("witness") or {}).get("kind"):
        return case_replay(r["witness"]["kind"], r["witness"].get("backend"))
    return None


BWS_SAMPLES = {
    ("common_expr", "ODATA_IDENTIFIER ( )"): ("now()", "now( )"),
    ("common_expr", "ODATA_IDENTIFIER ( common_expr )"): ("length(a) eq 1", "length( a ) eq 1"),
    ("common_expr", "ODATA_IDENTIFIER ( named_param )"): ("f.g(a=1)", "f.g( a=1 )"),
    ("common_expr", "ODATA_IDENTIFIER ( list_named_param )"): ("f.g(a=1,b=2)", "f.g( a=1,b=2 )"),
    ("common_expr", "( common_expr )"): ("(a eq 1)", "( a eq 1 )"),
    ("list_expr", "( list_items )"): ("a in (1,2)", "a in ( 1,2 )"),
    ("list_expr", "( common_expr , )"): ("a in (1,)", "a in ( 1 , )"),
    ("list_items", "*"): ("a in (1,2,3)", "a in (1 , 2 , 3)"),
    ("lambda_", "*"): ("xs/any(x:x eq 1)", "xs/any(x : x eq 1)"),
    ("any_expr", "ANY ( )"): ("xs/any()", "xs/any( )"),
    ("any_expr", "ANY ( lambda_ )"): ("xs/any(x:x eq 1)", "xs/any( x:x eq 1 )"),
    ("all_expr", "*"): ("xs/all(x:x eq 1)", "xs/all( x:x eq 1 )"),
    ("list_named_param", "*"): ("f.g(a=1,b=2,c=3)", "f.g(a=1 , b=2 , c=3)"),
}


def bws_replay(info):
    lhs = info["production"].split(" -> ")[0]
    core = " ".join(x for x in info["production"].split(" -> ")[1].split() if x != "BWS")
    pair = BWS_SAMPLES.get((lhs, core)) or BWS_SAMPLES.get((lhs, "*"))
    if not pair:
        return None
    script = f"""
import json
from odata_query.grammar import ODataLexer, ODataParser
def parse(t):
    try:
        return repr(ODataParser().parse(ODataLexer().tokenize(t)))
    except Exception as ex:
        return "!" + type(ex).__name__
a, b = {pair[0]!r}, {pair[1]!r}
ra, rb = parse(a), parse(b)
print(json.dumps({{'violates': ra != rb, 'compact': a, 'spaced': b, 'parsed_compact': ra[:200], 'parsed_spaced': rb[:200]}}))
"""
    return {"native_script": script, "input_text": pair[1], "required": "same AST with and without the optional whitespace"}


CASE_SAMPLES = {"Boolean": ("public eq true", "public eq TRUE"),
                "DateTime": ("published_at gt 2020-01-02T10:20:30Z", "published_at gt 2020-01-02t10:20:30z"),
                "Float": ("rating lt 1.5e3", "rating lt 1.5E3"), "Duration": ("x eq duration'P1DT2H'", "x eq DURATION'p1dt2h'")}


def case_replay(kind, backend):
    a, b = CASE_SAMPLES[kind]
    from contracts.orm_native import ORM_NATIVE
    script = ORM_NATIVE + f"""
import sqlite3
from odata_query.grammar import ODataLexer, ODataParser
from odata_query.sql import AstToSqlVisitor, AstToSqliteSqlVisitor, AstToAthenaSqlVisitor
from odata_query.roundtrip import AstToODataVisitor
backend, kind = {backend!r}, {kind!r}
def parse(t):
    return ODataParser().parse(ODataLexer().tokenize(t))
def lit(tree):
    return tree.right
def out(tree):
    if backend is None:
        return repr(lit(tree).py_val)
    if backend in ("standard", "sqlite", "athena"):
        V = {{"standard": AstToSqlVisitor, "sqlite": AstToSqliteSqlVisitor, "athena": AstToAthenaSqlVisitor}}[backend]
        sql = V().visit(tree)
        if backend == "sqlite":
            # value semantics on SQLite itself: evaluate the literal's expression
            con = sqlite3.connect(":memory:")
            try:
                return repr(con.execute("SELECT " + V().visit(lit(tree))).fetchone()[0])
            except Exception as ex:
                return "sqlite error: " + str(ex)[:80]
        # standard SQL / Trino: keywords and number exponents are case-insensitive, quoted contents are not
        import re
        parts = re.split(r"('(?:[^']|'')*')", sql)
        return "".join(p if p.startswith("'") else p.upper() for p in parts)
    if backend == "odata":
        return repr(parse(AstToODataVisitor().visit(tree)).right.py_val) if hasattr(lit(tree), "py_val") else AstToODataVisitor().visit(tree)
    return repr(compile_sql(backend, tree))
ta, tb = parse({a!r}), parse({b!r})
try:
    oa, ob = out(ta), out(tb)
    err = None
except Exception as ex:
    oa = ob = None
    err = type(ex).__name__ + ": " + str(ex)[:100]
print(json.dumps({{'violates': err is None and oa != ob, 'a': {a!r}, 'b': {b!r}, 'out_a': oa, 'out_b': ob, 'error': err}}))
"""
    return {"native_script": script, "input_text": f"{a}  |  {b}", "required": "both spellings translate to the same result"}


def evidence(facts, results):
    return {"trusted_base": ["vc/automata.py (regular-language decision procedure; CPython sre_parse as regex front end)",
                             "pyvc symbolic executor and Python semantics of DESIGN section 4", "z3 5.1.0"],
            "assumptions": [
                "SLY's scanner applies the master regex with first-match alternation at each position and the LR driver executes the "
                "generated tables (contracts assumed in C05/C06): needed to lift the per-rule / per-production obligations to whole filters",
                "float() and dateutil.parser.isoparse() read their argument case-insensitively (exercised by the bounded family, not proved)",
                "SQL-92, SQLite, Trino and OData read a number's exponent marker case-insensitively",
                "str.upper()/str.lower() are uninterpreted; two spellings that differ only in ASCII letter case have equal upper()/lower() images",
                "GUID hex digits, string contents and field names are content, not keyword spelling (outside the property's list)"],
            "explanation": "operator/keyword rules accept every whitespace run and letter case and are not shadowed; BWS at every optional-"
                           "whitespace position; actions normalise or store raw; raw keyword-bearing values are read case-insensitively by "
                           "py_val and by every backend handler (2-safety by syntactic dependence on lower()/upper())."}


if __name__ == "__main__":
    import sys
    from vc.runner import main
    sys.exit(main(sys.modules[__name__]))
