"""C20 -- Lexer and parser instances are reusable and deterministic.

History independence as a frame argument: `parser.parse(lexer.tokenize(s))` on used instances equals the same call on
fresh ones if
  (A) the driver and the scanner of the installed SLY (which ODataParser / ODataLexer inherit unchanged) write every
      instance field before reading it within one call                                   sly.defuse[...]
      -- definite-assignment analysis with conditional constant propagation (vc/defuse.py) over the *installed source*
         of Parser.parse / Parser.restart / Lexer.tokenize, extracted on every run; the instance state is havocked at
         every `yield`, so interleaved use of one lexer is covered too.  It uses one callee contract:
  (B) the repository's error hooks never return (they raise for every token type, and for end of input)   hooks
  (C) the fields read without a write in the call (_lrtable, _grammar) are class-level tables that no repository
      function and none of the analysed SLY functions writes                              sly.config
  (D) repository callbacks are pure with respect to instance, class and module state: token actions write t.value
      only, production actions write nothing that outlives them (frame clause of the C10 contracts), no function of
      the parsing modules assigns or mutates a module-level object                        frame.action / frame.prod / frame.globals
  (E) AliasRewriter.__init__ builds its table with exactly the supplied lexer / parser when given (instances are
      truthy: neither class defines __bool__ / __len__), and with fresh ones otherwise    init.instances
Bounded, labelled (not counted): table / master-regex / parse digests under k PYTHONHASHSEED values in fresh
processes; random shared-instance histories against fresh instances.
"""
import ast as pyast
import json
import os
import time

import z3

from contracts import grammar_common as G
from vc import defuse as D
from vc.propkit import explore, src_of
from vc.runner import native_run
from vc.symexec import Atom, ExtVal, FuncRef, Obj, SStr

PROPERTY = "C20"
NEEDS_MODULES = ["odata_query.ast", "odata_query.grammar", "odata_query.exceptions", "odata_query.rewrite", "odata_query.visitor"]
KNOWN = []
TIMEOUT = {"quick": 10000, "thorough": 60000}
PARSE_MODULES = ("odata_query.grammar", "odata_query.ast", "odata_query.exceptions", "odata_query.rewrite", "odata_query.visitor")
MUTATORS = {"append", "extend", "insert", "pop", "remove", "clear", "update", "setdefault", "add", "discard", "sort", "reverse",
            "popitem", "__setitem__", "__delitem__"}
SLY_FUNCS = (("Parser.parse", "sly.yacc.Parser.parse"), ("Lexer.tokenize", "sly.lex.Lexer.tokenize"))


def families(facts):
    fams = ["sly.defuse[Parser.parse]", "sly.defuse[Lexer.tokenize]", "sly.config", "hooks", "frame.globals", "frame.fields", "frame.memo", "init.instances"]
    fams += [f"frame.action[{r['name']}]" for r in facts.raw["lexer"]["rules"] if r.get("action")]
    fams += [f"frame.prod[{p['number']}]" for p in facts.raw["parser"]["productions"] if p.get("func")]
    return fams + ["bounded.hashseed", "bounded.histories", "canary"]


def res(name, clause, ok, t0, reason, extra=None, backend="finite-check"):
    r = {"name": name, "clause": clause, "status": "discharged" if ok else "refuted", "seconds": time.time() - t0,
         "backend": backend, "reason": reason}
    if not ok:
        r["solver_output"] = reason
    if extra:
        r.update(extra)
    return r


def sly_analysis(facts, label, source=None, noreturn=("error",)):
    sly = facts.raw["sly"]
    sm = {"restart": D.summarize_method(sly["Parser.restart"]["source"])}
    src = source if source is not None else sly[label]["source"]
    a = D.Analysis(src, noreturn=set(noreturn), summaries=sm if label == "Parser.parse" else {}, methods={"errok"})
    return a.run()


def repo_class_members(facts):
    for cq in (G.LEXER, G.PARSER):
        for name, m in facts.classes[cq]["members"].items():
            if m.get("source") and m.get("definer_repo", True):
                yield cq, name, m


def field_writers(facts, field):
    """repository members of the lexer / parser classes that assign self.<field> or setattr(self, '<field>', ...)"""
    out = []
    for cq, name, m in repo_class_members(facts):
        try:
            tree = facts.fdef(m)
        except Exception:
            continue
        for n in pyast.walk(tree):
            if isinstance(n, pyast.Attribute) and isinstance(n.ctx, (pyast.Store, pyast.Del)) and n.attr == field:
                out.append(f"{cq}.{name}")
            if isinstance(n, pyast.Call) and isinstance(n.func, pyast.Name) and n.func.id in ("setattr", "delattr") and len(n.args) >= 2 \
                    and isinstance(n.args[1], pyast.Constant) and n.args[1].value == field:
                out.append(f"{cq}.{name}")
    return out


def run_family(facts, fam, tier):
    timeout = TIMEOUT[tier]
    t0 = time.time()
    sly = facts.raw["sly"]
    if fam.startswith("sly.defuse["):
        label = fam[len("sly.defuse["):-1]
        qn = dict(SLY_FUNCS)[label]
        try:
            r = sly_analysis(facts, label)
        except D.Unsupported as ex:
            return [{"name": f"C20:{qn}:unsupported", "clause": "unsupported", "status": "undecided", "seconds": 0.0, "reason": str(ex)}]
        out = []
        src = {"file": sly[label]["file"], "sha256": sly[label]["sha256"], "qualname": qn}
        for (ln, col, fld), ok in sorted(r["reads"].items(), key=lambda kv: (kv[0][0], kv[0][1], str(kv[0][2]))):
            if not ok and fld in ("_lrtable", "_grammar"):
                continue        # class-level tables: family sly.config
            out.append(res(f"C20:{qn}:defuse[{fld}@{ln}:{col}]", "frame.defuse", ok, t0,
                           "the read is preceded by a write of the field on every path of the same call" if ok else
                           f"self.{fld} (line {ln} of {label}) may be read before this call has written it: the value left by an earlier call decides",
                           {"source": src, "field": fld, "line": ln, "witness": {"field": fld, "function": label}},
                           backend="definite-assignment analysis with constant propagation"))
        if not out:
            out.append({"name": f"C20:{qn}:cover", "clause": "cover", "status": "undecided", "seconds": 0.0, "selfcheck_failed": True,
                        "reason": "no instance-field read found: the analysis does not see the function"})
        return out
    if fam == "sly.config":
        out = []
        fields = set()
        for label, qn in SLY_FUNCS:
            r = sly_analysis(facts, label)
            fields |= {fld for (ln, col, fld), ok in r["reads"].items() if not ok and fld in ("_lrtable", "_grammar")}
            written = r["writes"]
            for f in sorted(fields & written):
                out.append(res(f"C20:{qn}:frame.config[{f}]", "frame.config", False, t0, f"{label} writes the table field {f}"))
        inst = set(facts.raw["parser"]["instance_dict_keys"]) | set(facts.raw["lexer"]["instance_dict_keys"])
        for f in sorted(fields):
            ws = field_writers(facts, f)
            ok = not ws and f not in inst
            out.append(res(f"C20:odata_query.grammar.ODataParser:frame.config[{f}]", "frame.config", ok, t0,
                           f"{f} is a class-level table: not in a fresh instance's __dict__, written by no repository member and by none of "
                           "the analysed SLY functions" if ok else f"{f} is instance state or is written by {ws}",
                           {"witness": {"field": f}}))
        if not fields:
            out.append({"name": "C20:sly.config:cover", "clause": "cover", "status": "undecided", "seconds": 0.0, "selfcheck_failed": True,
                        "reason": "the driver reads no table field: the analysis does not see the function"})
        return out
    if fam == "canary":
        # must be refuted: the driver without its restart() call reads the state an earlier call left
        src = sly["Parser.parse"]["source"].replace("self.restart()", "pass")
        r = sly_analysis(facts, "Parser.parse", source=src)
        bad = [k for k, ok in r["reads"].items() if not ok and k[2] == "state"]
        good = bool(bad) and "self.restart()" in sly["Parser.parse"]["source"]
        return [{"name": "C20:canary:driver-without-restart-reads-stale-state", "clause": "canary", "seconds": time.time() - t0,
                 "status": "discharged" if good else "undecided", "canary": True, "selfcheck_failed": not good,
                 "reason": f"stale read of self.state found at {bad[:2]}" if good else "canary NOT refuted"}]
    if fam == "frame.globals":
        return frame_globals(facts, t0)
    if fam == "frame.memo":
        return frame_memo(facts, t0)
    if fam == "frame.fields":
        # no instance field is both written (outside __init__) and read by repository members of the lexer / parser: nothing a
        # callback leaves on the instance can reach a later call (the SLY driver reads only what it wrote in the same call)
        W, R = field_traffic(facts)
        star = "*" in W or "*" in R
        live = sorted(set(W) | set(R)) if star and (W and R) else sorted(set(W) & set(R))
        out = []
        for f in live:
            out.append(res(f"C20:odata_query.grammar:frame.fields[{f}]", "frame.fields", False, t0,
                           f"instance field {f} is written or mutated by {sorted(set(W.get(f, W.get('*', []))))} and read by "
                           f"{sorted(set(R.get(f, R.get('*', []))))}: a value left by one call can decide a later one",
                           {"witness": {"field": f}}))
        if not live:
            out.append(res("C20:odata_query.grammar:frame.fields", "frame.fields", True, t0,
                           f"fields written outside __init__: {sorted(W) or 'none'}; fields read: {sorted(R) or 'none'}; no field is both"))
        return out
    if fam == "bounded.hashseed":
        return bounded_hashseed(facts, tier)
    if fam == "bounded.histories":
        return bounded_histories(facts, tier)

    c = G.build(facts)
    if fam == "hooks":
        rs = G.run_error_hooks(c, timeout, "C20")
        return rs
    if fam.startswith("frame.action["):
        tok = fam[len("frame.action["):-1]
        rule = [r for r in facts.raw["lexer"]["rules"] if r["name"] == tok][0]
        rs = G.run_token_action(c, rule, timeout, "C20")
        return dead_stores(facts, [r for r in rs if r["clause"] in ("frame", "post.token", "unsupported", "cover", "safety.raise")])
    if fam.startswith("frame.prod["):
        prod = facts.raw["parser"]["productions"][int(fam[len("frame.prod["):-1])]
        rs = G.run_production(c, prod, timeout, "C20")
        return dead_stores(facts, [r for r in rs if r["clause"] in ("frame", "own.fresh", "unsupported", "cover")])
    if fam == "init.instances":
        return init_instances(c, facts, timeout, t0)
    raise ValueError(fam)


# ------------------------------------------------------------------------------------------
def field_traffic(facts):
    """instance fields that repository members of the lexer / parser classes write or mutate outside __init__ (self.X = ...,
    self.X[k] = ..., self.X.append(...), ...), and those they read (self.X with X not a member of the class); a computed
    getattr/setattr name counts as every field"""
    W, R = {}, {}

    def self_field(e):
        """X if e is self.X or a subscript / attribute chain hanging off self.X"""
        while isinstance(e, (pyast.Subscript, pyast.Attribute)):
            if isinstance(e, pyast.Attribute) and isinstance(e.value, pyast.Name) and e.value.id == "self":
                return e.attr
            e = e.value
        return None
    for cq, name, m in repo_class_members(facts):
        members = facts.classes[cq]["members"]
        try:
            tree = facts.fdef(m)
        except Exception:
            continue
        who = f"{cq}.{name}"
        for n in pyast.walk(tree):
            if isinstance(n, (pyast.Attribute, pyast.Subscript)) and isinstance(n.ctx, (pyast.Store, pyast.Del)):
                f = self_field(n)
                if f is not None and name != "__init__":
                    W.setdefault(f, []).append(who)
            if isinstance(n, pyast.Attribute) and isinstance(n.ctx, pyast.Load) and isinstance(n.value, pyast.Name) and n.value.id == "self":
                if n.attr not in members and not n.attr.startswith("__") and name != "__init__":
                    R.setdefault(n.attr, []).append(who)
            if isinstance(n, pyast.Call) and isinstance(n.func, pyast.Attribute) and n.func.attr in MUTATORS:
                f = self_field(n.func.value)
                if f is not None and f not in members and name != "__init__":
                    W.setdefault(f, []).append(who)
            if isinstance(n, pyast.Call) and isinstance(n.func, pyast.Name) and n.func.id in ("getattr", "hasattr", "setattr", "delattr") \
                    and n.args and isinstance(n.args[0], pyast.Name) and n.args[0].id == "self":
                nm = n.args[1].value if len(n.args) > 1 and isinstance(n.args[1], pyast.Constant) else "*"
                tgt = W if n.func.id in ("setattr", "delattr") else R
                if nm == "*" or nm not in members:
                    tgt.setdefault(nm, []).append(who)
    return W, R


def dead_stores(facts, rs):
    """A callback that stores into an instance field breaks the frame clause, but not the property unless some repository
    code reads that field (the SLY driver and scanner read only what they wrote in the same call: sly.defuse): such
    stores are dead with respect to later calls and are discharged with that reason."""
    if not any(r["clause"] == "frame" and r["status"] == "refuted" for r in rs):
        return rs
    W, R = field_traffic(facts)
    live = sorted(set(W) & set(R)) if "*" not in R and "*" not in W else sorted(W)
    for r in rs:
        if r["clause"] == "frame" and r["status"] == "refuted":
            if not live:
                r["status"] = "discharged"
                r["reason"] = ("the callback stores into instance fields (" + ", ".join(sorted(W)) + ") that no repository code reads and that "
                               "the SLY driver/scanner only reads after writing them in the same call: no later call can observe them")
                r.pop("solver_output", None)
                r.pop("witness", None)
            else:
                r["reason"] = f"instance fields written by one callback and read by another: {live} (readers: {[R.get(x) for x in live]})"
                r["solver_output"] = r["reason"]
    return rs


# ------------------------------------------------------------------------------------------
def frame_globals(facts, t0):
    out = []
    n = 0
    for cq, cf in facts.classes.items():
        if not cq.startswith(PARSE_MODULES):
            continue
        for name, m in cf["members"].items():
            if not m.get("source") or not str(m.get("module", "")).startswith(PARSE_MODULES):
                continue
            n += 1
            out += scan_function(facts, m, f"{cq}.{name}", t0)
    for fq, m in facts.functions.items():
        if str(m.get("module", "")).startswith(PARSE_MODULES) and m.get("source"):
            n += 1
            out += scan_function(facts, m, fq, t0)
    out.append(res("C20:parsing-modules:frame.globals[cover]", "frame.globals", n > 40, t0, f"{n} functions of the parsing modules scanned"))
    return out


def frame_memo(facts, t0):
    """A function of the parsing modules wrapped by a memoising decorator (functools.lru_cache / cache) keeps process-level state
    that outlives every call.  That is history-independent only if the cached values are immutable: a cached *mutable* result
    (a list, dict or set that callers extend) is shared by all later calls -- of every instance."""
    out = []
    n = 0
    seen = set()

    def members():
        for cq, cf in facts.classes.items():
            if cq.startswith(PARSE_MODULES):
                for name, m in cf["members"].items():
                    if m.get("source") and str(m.get("module", "")).startswith(PARSE_MODULES):
                        yield f"{cq}.{name}", m
        for fq, m in facts.functions.items():
            if str(m.get("module", "")).startswith(PARSE_MODULES) and m.get("source"):
                yield fq, m
    for label, m in members():
        if m.get("sha256") in seen:
            continue
        seen.add(m.get("sha256"))
        n += 1
        w = m.get("wrapper") or {}
        memo = bool(w.get("builtin")) and "lru_cache" in str(w.get("qualname", "")).lower() or "functools" in str(w.get("qualname", "")) and w.get("builtin")
        # decorators visible in the source as well (e.g. @cache, @lru_cache(...), @cached_property)
        try:
            tree = facts.fdef(m)
            decos = [pyast.unparse(d) for d in getattr(tree, "decorator_list", [])]
        except Exception:
            tree, decos = None, []
        memo = memo or any(x in d for d in decos for x in ("lru_cache", "functools.cache", "cached_property")) or any(d in ("cache",) for d in decos)
        if not memo:
            continue
        mutable = False
        why = ""
        if tree is not None:
            ret = pyast.unparse(tree.returns) if getattr(tree, "returns", None) is not None else ""
            if any(x in ret for x in ("List", "list", "Dict", "dict", "Set", "set")):
                mutable, why = True, f"return annotation {ret}"
            for nd in pyast.walk(tree):
                if isinstance(nd, pyast.Return) and isinstance(nd.value, (pyast.List, pyast.Dict, pyast.Set, pyast.ListComp, pyast.DictComp, pyast.SetComp)):
                    mutable, why = True, "returns a list / dict / set display"
        out.append(res(f"C20:{label}:frame.memo", "frame.memo", not mutable, t0,
                       "memoised, results immutable (shared values cannot be changed by a caller)" if not mutable else
                       f"memoised by {w.get('qualname') or decos} and its result is mutable ({why}): every later call, on every instance, shares the object",
                       {"source": src_of(m), "witness": {"function": label}}))
    out.append(res("C20:parsing-modules:frame.memo[cover]", "frame.memo", n > 40, t0, f"{n} functions of the parsing modules scanned for memoising decorators"))
    return out


def read_elsewhere(facts, names, but):
    for cq, cf in facts.classes.items():
        if not cq.startswith(PARSE_MODULES):
            continue
        for nm, mm in cf["members"].items():
            if mm is but or not mm.get("source") or mm.get("sha256") == but.get("sha256"):
                continue
            if any(x in mm["source"] for x in names):
                return True
    for fq, mm in facts.functions.items():
        if mm is not but and mm.get("source") and mm.get("sha256") != but.get("sha256") and any(x in mm["source"] for x in names):
            return True
    return False


def scan_function(facts, m, label, t0):
    try:
        tree = facts.fdef(m)
    except Exception as ex:
        return [{"name": f"C20:{label}:unsupported", "clause": "unsupported", "status": "undecided", "seconds": 0.0, "reason": f"no source: {ex}"}]
    env = facts.module_env(m["module"])
    local = set()
    for n in pyast.walk(tree):
        if isinstance(n, pyast.arg):
            local.add(n.arg)
        if isinstance(n, pyast.Name) and isinstance(n.ctx, pyast.Store):
            local.add(n.id)
    glob_decl = set()
    for n in pyast.walk(tree):
        if isinstance(n, (pyast.Global, pyast.Nonlocal)):
            glob_decl |= set(n.names)
    bad = []
    for g in glob_decl:
        if g in env:
            bad.append(f"global {g}")

    def base_name(e):
        while isinstance(e, (pyast.Attribute, pyast.Subscript)):
            e = e.value
        return e.id if isinstance(e, pyast.Name) else None

    def is_module_object(nm):
        if nm is None or nm in local - glob_decl or nm not in env:
            return False
        d = env[nm]
        return d.get("k") in ("dict", "list", "set", "module", "class", "opaque", "callable")
    for n in pyast.walk(tree):
        if isinstance(n, (pyast.Attribute, pyast.Subscript)) and isinstance(n.ctx, (pyast.Store, pyast.Del)):
            b = base_name(n)
            if is_module_object(b):
                bad.append(f"line {n.lineno}: writes into module-level object {b}")
        if isinstance(n, pyast.Call) and isinstance(n.func, pyast.Attribute) and n.func.attr in MUTATORS:
            b = base_name(n.func.value)
            if is_module_object(b) and env[b].get("k") in ("dict", "list", "set"):
                bad.append(f"line {n.lineno}: {b}.{n.func.attr}(...) mutates a module-level object")
        if isinstance(n, pyast.Call) and isinstance(n.func, pyast.Name) and n.func.id in ("setattr", "delattr") and n.args:
            b = base_name(n.args[0])
            if is_module_object(b) or (b in ("cls",)):
                bad.append(f"line {n.lineno}: {n.func.id} on {b}")
    if bad:
        # a mutated object that nothing reads cannot carry history
        names = {b.split()[-1] for b in bad if "module-level object" in b} | {b.split()[2].split(".")[0] for b in bad if "mutates" in b}
        loads = 0
        for n in pyast.walk(tree):
            if isinstance(n, pyast.Name) and isinstance(n.ctx, pyast.Load) and n.id in names:
                loads += 1
        if not any(b.startswith("global") or "setattr" in b or "delattr" in b for b in bad) and loads <= len(bad) and not read_elsewhere(facts, names, m):
            bad = []
    return [res(f"C20:{label}:frame.globals", "frame.globals", not bad, t0,
                "assigns / mutates no module-level or class-level object" if not bad else "; ".join(bad)[:300],
                {"source": src_of(m), "witness": {"function": label}})]


# ------------------------------------------------------------------------------------------
def init_instances(c, facts, timeout, t0, prefix="C20", clause="init.instances", fields=None):
    """`fields`: a set that receives the names of all instance fields the constructor stores (any path)."""
    E = c["E"]
    cls = "odata_query.rewrite.AliasRewriter"
    m = facts.classes[cls]["members"]["__init__"]
    out = []
    # supplied instances are truthy: neither class (nor SLY's bases) defines __bool__ / __len__
    for cq in (G.LEXER, G.PARSER):
        mem = facts.classes[cq]["members"]
        bad = [x for x in ("__bool__", "__len__") if x in mem]
        out.append(res(f"{prefix}:{cq}:init.truthy", "init.truthy", not bad, t0,
                       "instances are truthy (no __bool__ / __len__ on the MRO)" if not bad else f"defines {bad}: `if not lexer` may discard a supplied instance"))

    def hook(E, path, frame, e, it):
        if repr(it) != "<call>(getattr(<aliases>(), 'items'))":
            # only the comprehension over the supplied alias map is modelled (its keys and values are strings)
            from vc.symexec import Unsupported
            raise Unsupported(f"dict comprehension over {repr(it)[:80]} in the constructor")
        g = e.generators[0]
        sub = frame.child()
        k, v = z3.String("k"), z3.String("v")
        E.assign(path, sub, g.target, (SStr([Atom(k, ("term",))]), SStr([Atom(v, ("term",))])))
        kv = E.eval(path, sub, e.key)
        vv = E.eval(path, sub, e.value)
        return ExtVal("<dictcomp>", [it, kv, vv])

    def k_tok(E, path, fref, args, kwargs):
        return ExtVal("tokenize", list(args))

    def k_parse(E, path, fref, args, kwargs):
        return ExtVal("parse", list(args))
    saved = (dict(E.ext_models), dict(E.contracts))
    E.ext_models["<dictcomp>"] = hook
    for qn in ("sly.lex.Lexer.tokenize", G.LEXER + ".tokenize"):
        E.contracts[qn] = k_tok
    for qn in ("sly.yacc.Parser.parse", G.PARSER + ".parse"):
        E.contracts[qn] = k_parse
    try:
        for case, lexv, parv in (("both supplied", ExtVal("<lexer>"), ExtVal("<parser>")), ("none supplied", None, None),
                                 ("lexer supplied", ExtVal("<lexer>"), None), ("parser supplied", None, ExtVal("<parser>"))):
            holder = {}

            def runner(path, lexv=lexv, parv=parv):
                self_obj = Obj(cls, {})
                holder["self"] = self_obj
                return E.run_function(path, FuncRef(m, defcls=cls), [self_obj, ExtVal("<aliases>"), lexv, parv], self_val=self_obj)
            rs = explore(E, runner)
            for i, (path, oc) in enumerate(rs):
                name = f"{prefix}:{cls}.__init__[{case}]:{clause}"
                if fields is not None:
                    fields.update(holder["self"].attrs)
                if oc[0] != "return":
                    out.append({"name": name, "clause": clause, "status": "refuted" if oc[0] == "raise" else "undecided",
                                "seconds": 0.0, "reason": str(oc)[:200], "source": src_of(m), "path": i,
                                "solver_output": str(oc)[:200], "witness": {"case": case}})
                    continue
                pcs = " ".join(str(x) for x in path.pc)
                # a supplied instance is used unless it is falsy (excluded by init.truthy)
                falsy = "Not(ext_truthy" in pcs
                if falsy:
                    continue
                rep = holder["self"].attrs.get("replacements")
                fa = holder["self"].attrs.get("field_aliases")

                def P(x):
                    lx = "<call>(getattr(<lexer>(), 'tokenize'), %s)" if lexv is not None else "tokenize(<fresh ODataLexer>, %s)"
                    pr = "<call>(getattr(<parser>(), 'parse'), %s)" if parv is not None else "parse(<fresh ODataParser>, %s)"
                    return pr % (lx % x)
                want = "<dictcomp>(<call>(getattr(<aliases>(), 'items')), %s, %s)" % (P("SStr(<term:k>)"), P("SStr(<term:v>)"))
                import re as _re
                # a fresh instance is a fresh instance whatever its constructor stores on it
                got = _re.sub(r"Obj\((ODataLexer|ODataParser), \{[^{}]*(?:\{[^{}]*\}[^{}]*)*\}\)", r"<fresh \1>", repr(rep))
                ok = got == want and repr(fa) == "<aliases>()"
                out.append(res(name, clause, ok, t0,
                               "replacements = {P(k): P(v)} with P = parse of the " + ("supplied" if parv is not None else "fresh") +
                               " parser over tokenize of the " + ("supplied" if lexv is not None else "fresh") + " lexer" if ok else
                               f"replacements = {got}; expected {want}", {"source": src_of(m), "path": i, "witness": {"case": case}},
                               backend="pyvc (term comparison)"))
    finally:
        E.ext_models.clear()
        E.ext_models.update(saved[0])
        E.contracts.clear()
        E.contracts.update(saved[1])
    return out


# ------------------------------------------------------------------------------------------
DIGEST = r'''
import hashlib, json, sys
from odata_query.grammar import ODataLexer, ODataParser
from odata_query.rewrite import AliasRewriter
h = hashlib.sha256()
h.update(ODataLexer._master_re.pattern.encode())
t = ODataParser._lrtable
h.update(repr(sorted((s, sorted(a.items())) for s, a in t.lr_action.items())).encode())
h.update(repr(sorted((s, sorted(a.items())) for s, a in t.lr_goto.items())).encode())
h.update(repr([(p.name, tuple(p.prod)) for p in ODataParser._grammar.Productions]).encode())
for text in BATTERY:
    try:
        r = repr(ODataParser().parse(ODataLexer().tokenize(text)))
    except Exception as ex:
        r = type(ex).__name__ + ":" + str(ex)
    h.update(r.encode())
rw = AliasRewriter({"a": "b/c", "x/y": "z", "n": "length(m)"})
h.update(repr(sorted((repr(k), repr(v)) for k, v in rw.replacements.items())).encode())
print(h.hexdigest())
'''
BATTERY = ["a eq 1", "a eq 1 and b ne 'x' or not (c lt 2)", "a in (1, 2, 3)", "xs/any(x: x/y eq 1)", "f.g(a=1, b=2)",
           "contains(tolower(name), 'x') eq true", "a eq", "a eq 'unterminated", "length(a, b) eq 1", "nosuchfunc(a)", "a/b/c/d eq null",
           "-a add 3 mul (b sub 1) div 2 mod 5 ge 0", "d gt 2020-01-02T10:20:30Z", "x eq duration'P1DT2H'", "a eq 1 ? 2",
           "Name eq 1", "a eq Name", "matchesPattern(a, 'x')", "matchespattern(a, 'x')", "Geo.Length(x) gt 1", "geo.length(x) gt 1",
           "a eq 1 and", "xs/all(x: x/Name eq Name)", "now() gt d", "now( ) gt d",
           "geo.distance(a, b) lt 5", "distance(a, b) lt 5", "geo.contains(a, 'x')", "contains(a, 'x')", "substring(a, 1)", "geo.substring(a, 1, 2, 3)",
           "x/b/c eq 1", "y/b/c/e eq 2", "a/b/c eq null", "xs/any(x: x/b/c/d eq 1)", "q/b eq 1",
           # two different errors in one input: the first one met aborts the parse, whatever was noted for the other must not survive
           "nosuchfunc(1) eq", "substring('a') and (", "nosuchfunc(1) eq #", "now(1) )", "xs/any(x: nosuchfunc(x) eq", "a in (1, length(a, b), #"]


def bounded_hashseed(facts, tier):
    import subprocess
    from vc.runner import VENV_PY, REPO_ROOT
    t0 = time.time()
    seeds = ["0", "1", "2", "3"] if tier == "quick" else [str(i) for i in range(32)]
    script = f"import sys; sys.path.insert(0, {REPO_ROOT!r})\nBATTERY = {BATTERY!r}\n" + DIGEST
    digests = {}
    errs = []
    for s in seeds:
        env = dict(os.environ, PYTHONHASHSEED=s, PYTHONDONTWRITEBYTECODE="1")
        env.pop("DJANGO_SETTINGS_MODULE", None)
        p = subprocess.run([VENV_PY, "-c", script], capture_output=True, text=True, timeout=300, env=env, cwd=REPO_ROOT)
        if p.returncode != 0:
            errs.append(p.stderr[-300:])
        else:
            digests[s] = p.stdout.strip().splitlines()[-1]
    distinct = sorted(set(digests.values()))
    ok = not errs and len(distinct) == 1
    native = "import json\nprint(json.dumps({'violates': %s, 'digests': %r}))" % ("True" if len(distinct) > 1 else "False", digests)
    return [{"name": "C20:hashseed:bounded", "clause": "bounded", "bounded": True,
             "status": "discharged" if ok else ("refuted" if len(distinct) > 1 else "undecided"), "seconds": time.time() - t0,
             "backend": "fresh processes under different PYTHONHASHSEED (bounded, not a proof)",
             "bound": f"{len(seeds)} hash seeds; digest of master regex, LR action/goto tables, production list, {len(BATTERY)} parse results and an alias table",
             "reason": json.dumps({"distinct_digests": len(distinct), "errors": errs[:1]})[:300], "native_script": native}]


HISTORIES = r'''
import json, random
from odata_query.grammar import ODataLexer, ODataParser
rnd = random.Random(SEED)
def run(lexer, parser, text):
    try:
        return repr(parser.parse(lexer.tokenize(text)))
    except Exception as ex:
        return type(ex).__name__ + ":" + str(ex)
# the reference for every input comes from a process that has parsed nothing else (state shared at module or class level would
# poison same-process "fresh" instances too)
import subprocess, sys
from concurrent.futures import ThreadPoolExecutor
REF = """
import sys
from odata_query.grammar import ODataLexer, ODataParser
t = sys.argv[1]
try:
    print(repr(ODataParser().parse(ODataLexer().tokenize(t))))
except Exception as ex:
    print(type(ex).__name__ + ":" + str(ex))
"""
def ref(t):
    p = subprocess.run([sys.executable, "-c", REF, t], capture_output=True, text=True)
    return p.stdout.rstrip("\n")
with ThreadPoolExecutor(8) as ex:
    fresh = dict(zip(BATTERY, ex.map(ref, BATTERY)))
bad, n = [], 0
for h in range(COUNT):
    lexer, parser = ODataLexer(), ODataParser()
    other = (ODataLexer(), ODataParser())
    hist = [rnd.choice(BATTERY) for _ in range(rnd.randint(1, 6))]
    for t in hist:
        if rnd.random() < 0.3:
            run(other[0], other[1], rnd.choice(BATTERY))      # interleaved use of other instances
        if rnd.random() < 0.2:
            g = lexer.tokenize(rnd.choice(BATTERY))             # an abandoned, partly consumed token stream
            try:
                next(g)
            except Exception:
                pass
        run(lexer, parser, t)
    probe = rnd.choice(BATTERY)
    n += 1
    got = run(lexer, parser, probe)
    if got != fresh[probe]:
        bad.append([hist, probe, got[:120], fresh[probe][:120]])
print(json.dumps({"violates": bool(bad), "problems": bad[:3], "histories": n}))
'''


def bounded_histories(facts, tier):
    t0 = time.time()
    seed = int(os.environ.get("VERIF_SEED", "0") or 0)
    count = 300 if tier == "quick" else 5000
    script = f"BATTERY = {BATTERY!r}\nSEED = {seed}\nCOUNT = {count}\n" + HISTORIES
    nat = native_run(script, timeout=900)
    ok = nat.get("violates") is False
    return [{"name": "C20:histories:bounded", "clause": "bounded", "bounded": True,
             "status": "discharged" if ok else ("refuted" if nat.get("violates") else "undecided"), "seconds": time.time() - t0,
             "backend": "native shared-instance histories vs fresh instances (bounded, not a proof)",
             "bound": f"{nat.get('histories')} random histories (length <= 6, seed {seed}) over {len(BATTERY)} inputs incl. syntax, tokenising and "
                      "function errors, interleaved with other instances and abandoned token streams",
             "reason": json.dumps(nat)[:300], "native_script": script}]


def replay_spec(facts, r):
    if r.get("bounded") and r.get("native_script"):
        return {"native_script": r["native_script"], "input_text": r.get("bound"), "required": "same result as fresh instances / same digest"}
    w = r.get("witness") or {}
    if r.get("clause") in ("frame", "frame.fields", "frame.globals", "frame.memo", "frame.defuse", "frame.config", "post.raise", "own.fresh"):
        # a frame violation shows as a history dependence: search shared-instance histories natively
        seed = int(os.environ.get("VERIF_SEED", "0") or 0)
        script = f"BATTERY = {BATTERY!r}\nSEED = {seed}\nCOUNT = 3000\n" + HISTORIES
        return {"native_script": script, "input_text": "random shared-instance histories", "required": "same result as fresh instances"}
    if r.get("clause") == "init.instances":
        script = """
import json
from odata_query.grammar import ODataLexer, ODataParser
from odata_query.rewrite import AliasRewriter
calls = {"l": 0, "p": 0}
l, p = ODataLexer(), ODataParser()
_tok, _parse = l.tokenize, p.parse
def tok(text, *a, **k):
    calls["l"] += 1
    return _tok(text, *a, **k)
def parse(tokens):
    calls["p"] += 1
    return _parse(tokens)
l.tokenize, p.parse = tok, parse
rw = AliasRewriter({"a": "b/c", "x": "y"}, lexer=l, parser=p)
ref = AliasRewriter({"a": "b/c", "x": "y"})
ok = calls["l"] == 4 and calls["p"] == 4 and rw.replacements == ref.replacements
print(json.dumps({'violates': not ok, 'lexer_calls': calls['l'], 'parser_calls': calls['p']}))
"""
        return {"native_script": script, "input_text": "AliasRewriter(aliases, lexer=l, parser=p)", "required": "the supplied instances do all the parsing"}
    return None


def evidence(facts, results):
    sly = facts.raw["sly"]
    return {"trusted_base": ["vc/defuse.py (definite assignment + conditional constant propagation over Python source)",
                             "pyvc symbolic executor and Python semantics of DESIGN section 4", "z3 5.1.0"],
            "assumptions": [
                f"SLY {sly.get('version')} as installed: the analysed sources are sly.yacc.Parser.parse/restart and sly.lex.Lexer.tokenize "
                f"(sha256 {sly['Parser.parse']['sha256'][:12]}, {sly['Lexer.tokenize']['sha256'][:12]}); other SLY methods are not called by the repository",
                "objects SLY allocates per call (YaccProduction, YaccSymbol, Token, local stacks) are fresh; the closures tokenize() stores on "
                "the instance (mark/accept/reject/__set_state) are not called by the repository (frame families: callbacks call no method of self "
                "other than the helpers under contract)",
                "calls other than self.error / self.restart leave instance fields alone: for repository callbacks this is the frame clause "
                "proved here; for library calls (re, list methods) it is assumed",
                "table construction at import time (SLY metaclasses over ordered class bodies, set-typed `tokens` / `literals`) is covered by the "
                "bounded hash-seed family only",
                "process-level interleaving of *different* instances cannot interfere because no module-level or class-level object is written "
                "(frame.globals); threads are outside the property"],
            "explanation": "frame argument: every instance field read by the SLY driver/scanner is written earlier in the same call (error hooks "
                           "never return), table fields are never written, repository callbacks are pure, AliasRewriter uses the supplied pair."}


if __name__ == "__main__":
    import sys
    from vc.runner import main
    sys.exit(main(sys.modules[__name__]))
