"""Shared contracts of the grammar callbacks (C05, C10, C11, C16, C20): nonterminal invariants
(DESIGN appendix A), the node each production must build, the `_function_call` contract against an
independent copy of the OData function table, and the path helpers."""
import z3

from vc import stdmodels
from vc.deffun import DefFun
from vc.propkit import explore, judge, outcomes_to_results, src_of, summarize, is_lib_exc, ERR_PREFIX
from vc.speclib import Specs, SeqLoopInvariant, EXPR_KINDS, PATH_KINDS, check_shape_table
from vc.symexec import (Engine, FuncRef, Obj, Sym, ListObj, Unsupported, SStr, Atom, ExcVal, Raised)

PARSER = "odata_query.grammar.ODataParser"
LEXER = "odata_query.grammar.ODataLexer"

# OData 4.01 part 2, 5.1.1.5 - 5.1.1.13 (+ set functions): (min, max) number of arguments.
# Written independently of odata_query.grammar.ODATA_FUNCTIONS; the tree's table is checked against it.
ARITY_TABLE = {
    "concat": (2, 2), "contains": (2, 2), "endswith": (2, 2), "indexof": (2, 2), "length": (1, 1),
    "startswith": (2, 2), "substring": (2, 3), "matchesPattern": (2, 2), "tolower": (1, 1), "toupper": (1, 1),
    "trim": (1, 1),
    "year": (1, 1), "month": (1, 1), "day": (1, 1), "hour": (1, 1), "minute": (1, 1), "second": (1, 1),
    "fractionalseconds": (1, 1), "totalseconds": (1, 1), "date": (1, 1), "time": (1, 1),
    "totaloffsetminutes": (1, 1), "mindatetime": (0, 0), "maxdatetime": (0, 0), "now": (0, 0),
    "round": (1, 1), "floor": (1, 1), "ceiling": (1, 1),
    "geo.distance": (2, 2), "geo.length": (1, 1), "geo.intersects": (2, 2),
    "hassubset": (2, 2), "hassubsequence": (2, 2),
}

# token type -> node kind of its semantic value (the token-action contract, proved in C06/C10)
TOKEN_KIND = {
    "ODATA_IDENTIFIER": "Identifier", "NULL": "Null", "STRING": "String", "GEOGRAPHY": "Geography", "GUID": "GUID",
    "DATETIME": "DateTime", "DATE": "Date", "TIME": "Time", "DURATION": "Duration", "DECIMAL": "Float",
    "INTEGER": "Integer", "BOOLEAN": "Boolean", "ADD": "Add", "SUB": "Sub", "MUL": "Mult", "DIV": "Div", "MOD": "Mod",
    "UMINUS": "USub", "AND": "And", "OR": "Or", "NOT": "Not", "EQ": "Eq", "NE": "NotEq", "LT": "Lt", "LE": "LtE",
    "GT": "Gt", "GE": "GtE", "IN": "In", "ANY": "Any", "ALL": "All",
}
BINOP_CLASS = {"ADD": "BinOp", "SUB": "BinOp", "MUL": "BinOp", "DIV": "BinOp", "MOD": "BinOp",
               "EQ": "Compare", "NE": "Compare", "LT": "Compare", "LE": "Compare", "GT": "Compare", "GE": "Compare",
               "IN": "Compare", "AND": "BoolOp", "OR": "BoolOp"}
MEMBER_NTS = ("member_expr", "first_member_expr", "property_path_expr", "single_navigation_expr")
MEMBER_KINDS = ["Identifier", "Attribute", "CollectionLambda"]

_CTX = {}


class ProdObj:
    """Model of sly.yacc.YaccProduction for one rule: p[i] and p.<name> exactly as SLY resolves them
    (name -> index table extracted from SLY's own accessor functions)."""
    sym_mro = ["sly.yacc.YaccProduction", "builtins.object"]

    def __init__(self, prod, slots):
        self.prod = prod
        self.slots = slots

    def sym_getitem(self, E, path, k):
        if not isinstance(k, int):
            raise Unsupported("p[<symbolic>]")
        if k < 0:
            raise Unsupported("negative production index (parser stack access)")
        if k >= len(self.slots):
            E.throw(path, "IndexError", "list index out of range")
        return self.slots[k]

    def sym_getattr(self, E, path, name):
        idx = self.prod["name_index"].get(name)
        if idx is None:
            E.throw(path, "AttributeError", f"No symbol {name}")
        return self.slots[idx]


class TokObj:
    """Model of sly.lex.Token inside a token action: `value` starts as the matched text."""
    sym_mro = ["sly.lex.Token", "builtins.object"]

    def __init__(self, ttype, text):
        self.attrs = {"type": ttype, "value": text, "lineno": 1, "index": 0, "end": 0}
        self.writes = []

    def sym_getattr(self, E, path, name):
        if name in self.attrs:
            return self.attrs[name]
        E.throw(path, "AttributeError", name)

    def sym_setattr(self, E, path, name, v):
        self.attrs[name] = v
        self.writes.append(name)


def build(facts):
    if "c" in _CTX:
        return _CTX["c"]
    E = Engine(facts)
    stdmodels.install(E)
    S = Specs(E.U)
    U, PV = E.U, E.U.PV
    shape = S.shape()
    fld = U.field

    def fullname(func):
        return U.str_join(z3.StringVal("."), z3.Concat(PV.titems(fld("Identifier", "namespace", func)),
                                                       z3.Unit(fld("Identifier", "name", func))))

    def builtin_ns(func):
        ns = PV.titems(fld("Identifier", "namespace", func))
        return z3.Or(ns == z3.Empty(U.Seq), ns == z3.Unit(U.strv("geo")))

    def in_table(name):
        return z3.Or(*[name == z3.StringVal(k) for k in ARITY_TABLE])

    def arity_ok(name, n):
        return z3.Or(*[z3.And(name == z3.StringVal(k), n >= lo, n <= hi) for k, (lo, hi) in ARITY_TABLE.items()])

    def lo_of(name):
        t = z3.IntVal(-1)
        for k, (lo, hi) in ARITY_TABLE.items():
            t = z3.If(name == z3.StringVal(k), z3.IntVal(lo), t)
        return t

    def hi_of(name):
        t = z3.IntVal(-1)
        for k, (lo, hi) in ARITY_TABLE.items():
            t = z3.If(name == z3.StringVal(k), z3.IntVal(hi), t)
        return t

    # prepend_path(first, rest): first/rest as a left-nested path that keeps `first` as its root identifier
    def prepend_body(first, rest):
        return z3.If(U.is_kind("Attribute", rest),
                     U.node("Attribute", prepend(first, fld("Attribute", "owner", rest)), fld("Attribute", "attr", rest)),
                     U.node("Attribute", first, fld("Identifier", "name", rest)))
    prepend = DefFun("prepend_path", [PV, PV], PV, prepend_body, cheap=True)

    # build_path(owner, steps): left fold  Attribute(...Attribute(owner, s0)..., sn)
    def build_body(owner, q):
        n = z3.Length(q)
        return z3.If(n == 0, owner, build_path(U.node("Attribute", owner, q[0]), z3.SubSeq(q, 1, n - 1)))
    build_path = DefFun("build_path", [PV, U.Seq], PV, build_body, cheap=True)

    # flat(p): the step names of a path, root first (spec side of _explode_attr)
    def flat_body(p):
        return z3.If(U.is_kind("Attribute", p),
                     z3.Concat(flat(fld("Attribute", "owner", p)), z3.Unit(fld("Attribute", "attr", p))),
                     z3.Unit(fld("Identifier", "name", p)))
    flat = DefFun("flat", [PV], U.Seq, flat_body, cheap=True)

    c = dict(E=E, S=S, U=U, PV=PV, shape=shape, fullname=fullname, builtin_ns=builtin_ns, in_table=in_table,
             arity_ok=arity_ok, lo_of=lo_of, hi_of=hi_of, prepend=prepend, build_path=build_path, flat=flat, facts=facts)
    _CTX["c"] = c
    return c


# ------------------------------------------------------------------------------------------
# nonterminal invariants
# ------------------------------------------------------------------------------------------
def node_inv(c, t, kinds):
    U = c["U"]
    return z3.And(U.is_node(t, kinds), c["shape"](t))


def make_slot(c, path, sym, i, facts):
    """Value of production slot i holding `sym`, with its invariant assumed on `path`."""
    E, U, PV = c["E"], c["U"], c["PV"]
    terms = facts.raw["parser"]["terminals"]
    if sym in TOKEN_KIND:
        v = z3.Const(f"s{i}", PV)
        path.assume(node_inv(c, v, [TOKEN_KIND[sym]]))
        return Sym(v)
    if sym == "WS":
        return SStr([Atom(z3.Const(f"s{i}_ws", z3.StringSort()), ("term",))])
    if len(sym) == 1 and not sym.isalnum():
        return sym                                   # literal character token: its value is the character
    if sym in ("BWS", "empty"):
        return None
    if sym == "common_expr":
        v = z3.Const(f"s{i}", PV)
        path.assume(node_inv(c, v, EXPR_KINDS))
        return Sym(v)
    if sym == "primitive_literal":
        v = z3.Const(f"s{i}", PV)
        path.assume(node_inv(c, v, [k for k in TOKEN_KIND.values() if k in EXPR_KINDS and k != "Identifier"]))
        return Sym(v)
    if sym == "list_expr":
        v = z3.Const(f"s{i}", PV)
        path.assume(node_inv(c, v, ["List"]))
        path.assume(z3.Length(PV.items(U.field("List", "val", v))) >= 1)
        return Sym(v)
    if sym == "list_items":
        q = z3.Const(f"s{i}_items", U.Seq)
        path.assume(z3.And(c["S"].all_shape(q), z3.Length(q) >= 2, all_expr(c, q)))
        lo = ListObj(q, fresh=True)
        lo.slot_seq = q
        return lo
    if sym == "entity_navigation_property":
        v = z3.Const(f"s{i}", PV)
        path.assume(node_inv(c, v, ["Identifier"]))
        return Sym(v)
    if sym in MEMBER_NTS:
        v = z3.Const(f"s{i}", PV)
        path.assume(node_inv(c, v, MEMBER_KINDS))
        return Sym(v)
    if sym in ("any_expr", "all_expr", "collection_path_expr"):
        op = z3.Const(f"s{i}_op", PV)
        lam = z3.Const(f"s{i}_lam", PV)
        kinds = {"any_expr": ["Any"], "all_expr": ["All"], "collection_path_expr": ["Any", "All"]}[sym]
        path.assume(node_inv(c, op, kinds))
        path.assume(z3.Or(node_inv(c, lam, ["Lambda"]), z3.And(U.is_tag("NoneV", lam), U.is_kind("Any", op))))
        return (Sym(op), Sym(lam))
    if sym == "lambda_":
        v = z3.Const(f"s{i}", PV)
        path.assume(node_inv(c, v, ["Lambda"]))
        return Sym(v)
    if sym == "named_param":
        v = z3.Const(f"s{i}", PV)
        path.assume(node_inv(c, v, ["NamedParam"]))
        return Sym(v)
    if sym == "list_named_param":
        q = z3.Const(f"s{i}_items", U.Seq)
        path.assume(z3.And(c["S"].all_shape(q), z3.Length(q) >= 2, all_named(c, q)))
        lo = ListObj(q, fresh=True)
        lo.slot_seq = q
        return lo
    raise Unsupported(f"no invariant for grammar symbol {sym}")


def _all_kind(c, name, kinds):
    from vc.deffun import AllPred
    U = c["U"]
    key = "allk_" + name
    if key not in c:
        c[key] = AllPred(key, U.Seq, lambda t: U.is_node(t, kinds))
    return c[key]


def all_expr(c, q):
    return _all_kind(c, "expr", EXPR_KINDS)(q)


def all_named(c, q):
    return _all_kind(c, "named", ["NamedParam"])(q)


def inv_goal(c, nt, value):
    """Invariant of nonterminal `nt` as a proof goal about the action's return value."""
    E, U, PV = c["E"], c["U"], c["PV"]
    F = z3.BoolVal(False)
    if nt in ("empty", "BWS"):
        return z3.BoolVal(value is None)
    if nt in ("list_items", "list_named_param"):
        if not isinstance(value, ListObj):
            return F
        q = E.seq_term(value)
        fresh = z3.BoolVal(bool(value.fresh and not value.published))
        elem = all_expr(c, q) if nt == "list_items" else all_named(c, q)
        return z3.And(fresh, c["S"].all_shape(q), z3.Length(q) >= 2, elem)
    if nt in ("any_expr", "all_expr", "collection_path_expr"):
        if not (isinstance(value, tuple) and len(value) == 2):
            return F
        op, lam = E.to_pv(value[0]), E.to_pv(value[1])
        kinds = {"any_expr": ["Any"], "all_expr": ["All"], "collection_path_expr": ["Any", "All"]}[nt]
        return z3.And(node_inv(c, op, kinds),
                      z3.Or(node_inv(c, lam, ["Lambda"]), z3.And(U.is_tag("NoneV", lam), U.is_kind("Any", op))))
    try:
        t = E.to_pv(value)
    except Unsupported:
        return F
    if nt == "common_expr":
        return node_inv(c, t, EXPR_KINDS)
    if nt == "primitive_literal":
        return node_inv(c, t, [k for k in TOKEN_KIND.values() if k in EXPR_KINDS and k != "Identifier"])
    if nt == "list_expr":
        return z3.And(node_inv(c, t, ["List"]), z3.Length(PV.items(U.field("List", "val", t))) >= 1)
    if nt == "entity_navigation_property":
        return node_inv(c, t, ["Identifier"])
    if nt in MEMBER_NTS:
        return node_inv(c, t, MEMBER_KINDS)
    if nt == "lambda_":
        return node_inv(c, t, ["Lambda"])
    if nt == "named_param":
        return node_inv(c, t, ["NamedParam"])
    raise Unsupported(f"no invariant for nonterminal {nt}")


# ------------------------------------------------------------------------------------------
# the node each production must build (OData ABNF -> this library's AST), None = not a value spec
# ------------------------------------------------------------------------------------------
def call_spec(c, func, args_seq):
    """(returns_cond, value) of a function call per the C11 contract."""
    U, PV = c["U"], c["PV"]
    name = c["fullname"](func)
    n = z3.Length(args_seq)
    ok = z3.Or(z3.Not(c["builtin_ns"](func)), c["arity_ok"](name, n))
    return ok, U.node("Call", func, PV.ListV(args_seq))


def expected_value(c, prod, slots):
    """Spec of the action's result as ('pv', term) | ('list', seq) | ('pair', t1, t2) | ('none',) | ('call', func, seq).
    The prescription is stated over the production's symbols with the optional-whitespace non-terminal BWS left out
    (where a production allows whitespace does not change the node it prescribes); `pv(k)` is the k-th remaining slot."""
    E, U, PV = c["E"], c["U"], c["PV"]
    lhs, full = prod["name"], tuple(prod["prod"])
    core = [i for i, sname in enumerate(full) if sname != "BWS"]
    rhs = tuple(full[i] for i in core)
    pv = lambda k: E.to_pv(slots[core[k]])
    slot = lambda k: slots[core[k]]
    if lhs in ("empty", "BWS"):
        return ("none",)
    if lhs == "common_expr":
        if rhs == ("(", "common_expr", ")"):
            return ("pv", pv(1))
        if len(rhs) == 1:
            return ("pv", pv(0))
        if rhs == ("UMINUS", "common_expr"):
            return ("pv", U.node("UnaryOp", pv(0), pv(1)))
        if rhs == ("NOT", "common_expr"):
            return ("pv", U.node("UnaryOp", pv(0), pv(1)))
        if len(rhs) == 3 and rhs[1] in BINOP_CLASS and rhs[0] == "common_expr":
            return ("pv", U.node(BINOP_CLASS[rhs[1]], pv(1), pv(0), pv(2)))
        if rhs == ("ODATA_IDENTIFIER", "(", ")"):
            return ("call", pv(0), z3.Empty(U.Seq))
        if rhs in (("ODATA_IDENTIFIER", "(", "common_expr", ")"), ("ODATA_IDENTIFIER", "(", "named_param", ")")):
            return ("call", pv(0), z3.Unit(pv(2)))
        if rhs == ("ODATA_IDENTIFIER", "list_expr"):
            return ("call", pv(0), PV.items(U.field("List", "val", pv(1))))
        if rhs == ("ODATA_IDENTIFIER", "(", "list_named_param", ")"):
            return ("call", pv(0), slot(2).slot_seq)
    if lhs == "primitive_literal" or lhs in ("first_member_expr", "member_expr", "entity_navigation_property"):
        return ("pv", pv(0))
    if lhs in ("list_items", "list_named_param") and len(rhs) == 3 and rhs[1] == ",":
        if rhs[0] == lhs:
            return ("list", z3.Concat(slot(0).slot_seq, z3.Unit(pv(2))))
        return ("list", z3.Concat(z3.Unit(pv(0)), z3.Unit(pv(2))))
    if lhs == "list_expr":
        if rhs == ("(", "list_items", ")"):
            return ("pv", U.node("List", PV.ListV(slot(1).slot_seq)))
        if rhs == ("(", "common_expr", ",", ")"):
            return ("pv", U.node("List", PV.ListV(z3.Unit(pv(1)))))
    if lhs == "property_path_expr":
        if rhs == ("entity_navigation_property",):
            return ("pv", pv(0))
        if rhs == ("entity_navigation_property", "collection_path_expr"):
            return ("pv", U.node("CollectionLambda", pv(0), E.to_pv(slot(1)[0]), E.to_pv(slot(1)[1])))
        if rhs == ("entity_navigation_property", "single_navigation_expr"):
            s1 = pv(1)
            fld = U.field
            cl = U.node("CollectionLambda", c["prepend"](pv(0), fld("CollectionLambda", "owner", s1)),
                        fld("CollectionLambda", "operator", s1), fld("CollectionLambda", "lambda_", s1))
            return ("pv", z3.If(U.is_kind("CollectionLambda", s1), cl, c["prepend"](pv(0), s1)))
    if lhs == "single_navigation_expr" and rhs == ("/", "member_expr"):
        return ("pv", pv(1))
    if lhs == "collection_path_expr" and len(rhs) == 2 and rhs[0] == "/":
        return ("pair", E.to_pv(slot(1)[0]), E.to_pv(slot(1)[1]))
    if lhs == "lambda_" and rhs == ("ODATA_IDENTIFIER", ":", "common_expr"):
        return ("pv", U.node("Lambda", pv(0), pv(2)))
    if lhs in ("any_expr", "all_expr"):
        if rhs[1:] == ("(", "lambda_", ")"):
            return ("pair", pv(0), pv(2))
        if rhs[1:] == ("(", ")"):
            return ("pair", pv(0), U.none())
    if lhs == "named_param" and rhs == ("ODATA_IDENTIFIER", "=", "common_expr"):
        return ("pv", U.node("NamedParam", pv(0), pv(2)))
    raise Unsupported(f"no value spec for production {lhs} -> {' '.join(full)}")


def value_goal(c, exp, value):
    E, U = c["E"], c["U"]
    F = z3.BoolVal(False)
    if exp[0] == "none":
        return z3.BoolVal(value is None)
    if exp[0] == "pv":
        try:
            return E.to_pv(value) == exp[1]
        except Unsupported:
            return F
    if exp[0] == "list":
        if not isinstance(value, ListObj):
            return F
        return E.seq_term(value) == exp[1]
    if exp[0] == "pair":
        if not (isinstance(value, tuple) and len(value) == 2):
            return F
        return z3.And(E.to_pv(value[0]) == exp[1], E.to_pv(value[1]) == exp[2])
    raise ValueError(exp)


# ------------------------------------------------------------------------------------------
# contracts of helpers used by the actions
# ------------------------------------------------------------------------------------------
def exc_field(E, exc, name):
    v = exc.attrs.get(name)
    return v


def function_call_contract(c):
    """Contract of ODataParser._function_call (proved against the real body in family `_function_call`)."""
    E, U, PV = c["E"], c["U"], c["PV"]

    def contract(E, path, fref, args, kwargs):
        self_val, func, fargs = args[0], args[1], args[2]
        ft = E.to_pv(func)
        if isinstance(fargs, Sym) and E.tag_of(path, fargs) == "ListV":
            fargs = ListObj(PV.items(fargs.term), fresh=False)
        if not isinstance(fargs, ListObj):
            raise Unsupported("_function_call with a non-list argument")
        q = E.seq_term(fargs)
        path.oblige("pre.shape", z3.And(node_inv(c, ft, ["Identifier"]), c["S"].all_shape(q)))
        ok, val = call_spec(c, ft, q)
        name = c["fullname"](ft)
        known = c["in_table"](name)
        k = path.choose([("ok", ok), ("unknown", z3.And(c["builtin_ns"](ft), z3.Not(known))),
                         ("count", z3.And(c["builtin_ns"](ft), known, z3.Not(ok)))])
        fargs.published = True
        if k == 0:
            return E.from_pv(val)
        nm = SStr([Atom(name, ("term",))])
        if k == 1:
            raise Raised(ExcVal("odata_query.exceptions.UnknownFunctionException",
                                facts_mro(c, "UnknownFunctionException"), (nm,), {"function_name": nm}))
        raise Raised(ExcVal("odata_query.exceptions.ArgumentCountException",
                            facts_mro(c, "ArgumentCountException"), (nm,), {"function_name": nm}))
    return contract


def facts_mro(c, name):
    return c["facts"].classes["odata_query.exceptions." + name]["mro"]


def install_helpers(c, explode=True):
    """Contracts for _explode_attr (derived summary) and for _reverse_attributes."""
    E, U, PV, facts = c["E"], c["U"], c["PV"], c["facts"]
    if "explode" in c:
        return
    cf = facts.classes[PARSER]
    fx = cf["members"]["_explode_attr"]
    self_obj = Obj(PARSER)

    # precondition of _explode_attr as the grammar uses it: owner is an identifier or a naive/left-nested
    # attribute, attr is a str or such an attribute -- `naive(a)`
    def naive_body(a):
        owner, attr = U.field("Attribute", "owner", a), U.field("Attribute", "attr", a)
        return z3.And(U.is_kind("Attribute", a),
                      z3.Or(z3.And(U.is_kind("Identifier", owner), c["shape"](owner)), naive(owner)),
                      z3.Or(U.is_tag("StrV", attr), naive(attr)))
    naive = DefFun("naive_attr", [PV], z3.BoolSort(), naive_body, cheap=True)
    c["naive"] = naive

    explode_df, finish = summarize(E, "explode", FuncRef(fx, defcls=fx["definer"]), self_arg=self_obj,
                                   pre=lambda a: naive(a))

    def explode_contract(E, path, fref, args, kwargs):
        t = E.to_pv(args[1])
        path.oblige("pre.naive", naive(t))
        r = explode_df(t)
        path.assume(U.is_tag("ListV", r))
        return ListObj(PV.items(r), fresh=True)
    E.contracts[fx["qualname"]] = explode_contract
    c["explode"] = explode_df
    c["explode_cases"] = finish()[1]

    # Contract of _reverse_attributes as the grammar uses it (first segment + left-nested rest):
    #   requires attr = Attribute(first, rest), first a shaped Identifier, rest a shaped left-nested path
    #   ensures  result == prepend_path(first, rest), a shaped path; raises nothing
    # Its body (list pops and a fold over the exploded names) is NOT proved against this contract: that
    # needs three sequence inductions.  It is covered by the labelled bounded stand-in
    # `bounded._reverse_attributes` (all paths up to 7 segments), and listed under assumptions.
    fr = cf["members"]["_reverse_attributes"]

    def reverse_contract(E, path, fref, args, kwargs):
        t = E.to_pv(args[1])
        first, rest = U.field("Attribute", "owner", t), U.field("Attribute", "attr", t)
        path.oblige("pre.path", z3.And(U.is_kind("Attribute", t), node_inv(c, first, ["Identifier"]),
                                       U.is_kind("Attribute", rest), c["shape"](rest)))
        r = c["prepend"](first, rest)
        path.assume(z3.And(U.is_kind("Attribute", r), c["shape"](r)))
        return Sym(r)
    E.contracts[fr["qualname"]] = reverse_contract


BOUNDED_REVERSE = r"""
import json, itertools
from odata_query import ast
from odata_query.grammar import ODataParser
P = ODataParser()

def left_nested(names):
    p = ast.Identifier(names[0])
    for n in names[1:]:
        p = ast.Attribute(p, n)
    return p

def prepend(first, rest):
    if isinstance(rest, ast.Attribute):
        return ast.Attribute(prepend(first, rest.owner), rest.attr)
    return ast.Attribute(first, rest.name)

problems, n = [], 0
for depth in range(2, BOUND + 1):
    for ns in ((), ('ns',), ('n1', 'n2')):
        for names in itertools.product('ab', repeat=depth):
            first = ast.Identifier('r', ns)
            rest = left_nested(list(names))
            n += 1
            try:
                got = P._reverse_attributes(ast.Attribute(first, rest))
            except Exception as ex:
                problems.append(['r/' + '/'.join(names), type(ex).__name__ + ': ' + str(ex)])
                continue
            if got != prepend(first, rest):
                problems.append(['.'.join(ns + ('r',)) + '/' + '/'.join(names), repr(got)[:200]])
print(json.dumps({'violates': bool(problems), 'cases': n, 'problems': problems[:3]}))
"""


def bounded_reverse(prop, tier):
    """Labelled bounded stand-in for the body of _reverse_attributes / _explode_attr."""
    from vc.runner import native_run
    import time
    bound = 7 if tier == "quick" else 11
    t0 = time.time()
    script = BOUNDED_REVERSE.replace("BOUND", str(bound))
    nat = native_run(script)
    ok = nat.get("violates") is False
    return {"name": f"{prop}:odata_query.grammar.ODataParser._reverse_attributes:bounded", "clause": "bounded",
            "bounded": True, "status": "discharged" if ok else ("refuted" if nat.get("violates") else "undecided"),
            "seconds": time.time() - t0, "backend": "native enumeration (bounded, not a proof)",
            "bound": f"all left-nested paths of 2..{bound} segments over 2 names x 3 root namespaces ({nat.get('cases')} cases)",
            "reason": json_short(nat), "native_script": script}


def json_short(x):
    import json
    return json.dumps(x)[:300]


# ------------------------------------------------------------------------------------------
# obligation families
# ------------------------------------------------------------------------------------------
def prod_label(prod):
    return f"{prod['name']} -> {' '.join(prod['prod']) or '<empty>'}"


def run_production(c, prod, timeout, prop):
    """All obligations of one production action: safety, nonterminal invariant, prescribed node, frame."""
    facts, E, U = c["facts"], c["E"], c["U"]
    func = prod["func"]
    if func is None:
        return []
    install_helpers(c)
    cf = facts.classes[PARSER]
    E.contracts[cf["members"]["_function_call"]["qualname"]] = function_call_contract(c)
    holder = {}

    def runner(path):
        slots = [make_slot(c, path, sym, i, facts) for i, sym in enumerate(prod["prod"])]
        holder["slots"] = slots
        p = ProdObj(prod, slots)
        self_obj = Obj(PARSER)
        holder["self"] = self_obj
        return E.run_function(path, FuncRef(func, defcls=PARSER), [self_obj, p], self_val=self_obj)

    res = explore(E, runner)
    base = f"{prop}:{func['qualname']}[{prod_label(prod)}]"
    slots = holder.get("slots", [])
    is_call = False
    exp = None
    if slots or not prod["prod"]:
        exp = expected_value(c, prod, slots)
        is_call = exp[0] == "call"

    def post(path, v):
        goals = [("post.inv", inv_goal(c, prod["name"], v))]
        if is_call:
            ok, val = call_spec(c, exp[1], exp[2])
            goals.append(("post.value", z3.And(ok, E.to_pv(v) == val)))
        else:
            goals.append(("post.value", value_goal(c, exp, v)))
        goals.append(("frame", z3.BoolVal(not path.ghost.get("writes"))))
        return goals

    def raise_post(path, exc):
        if not is_call or not is_lib_exc(exc):
            return None
        ok, val = call_spec(c, exp[1], exp[2])
        name = c["fullname"](exp[1])
        fn = exc.attrs.get("function_name")
        fn_ok = (fn.term() == name) if isinstance(fn, SStr) else z3.BoolVal(isinstance(fn, str) and False)
        if exc.name == "UnknownFunctionException":
            cond = z3.And(c["builtin_ns"](exp[1]), z3.Not(c["in_table"](name)))
        elif exc.name == "ArgumentCountException":
            cond = z3.And(c["builtin_ns"](exp[1]), c["in_table"](name), z3.Not(ok))
        else:
            cond = z3.BoolVal(False)
        return [("post.raise", z3.And(cond, fn_ok))]

    wt = {}
    for i, sv in enumerate(slots):
        if isinstance(sv, Sym):
            wt[f"s{i}"] = sv.term
        elif isinstance(sv, ListObj) and hasattr(sv, "slot_seq"):
            wt[f"s{i}"] = sv.slot_seq
        elif isinstance(sv, tuple):
            wt[f"s{i}"] = U.tuplev(U.seq([E.to_pv(x) for x in sv]))
    tt = tree_term(c, prod, exp) if exp is not None else None
    if tt is not None:
        wt["tree"] = tt
    out = outcomes_to_results(E, base, src_of(func), res, post, lambda exc: False, wt, timeout, raise_post=raise_post)
    for r in out:
        r["production"] = prod_label(prod)
        r["rhs"] = prod["prod"]
    return out


def tree_term(c, prod, exp):
    """A complete expression whose parse exercises this production with the witness slots: the
    prescribed node itself, or the prescribed fragment wrapped into the smallest enclosing expression."""
    U, PV = c["U"], c["PV"]
    ident = lambda name, ns=(): U.node("Identifier", U.strv(name), U.tuplev(U.seq([U.strv(x) for x in ns])))
    lhs = prod["name"]
    if exp[0] == "none":
        return None
    if exp[0] == "call":
        return U.node("Call", exp[1], PV.ListV(exp[2]))
    if exp[0] == "list":
        if lhs == "list_named_param":
            return U.node("Call", ident("f", ("x",)), PV.ListV(exp[1]))
        return U.node("List", PV.ListV(exp[1]))
    if exp[0] == "pair":
        return U.node("CollectionLambda", ident("items"), exp[1], exp[2])
    t = exp[1]
    if lhs == "named_param":
        return U.node("Call", ident("f", ("x",)), PV.ListV(z3.Unit(t)))
    if lhs == "lambda_":
        return U.node("CollectionLambda", ident("items"), U.node("Any"), t)
    if lhs == "single_navigation_expr":
        return None
    return t


def production_replay_spec(facts, r):
    """Native replay of a production obligation: parse the reference rendering of the witness tree and
    compare with the tree itself (or with the function-table outcome for calls)."""
    from vc.pyval import to_py_source
    from contracts.native_ref import NATIVE_REF
    w = r.get("witness") or {}
    if "tree" not in w or (isinstance(w["tree"], dict) and "?" in w["tree"]):
        return None
    ts = to_py_source(w["tree"])
    script = NATIVE_REF + f"""
import json
from odata_query import exceptions
TABLE = {ARITY_TABLE!r}
try:
    T = sanitize({ts})
    text = ref_render(T)
except Exception as ex:
    print(json.dumps({{'violates': False, 'note': 'witness not renderable: ' + type(ex).__name__ + ': ' + str(ex)}}))
    raise SystemExit(0)

def expected_exc(n):
    # first call (in parse order: innermost, leftmost) that the OData table rejects
    if isinstance(n, list):
        for x in n:
            e = expected_exc(x)
            if e:
                return e
        return None
    if not dataclasses.is_dataclass(n):
        return None
    for f in dataclasses.fields(n):
        e = expected_exc(getattr(n, f.name))
        if e:
            return e
    if isinstance(n, ast.Call) and n.func.namespace in ((), ('geo',)):
        nm = n.func.full_name()
        if nm not in TABLE:
            return ('UnknownFunctionException', nm)
        lo, hi = TABLE[nm]
        if not lo <= len(n.args) <= hi:
            return ('ArgumentCountException', nm, lo, hi, len(n.args))
    return None

kind, val = parse_outcome(text)
want = expected_exc(T)
problem = None
if kind == 'foreign':
    problem = 'foreign exception ' + type(val).__name__ + ': ' + str(val)[:200]
elif want is None:
    if kind == 'lib':
        problem = 'rejected with ' + type(val).__name__ + ': ' + str(val)[:200]
    elif val != T:
        problem = 'parsed to a different tree: ' + repr(val)[:300]
else:
    if kind == 'ast':
        problem = 'accepted but the OData table demands ' + repr(want)
    elif type(val).__name__ != want[0]:
        problem = 'raised ' + type(val).__name__ + ' instead of ' + repr(want)
    elif want[0] == 'UnknownFunctionException' and val.function_name != want[1]:
        problem = 'payload ' + repr(val.function_name)
    elif want[0] == 'ArgumentCountException' and (val.function_name, val.exp_min_args, val.exp_max_args, val.n_args_given) != tuple(want[1:]):
        problem = 'payload ' + repr((val.function_name, val.exp_min_args, val.exp_max_args, val.n_args_given))
print(json.dumps({{'violates': problem is not None, 'problem': problem, 'text': text, 'tree': repr(T)[:400]}}))
"""
    return {"native_script": script, "input_text": f"reference rendering of {ts[:300]}",
            "required": "parse(reference_text(T)) == T, or the OData-table exception with exact payload"}


def run_function_call(c, timeout, prop):
    """ODataParser._function_call against the C11 contract and the independent arity table."""
    facts, E, U, PV = c["facts"], c["E"], c["U"], c["PV"]
    cf = facts.classes[PARSER]
    m = cf["members"]["_function_call"]
    func = z3.Const("func", PV)
    args = z3.Const("args", U.Seq)
    name = c["fullname"](func)
    n = z3.Length(args)

    def runner(path):
        path.assume(node_inv(c, func, ["Identifier"]))
        path.assume(c["S"].all_shape(args))
        self_obj = Obj(PARSER)
        lo = ListObj(args, fresh=True)
        return E.run_function(path, FuncRef(m, defcls=PARSER), [self_obj, Sym(func), lo], self_val=self_obj)

    res = explore(E, runner)
    ok, val = call_spec(c, func, args)

    def post(path, v):
        try:
            inv = node_inv(c, E.to_pv(v), ["Call"])      # C10: whatever is returned is an AST node (a well-shaped Call)
        except Unsupported:
            inv = z3.BoolVal(False)
        return [("post.value", z3.And(ok, E.to_pv(v) == val)), ("post.inv", inv), ("frame", z3.BoolVal(not path.ghost.get("writes")))]

    def raise_post(path, exc):
        if not is_lib_exc(exc):
            return None
        A = exc.attrs

        def seq_eq(v, t):
            if isinstance(v, SStr):
                return v.term() == t
            if isinstance(v, str):
                return z3.StringVal(v) == t
            return z3.BoolVal(False)

        def int_eq(v, t):
            from vc.symexec import SInt
            if isinstance(v, bool):
                return z3.BoolVal(False)
            if isinstance(v, int):
                return z3.IntVal(v) == t
            if isinstance(v, SInt):
                return v.e == t
            return z3.BoolVal(False)
        if exc.name == "UnknownFunctionException":
            return [("post.raise", z3.And(c["builtin_ns"](func), z3.Not(c["in_table"](name)),
                                          seq_eq(A.get("function_name"), name)))]
        if exc.name == "ArgumentCountException":
            return [("post.raise", z3.And(c["builtin_ns"](func), c["in_table"](name), z3.Not(ok),
                                          seq_eq(A.get("function_name"), name),
                                          int_eq(A.get("exp_min_args"), c["lo_of"](name)),
                                          int_eq(A.get("exp_max_args"), c["hi_of"](name)),
                                          int_eq(A.get("n_args_given"), n)))]
        return [("post.raise", z3.BoolVal(False))]

    base = f"{prop}:{m['qualname']}"
    return outcomes_to_results(E, base, src_of(m), res, post, lambda exc: False, {"func": func, "args": args}, timeout,
                               raise_post=raise_post)


# ------------------------------------------------------------------------------------------
# lexer callbacks
# ------------------------------------------------------------------------------------------
def install_split_model(c):
    E, U = c["E"], c["U"]

    def split(E, path, s, args):
        if len(args) != 1 or not isinstance(args[0], str) or not args[0]:
            raise Unsupported("str.split without a constant separator")
        parts = U.fresh("parts", U.Seq)
        text = s.term() if isinstance(s, SStr) else z3.StringVal(s)
        # contract of str.split(sep): at least one part, all strings, joining them gives the text back
        path.assume(z3.And(z3.Length(parts) >= 1, c["S"].all_str(parts),
                           U.str_join(z3.StringVal(args[0]), parts) == text))
        return ListObj(parts, fresh=True)
    E.ext_models["str.split"] = split


def run_token_action(c, rule, timeout, prop, extra_post=None):
    """Token action of one lexer rule: returns the same token, value = node of the rule's kind (shaped)."""
    facts, E, U, PV = c["facts"], c["E"], c["U"], c["PV"]
    install_split_model(c)
    name = rule["name"]
    act = rule["action"]
    if act is None:
        return [{"name": f"{prop}:odata_query.grammar.ODataLexer.{name}:post.inv", "clause": "post.inv",
                 "status": "discharged", "seconds": 0.0, "backend": "finite-check",
                 "reason": "rule without action: the token value is the matched text"}]
    text = z3.Const("text", z3.StringSort())
    holder = {}

    def runner(path):
        t = TokObj(name, SStr([Atom(text, ("term",))]))
        holder["t"] = t
        self_obj = Obj(LEXER)
        path.ghost["tok"] = t
        return E.run_function(path, FuncRef(act, defcls=LEXER), [self_obj, t], self_val=self_obj)

    res = explore(E, runner)
    kind = TOKEN_KIND.get(name)

    def post(path, v):
        t = path.ghost["tok"]
        goals = [("post.token", z3.BoolVal(v is t))]
        val = t.attrs.get("value")
        try:
            vt = E.to_pv(val)
            goals.append(("post.inv", node_inv(c, vt, [kind]) if kind else z3.BoolVal(True)))
        except Unsupported:
            goals.append(("post.inv", z3.BoolVal(False)))
            vt = None
        other = [w for w in t.writes if w != "value"]
        goals.append(("frame", z3.BoolVal(not other and not path.ghost.get("writes"))))
        if extra_post and vt is not None:
            goals += extra_post(path, name, text, vt)
        return goals

    base = f"{prop}:{act['qualname']}"
    return outcomes_to_results(E, base, src_of(act), res, post, lambda exc: False, {"text": text}, timeout)


def run_error_hooks(c, timeout, prop):
    """Lexer.error(token) and Parser.error(token | None): always raise the library's exception, for a token of
    every type with a value satisfying that type's invariant (a node of the token's kind, or the matched text)."""
    facts, E, U, PV = c["facts"], c["E"], c["U"], c["PV"]
    out = []
    P = facts.raw["parser"]
    token_types = [t for t in P["terminals"] if t not in ("error", "$end")]

    def make_token(path, ttype):
        if ttype is None:
            return None
        if ttype in TOKEN_KIND:
            v = z3.Const("tokval", PV)
            path.assume(node_inv(c, v, [TOKEN_KIND[ttype]]))
            return TokObj(ttype, Sym(v))
        return TokObj(ttype, SStr([Atom(z3.Const("toktext", z3.StringSort()), ("term",))]))

    cases = [(LEXER, facts.raw["lexer"]["error"], "TokenizingException", "<text>")]
    cases += [(PARSER, facts.raw["parser"]["error"], "ParsingException", t) for t in token_types + [None]]
    for cls, fact, want, ttype in cases:
        def runner(path, cls=cls, fact=fact, ttype=ttype):
            self_obj = Obj(cls)
            tok = make_token(path, None if ttype is None else (ttype if ttype != "<text>" else "ERROR"))
            return E.run_function(path, FuncRef(fact, defcls=cls), [self_obj, tok], self_val=self_obj)
        res = explore(E, runner)
        base = f"{prop}:{fact['qualname']}[token={ttype}]"

        def raise_post(path, exc, want=want, ttype=ttype):
            ok = exc.name == want and is_lib_exc(exc)
            if want == "ParsingException":
                ok = ok and exc.attrs.get("eof") is (ttype is None)
            return [("post.raise", z3.BoolVal(bool(ok)))]
        rs = outcomes_to_results(E, base, src_of(fact), res,
                                 lambda path, v: [("post.raise", z3.BoolVal(False))],   # returning is a failure
                                 lambda exc: False, {}, timeout, raise_post=raise_post)
        for r in rs:
            r["token_type"] = ttype
        out += rs
    return out


def recursion_report(facts, prop):
    """Ghost call depth (DESIGN C10): a repo callback may only reach recursive repo functions whose depth
    is bounded by a constant; self-recursive helpers reached from the callbacks are reported."""
    import ast as pyast
    cf = facts.classes[PARSER]
    graph = {}
    for name, m in cf["members"].items():
        if not m.get("definer_repo"):
            continue
        tree = facts.fdef(m)
        calls = set()
        for n in pyast.walk(tree):
            if isinstance(n, pyast.Call) and isinstance(n.func, pyast.Attribute) and isinstance(n.func.value, pyast.Name) \
                    and n.func.value.id == "self" and n.func.attr in cf["members"]:
                calls.add(n.func.attr)
        graph[name] = calls
    out = []
    for name in sorted(graph):
        # is `name` on a cycle?
        seen, stack, cyc = set(), list(graph[name]), False
        while stack:
            x = stack.pop()
            if x == name:
                cyc = True
                break
            if x not in seen and x in graph:
                seen.add(x)
                stack.extend(graph[x])
        m = cf["members"][name]
        out.append({"name": f"{prop}:{m['qualname']}:depth", "clause": "depth", "seconds": 0.0, "backend": "call-graph",
                    "status": "refuted" if cyc else "discharged", "source": src_of(m), "function": name,
                    "reason": "recursive: call depth grows with the input" if cyc else "not recursive: constant depth"})
    return out
