"""Specification side of the lexer obligations (C06, C19): the OData ABNF languages of the literal kinds
in this library's dialect, as plain ASCII regular expressions, plus delimiters.

Written from the OData 4.01 ABNF (primitiveLiteral rules) and the property statement, independently of
odata_query.grammar.  Letter case: the ABNF is case-insensitive for the keywords it spells in quotes
("true", "null", "duration", the "T"/"Z" designators, the exponent "e"); hex digits A-F either case.
"""

D = "[0-9]"
DATE = r"[1-9][0-9]{3}-(?:0[1-9]|1[0-2])-(?:0[1-9]|[12][0-9]|3[01])"
HMS = r"(?:[01][0-9]|2[0-3]):[0-5][0-9]:[0-5][0-9](?:\.[0-9]{1,12})?"
HM = r"(?:[01][0-9]|2[0-3]):[0-5][0-9]"
OFFSET = r"(?:[Zz]|[+-](?:[01][0-9]|2[0-3]):[0-5][0-9])"
DUR_BODY = r"[+-]?[Pp](?:[0-9]+[Yy])?(?:[0-9]+[Mm])?(?:[0-9]+[Dd])?(?:[Tt](?:[0-9]+[Hh])?(?:[0-9]+[Mm])?(?:[0-9]+(?:\.[0-9]+)?[Ss])?)?"

SPEC = {
    # kind: (token rule name, ABNF language as an ASCII regex)
    "Integer": ("INTEGER", r"[+-]?[0-9]+"),
    "Float": ("DECIMAL", r"[+-]?[0-9]+(?:\.[0-9]+(?:[eE][+-]?[0-9]+)?|[eE][+-]?[0-9]+)"),
    "Boolean": ("BOOLEAN", r"[Tt][Rr][Uu][Ee]|[Ff][Aa][Ll][Ss][Ee]"),
    "Null": ("NULL", r"[Nn][Uu][Ll][Ll]"),
    "String": ("STRING", r"'(?:[^']|'')*'"),
    "GUID": ("GUID", r"[0-9a-fA-F]{8}-[0-9a-fA-F]{4}-[0-9a-fA-F]{4}-[0-9a-fA-F]{4}-[0-9a-fA-F]{12}"),
    "Date": ("DATE", DATE),
    "Time": ("TIME", HMS),
    "DateTime": ("DATETIME", DATE + "[Tt]" + "(?:" + HMS + "|" + HM + ")" + OFFSET + "?"),
    "Duration": ("DURATION", r"[Dd][Uu][Rr][Aa][Tt][Ii][Oo][Nn]'" + DUR_BODY + "'"),
    "Geography": ("GEOGRAPHY", r"[Gg][Ee][Oo][Gg][Rr][Aa][Pp][Hh][Yy]'(?:[^']|'')*'"),
    # dotted segments, each starting with a letter or underscore, at most 128 name characters in all
    "Identifier": ("ODATA_IDENTIFIER", r"[_a-zA-Z](?:[_a-zA-Z0-9]|\.[_a-zA-Z]){0,127}"),
}

# what may follow a literal / identifier in a filter: whitespace, ")", ",", "/", ":", "(", "=" or end of input
DELIM_LIT = r"[ \t\n\r),]"
DELIM_IDENT = r"[ \t\n\r),/:(=]"
# words the grammar reserves as tokens of their own (case-insensitive): not identifiers
RESERVED = r"null|true|false|any|all|not"

KEYWORD_OPERATORS = {
    "ADD": "add", "SUB": "sub", "MUL": "mul", "DIV": "div", "MOD": "mod", "AND": "and", "OR": "or",
    "EQ": "eq", "NE": "ne", "LT": "lt", "LE": "le", "GT": "gt", "GE": "ge", "IN": "in",
}
WS_CHARS = r"[ \t\n\r]"
