"""Native-side reference helpers embedded into replay scripts (run under the repository's interpreter).

* `sanitize(tree)`   maps the arbitrary strings of a solver model to well-formed identifiers / literal
                     spellings, preserving equalities (z3 models contain names like "!0!").
* `ref_render(tree)` independent reference printer: fully parenthesised OData text; knows nothing of
                     odata_query.roundtrip.
"""

from vc.speclib import SHAPE as _SHAPE


def _shape_literal():
    def conv(x):
        if isinstance(x, tuple):
            return tuple(conv(y) for y in x)
        if isinstance(x, list):
            return [conv(y) for y in x]
        return x
    return repr({k: {f: conv(sp) for f, sp in v.items()} for k, v in _SHAPE.items()})


NATIVE_REF = "SHAPE = " + _shape_literal() + "\n" + r'''
import dataclasses, re
from odata_query import ast

_KEYWORDS = {"true", "false", "null", "any", "all", "not", "and", "or", "eq", "ne", "lt", "le", "gt", "ge", "in",
             "add", "sub", "mul", "div", "mod", "duration", "geography"}
_LIT_OK = {
    "Integer": (r"[+-]?[0-9]+", "7"), "Float": (r"[+-]?[0-9]+(\.[0-9]+)?(e[-+]?[0-9]+)?", "1.5"),
    "Boolean": (r"true|false", "true"), "Date": (r"[1-9][0-9]{3}-(0[1-9]|1[0-2])-(0[1-9]|[12][0-9]|3[01])", "2020-01-02"),
    "Time": (r"([01][0-9]|2[0-3]):[0-5][0-9]:[0-5][0-9]", "10:20:30"),
    "DateTime": (r"[1-9][0-9]{3}-(0[1-9]|1[0-2])-(0[1-9]|[12][0-9]|3[01])T([01][0-9]|2[0-3]):[0-5][0-9]:[0-5][0-9]Z?", "2020-01-02T10:20:30Z"),
    "Duration": (r"[+-]?P([0-9]+D)?(T([0-9]+H)?([0-9]+M)?([0-9]+S)?)?", "P1DT2H"),
    "GUID": (r"[0-9a-f]{8}-[0-9a-f]{4}-[0-9a-f]{4}-[0-9a-f]{4}-[0-9a-f]{12}", "12345678-1234-1234-1234-123456789abc"),
}


def _variant(kind, dflt, i):
    if i == 0:
        return dflt
    if kind == "Integer":
        return str(7 + i)
    if kind == "Float":
        return "%d.5" % (1 + i)
    if kind == "Boolean":
        return "false" if i % 2 else "true"
    if kind == "Date":
        return "2020-01-%02d" % (2 + i % 26)
    if kind == "Time":
        return "10:20:%02d" % (30 + i % 29)
    if kind == "DateTime":
        return "2020-01-%02dT10:20:30Z" % (2 + i % 26)
    if kind == "Duration":
        return "P%dDT2H" % (1 + i)
    if kind == "GUID":
        return "12345678-1234-1234-1234-12345678%04x" % (0x9abc + i)
    return dflt


class Sanitizer:
    def __init__(self):
        self.names = {}

    def ident(self, s):
        if isinstance(s, str) and re.fullmatch(r"[_a-z][_a-z0-9]{0,20}", s) and s not in _KEYWORDS \
                and not re.match(r"(true|false|null|any|all|not)", s):
            self.names.setdefault(s, s)
            return s
        if s not in self.names:
            self.names[s] = "v%d" % len(self.names)
        return self.names[s]

    def node(self, n):
        if isinstance(n, list):
            return [self.node(x) for x in n]
        if not dataclasses.is_dataclass(n):
            return n
        k = type(n).__name__
        if k == "Identifier":
            ns = n.namespace if isinstance(n.namespace, tuple) else ()
            return ast.Identifier(self.ident(n.name), tuple(self.ident(x) for x in ns))
        if k == "Attribute":
            return ast.Attribute(self.node(n.owner), self.ident(n.attr))
        if k in _LIT_OK:
            rx, dflt = _LIT_OK[k]
            if isinstance(n.val, str) and re.fullmatch(rx, n.val):
                return type(n)(n.val)
            # distinct ill-formed spellings of the model stay distinct
            key = (k, repr(n.val))
            if key not in self.names:
                i = sum(1 for kk in self.names if isinstance(kk, tuple) and kk[0] == k)
                v = _variant(k, dflt, i)
                # keep the sign of an ill-formed numeric spelling (obligations about a leading sign depend on it)
                if k in ("Integer", "Float", "Duration") and isinstance(n.val, str) and n.val[:1] in "+-" and n.val[:1]:
                    v = n.val[0] + v
                self.names[key] = v
            return type(n)(self.names[key])
        if k in ("String", "Geography"):
            return type(n)(n.val if isinstance(n.val, str) else "s")
        kw = {}
        for f in dataclasses.fields(n):
            kw[f.name] = self.node(getattr(n, f.name))
        return type(n)(**kw)


def sanitize(n):
    return Sanitizer().node(repair(n, "expr"))


_EXPR = ["Identifier", "Attribute", "Null", "Integer", "Float", "Boolean", "String", "Geography", "Date", "Time",
         "DateTime", "Duration", "GUID", "List", "BinOp", "Compare", "BoolOp", "UnaryOp", "Call", "CollectionLambda"]


def repair(v, spec):
    """Solver models constrain a witness only as deep as the obligation looks; below that the
    values are arbitrary.  Replace sub-values that do not fit the AST shape by a default of the
    right shape (the obligation did not depend on them)."""
    if spec == "str":
        return v if isinstance(v, str) else "w"
    if spec == "strs":
        return tuple(x if isinstance(x, str) else "w" for x in v) if isinstance(v, tuple) else ()
    if spec in ("exprs", "args"):
        if not isinstance(v, list):
            return []
        ok = _EXPR + (["NamedParam"] if spec == "args" else [])
        return [repair(x, ("kind", ok)) for x in v]
    if spec == "expr":
        return repair(v, ("kind", _EXPR))
    if spec[0] == "opt":
        return None if v is None else repair(v, spec[1])
    kinds = spec[1]
    k = type(v).__name__
    if not dataclasses.is_dataclass(v) or k not in kinds or k not in SHAPE:
        d = kinds[0]
        if d == "Identifier":
            return ast.Identifier("w")
        return getattr(ast, d)(**{f: repair(None, s) for f, s in SHAPE[d].items()})
    return type(v)(**{f: repair(getattr(v, f), s) for f, s in SHAPE[k].items()})


_OPTEXT = {"Add": "add", "Sub": "sub", "Mult": "mul", "Div": "div", "Mod": "mod", "Eq": "eq", "NotEq": "ne", "Lt": "lt",
           "LtE": "le", "Gt": "gt", "GtE": "ge", "In": "in", "And": "and", "Or": "or"}


def ref_render(n, top=True):
    """Fully parenthesised OData text of an AST (independent reference printer)."""
    k = type(n).__name__
    r = ref_render
    if k == "Identifier":
        return ".".join(tuple(n.namespace) + (n.name,))
    if k == "Attribute":
        return r(n.owner, False) + "/" + n.attr
    if k == "Null":
        return "null"
    if k == "String":
        return "'" + n.val.replace("'", "''") + "'"
    if k == "Geography":
        return "geography'" + n.val + "'"
    if k == "Duration":
        return "duration'" + n.val + "'"
    if k in ("Integer", "Float", "Boolean", "Date", "Time", "DateTime", "GUID"):
        return n.val
    if k == "List":
        items = [r(x, False) for x in n.val]
        return "(" + ", ".join(items) + ("," if len(items) == 1 else "") + ")"
    if k in ("BinOp", "Compare", "BoolOp"):
        op = n.op if k != "Compare" else n.comparator
        return "(" + r(n.left, False) + " " + _OPTEXT[type(op).__name__] + " " + r(n.right, False) + ")"
    if k == "UnaryOp":
        if type(n.op).__name__ == "Not":
            return "(not " + r(n.operand, False) + ")"
        return "(-" + r(n.operand, False) + ")"
    if k == "NamedParam":
        return r(n.name, False) + "=" + r(n.param, False)
    if k == "Call":
        return r(n.func, False) + "(" + ", ".join(r(a, False) for a in n.args) + ")"
    if k == "Lambda":
        return r(n.identifier, False) + ": " + r(n.expression, False)
    if k == "CollectionLambda":
        return r(n.owner, False) + "/" + ("any" if type(n.operator).__name__ == "Any" else "all") + "(" + \
            (r(n.lambda_, False) if n.lambda_ is not None else "") + ")"
    raise ValueError("cannot render " + k)


def parse_outcome(text):
    from odata_query.grammar import ODataLexer, ODataParser
    from odata_query import exceptions
    try:
        return ("ast", ODataParser().parse(ODataLexer().tokenize(text)))
    except exceptions.ODataException as ex:
        return ("lib", ex)
    except RecursionError as ex:
        return ("foreign", ex)
    except Exception as ex:
        return ("foreign", ex)
'''
