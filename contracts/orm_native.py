"""Native fixture for replaying ORM obligations (runs under the repository's interpreter).

A blog schema for each backend (Django model, SQLAlchemy declarative model, SQLAlchemy Core table), `translate` (visitor on
a tree) and `compile_sql` (SQL text + parameters the driver would receive).  Embedded as text into replay scripts.
"""
from contracts.native_ref import NATIVE_REF

ORM_NATIVE = NATIVE_REF + r'''
import json, warnings
warnings.filterwarnings("ignore")
from odata_query import ast, exceptions

FIELDS = {"id": "Integer", "title": "String", "content": "String", "published_at": "DateTime", "rating": "Float",
          "views": "Integer", "likes": "Integer", "public": "Boolean"}
_FIX = {}


def fixture(bkey):
    if bkey in _FIX:
        return _FIX[bkey]
    if bkey == "django":
        import django
        from django.conf import settings
        if not settings.configured:
            settings.configure(DATABASES={"default": {"ENGINE": "django.db.backends.sqlite3", "NAME": ":memory:"}},
                               INSTALLED_APPS=[], USE_TZ=True)
            django.setup()
        from django.db import models

        class Author(models.Model):
            name = models.CharField(max_length=100)

            class Meta:
                app_label = "vf"

        class BlogPost(models.Model):
            title = models.CharField(max_length=100, null=True)
            content = models.CharField(max_length=200, null=True)
            published_at = models.DateTimeField(null=True)
            rating = models.FloatField(null=True)
            views = models.IntegerField(null=True)
            likes = models.IntegerField(null=True)
            public = models.BooleanField(null=True)
            author = models.ForeignKey(Author, on_delete=models.CASCADE, related_name="blogposts", null=True)

            class Meta:
                app_label = "vf"
        _FIX[bkey] = BlogPost
        _FIX["_keep_django"] = (Author, BlogPost)
    else:
        import sqlalchemy as sa
        from sqlalchemy.orm import declarative_base, relationship
        Base = declarative_base()

        class Author(Base):
            __tablename__ = "author"
            id = sa.Column(sa.Integer, primary_key=True)
            name = sa.Column(sa.String)
            blogposts = relationship("BlogPost", back_populates="author")

        class BlogPost(Base):
            __tablename__ = "blogpost"
            id = sa.Column(sa.Integer, primary_key=True)
            title = sa.Column(sa.String)
            content = sa.Column(sa.Text)
            published_at = sa.Column(sa.DateTime)
            rating = sa.Column(sa.Float)
            views = sa.Column(sa.Integer)
            likes = sa.Column(sa.Integer)
            public = sa.Column(sa.Boolean)
            author_id = sa.Column(sa.Integer, sa.ForeignKey("author.id"))
            author = relationship("Author", back_populates="blogposts")
        _FIX["sa_orm"] = BlogPost
        _FIX["_keep_sa"] = (Base, Author, BlogPost)      # the declarative registry holds classes weakly
        _FIX["sa_core"] = BlogPost.__table__
    return _FIX[bkey]


def visitor(bkey):
    root = fixture(bkey)
    if bkey == "django":
        from odata_query.django.django_q import AstToDjangoQVisitor
        return AstToDjangoQVisitor(root)
    if bkey == "sa_orm":
        from odata_query.sqlalchemy.orm import AstToSqlAlchemyOrmVisitor
        return AstToSqlAlchemyOrmVisitor(root)
    from odata_query.sqlalchemy.core import AstToSqlAlchemyCoreVisitor
    return AstToSqlAlchemyCoreVisitor(root)


def translate(bkey, tree):
    """('ok', result, visitor) | ('lib', exc) | ('nie', exc) | ('foreign', exc)"""
    v = visitor(bkey)
    try:
        r = v.visit(tree)
    except exceptions.ODataException as ex:
        return ("lib", ex, v)
    except NotImplementedError as ex:
        return ("nie", ex, v)
    except Exception as ex:
        return ("foreign", ex, v)
    return ("ok", r, v)


def compile_sql(bkey, tree):
    """(sql text, params) as handed to the driver, or None when the backend refuses the filter / it is not a predicate"""
    kind, r, v = translate(bkey, tree)
    if kind != "ok" or r is None:
        return None
    root = fixture(bkey)
    try:
        if bkey == "django":
            qs = root.objects.all()
            if v.queryset_annotations:
                qs = qs.annotate(**v.queryset_annotations)
            sql, params = qs.filter(r).query.sql_with_params()
            return sql, [repr(p) for p in params]
        import sqlalchemy as sa
        from sqlalchemy.dialects import sqlite
        q = sa.select(root).filter(r)
        if bkey == "sa_orm":
            for j in v.join_relationships:
                q = q.join(j)
        cp = q.compile(dialect=sqlite.dialect())
        return cp.string, sorted((k, repr(x)) for k, x in cp.params.items())
    except Exception as ex:
        return ("compile-error", type(ex).__name__ + ": " + str(ex)[:200])


def fit(tree, keep=None):
    """map identifiers that are not fixture fields to fixture fields (deterministically), so that a witness whose field
    names are arbitrary exercises the handler rather than the unknown-field refusal"""
    names = sorted(FIELDS)

    def go(n):
        if isinstance(n, list):
            return [go(x) for x in n]
        if isinstance(n, ast.Identifier) and not n.namespace and n.name not in FIELDS:
            return ast.Identifier(names[sum(map(ord, n.name)) % len(names)], ())
        if dataclasses.is_dataclass(n) and not isinstance(n, type):
            kw = {f.name: go(getattr(n, f.name)) for f in dataclasses.fields(n)}
            try:
                return type(n)(**kw)
            except Exception:
                return n
        return n
    return go(tree)


def variants(tree):
    out = [tree]
    try:
        s = sanitize(tree)
        out.append(s)
        out.append(fit(s))
    except Exception:
        pass
    return out


ROWCOLS = ["title", "content", "rating", "views", "likes", "public"]


def selected_by_orm(bkey, tree, table):
    """ids of the rows of `table` (list of dicts over ROWCOLS) that the backend's translation of `tree` selects when the
    statement is executed on an in-memory SQLite; None when the backend refuses the filter"""
    kind, r, v = translate(bkey, tree)
    if kind != "ok" or r is None:
        return None
    root = fixture(bkey)
    if bkey == "django":
        from django.db import connection
        if not _FIX.get("_django_tables"):
            with connection.schema_editor() as ed:
                for m in _FIX["_keep_django"]:
                    ed.create_model(m)
            _FIX["_django_tables"] = True
        root.objects.all().delete()
        root.objects.bulk_create([root(id=i + 1, **{k: row[k] for k in ROWCOLS}) for i, row in enumerate(table)])
        qs = root.objects.all()
        if v.queryset_annotations:
            qs = qs.annotate(**v.queryset_annotations)
        return {i - 1 for i in qs.filter(r).values_list("id", flat=True)}
    import sqlalchemy as sa
    if "_sa_engine" not in _FIX:
        eng = sa.create_engine("sqlite://")
        _FIX["_keep_sa"][0].metadata.create_all(eng)
        _FIX["_sa_engine"] = eng
    eng = _FIX["_sa_engine"]
    tbl = _FIX["sa_core"]
    with eng.begin() as con:
        con.execute(tbl.delete())
        con.execute(tbl.insert(), [dict(id=i + 1, **{k: row[k] for k in ROWCOLS}) for i, row in enumerate(table)])
        q = sa.select(tbl.c.id if bkey == "sa_core" else root.id).filter(r)
        if bkey == "sa_orm":
            for j in v.join_relationships:
                q = q.join(j)
        return {x[0] - 1 for x in con.execute(q)}
'''
