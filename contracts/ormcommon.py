"""Shared contracts of the ORM backends (C08, C12, C19): Django Q, SQLAlchemy ORM, SQLAlchemy Core.

Calls into Django / SQLAlchemy / operator are uninterpreted, deterministic, total constructors (DESIGN 4.8): the result of
a handler is a constructor *term* over the opaque translations of the children (`visit(child)`), the node's own data and
constants.  Two readings of that term decide the properties:
  C12  completeness: not None, every child's translation occurs in it (or the path raises a library exception);
  C08  parameter binding: node data that is a *value of the filter* (literal .val / .py_val) occurs only inside the argument
       of a binder (django Value(...), sqlalchemy literal(...), GEOSGeometry(...)); and the path taken does not depend on it.
"""
import z3

from contracts.grammar_common import ARITY_TABLE
from contracts import sqlcommon as Q
from vc.propkit import explore, judge, src_of, is_lib_exc
from vc.speclib import below_input, fresh_node, SHAPE
from vc.symexec import (Atom, DictObj, ExtRef, ExtVal, ExcVal, FuncRef, ListObj, Obj, Obligation, Raised, SBool, SInt, SStr, SeqMap, Sym,
                        Unsupported)

BACKENDS = {
    "django": "odata_query.django.django_q.AstToDjangoQVisitor",
    "sa_orm": "odata_query.sqlalchemy.orm.AstToSqlAlchemyOrmVisitor",
    "sa_core": "odata_query.sqlalchemy.core.AstToSqlAlchemyCoreVisitor",
}
BINDERS = ("django.db.models.expressions.Value", "sqlalchemy.sql.elements.literal", "sqlalchemy.sql._elements_constructors.literal",
           "django.contrib.gis.geos.geometry.GEOSGeometry")
LITERAL_KINDS = ["Integer", "Float", "Boolean", "String", "Geography", "Date", "Time", "DateTime", "Duration", "GUID"]
# handlers whose body is mostly calls into the ORM's model-meta / relationship API in loops: no obligations are generated
# for them (listed as unchecked in the evidence; the row semantics of lambdas are C04, not applicable)
OUT_OF_REACH = {("django", "CollectionLambda"): "walks Django model meta (reverse_relationship) and builds sub-querysets",
                ("sa_orm", "CollectionLambda"): "inspects SQLAlchemy relationship properties and builds a sub-visitor"}
for _b in ("django", "sa_orm", "sa_core"):
    # not expressions on their own: only reachable through calls / collection lambdas; calls are checked per function
    for _k in ("Lambda", "NamedParam", "Call"):
        OUT_OF_REACH[(_b, _k)] = "checked through the per-function call families"
DOCUMENTED_NIE = {"sa_core": ("visit_Attribute", "visit_CollectionLambda")}


def make_self(c, bkey):
    cls = BACKENDS[bkey]
    if bkey == "django":
        return Obj(cls, {"root_model": ExtVal("<root model>"), "queryset_annotations": DictObj(), "_depth": 0})
    if bkey == "sa_orm":
        return Obj(cls, {"root_model": ExtVal("<root model>"), "join_relationships": ListObj([])})
    return Obj(cls, {"table": ExtVal("<table>")})


def install(c, bkey):
    E, U, PV, facts = c["E"], c["U"], c["PV"], c["facts"]
    cls = BACKENDS[bkey]

    def contract(E, path, fref, args, kwargs):
        self_val, arg = args[0], args[1]
        if not (isinstance(self_val, Obj) and self_val.cls == cls):
            return NotImplemented
        t = E.to_pv(arg)
        cur = path.ghost.get("node_under_check")
        if cur is not None and z3.simplify(t).eq(z3.simplify(cur)):
            return NotImplemented           # super().visit(node) on the node under verification itself
        if path.entails(U.is_node(t, Q.OP_KINDS)):
            return NotImplemented
        path.oblige("pre.shape", z3.And(U.is_node(t), c["shape"](t)))
        path.oblige("decreases", z3.BoolVal(below_input(path, t, U)), {"arg": str(t)[:120]})
        k = path.choose([("returns", None), ("raises-library-exception", None)])
        if k == 1:
            raise Raised(ExcVal("odata_query.exceptions.ODataException",
                                facts.classes["odata_query.exceptions.ODataException"]["mro"], ("callee",)))
        return ExtVal("visit", [Sym(t)])

    for qn in ("odata_query.visitor.NodeVisitor.visit", cls + ".visit"):
        E.contracts[qn] = contract
    # external behaviours the repo code relies on
    E.ext_models.pop("<call>", None)

    def attr_model(E, path, o, name):
        if isinstance(o, ExtVal) and o.cls_mro and o.name.endswith(".F") and name == "name" and o.args:
            return o.args[0]
        if isinstance(o, ExtVal) and o.cls_mro and o.name.endswith(".Value") and name == "value" and o.args:
            return o.args[0]
        return NotImplemented
    E.attr_models[("*", "*")] = attr_model
    # getattr(model, name): AttributeError iff the class has no such attribute (assumed contract of the dependency)
    has_attr = E.uf("model_has_attr", PV, z3.StringSort(), z3.BoolSort())

    def ext_attr_missing(E, path, o, name):
        return NotImplemented
    c["has_attr"] = has_attr


def opaque_children(v, acc):
    """`visit(child)` terms occurring in a result value"""
    if isinstance(v, ExtVal):
        if v.name == "visit":
            acc.append(v.args[0].term)
            return acc
        for a in v.args:
            opaque_children(a, acc)
        for _, a in v.kwargs:
            opaque_children(a, acc)
    elif isinstance(v, (tuple, list)):
        for a in v:
            opaque_children(a, acc)
    elif isinstance(v, ListObj) and v.is_concrete():
        for a in v.content:
            opaque_children(a, acc)
    elif isinstance(v, SeqMap):
        opaque_children(v.elem_value, acc)
        acc.append(("seq", v.seq_term))
    elif isinstance(v, DictObj):
        for a in v.d.values():
            opaque_children(a, acc)
    return acc


# operand positions in which the ORMs themselves coerce a plain Python value to a bound parameter (documented behaviour of
# SQLAlchemy's column operators and of Python operators on Django / SQLAlchemy expressions): assumed, listed in the evidence
COERCING_METHODS = {"contains", "startswith", "endswith", "like", "ilike", "in_", "not_in", "notin_", "is_", "is_not", "isnot", "between",
                    "concat", "__eq__", "__ne__", "__lt__", "__le__", "__gt__", "__ge__", "__add__", "__sub__", "__mul__", "__truediv__",
                    "__mod__"}
COERCING_FUNCS = {"operator.eq", "operator.ne", "operator.lt", "operator.le", "operator.gt", "operator.ge", "operator.add", "operator.sub",
                  "operator.mul", "operator.truediv", "operator.mod", "operator.contains", "_operator.eq", "_operator.ne", "_operator.lt",
                  "_operator.le", "_operator.gt", "_operator.ge", "_operator.add", "_operator.sub", "_operator.mul", "_operator.truediv",
                  "_operator.mod"}


def data_leaks(E, v, data_ids, inside_binder=False, acc=None):
    """occurrences of filter-value terms outside a binder's argument (or an operand position that binds)"""
    acc = [] if acc is None else acc
    if isinstance(v, ExtVal):
        binder = v.name in BINDERS or v.name.rsplit(".", 1)[-1] in ("Value", "literal", "GEOSGeometry") or v.name in COERCING_FUNCS
        args = list(v.args)
        if v.name == "<call>" and args and isinstance(args[0], ExtVal) and args[0].name == "getattr" and len(args[0].args) == 2 \
                and isinstance(args[0].args[1], str) and args[0].args[1] in COERCING_METHODS:
            # expr.<operator method>(value, ...): the receiver is an expression, the operands are coerced to bound parameters
            data_leaks(E, args[0], data_ids, inside_binder, acc)
            for a in args[1:]:
                data_leaks(E, a, data_ids, True, acc)
            for k, x in v.kwargs:
                data_leaks(E, x, data_ids, inside_binder, acc)      # keyword options (escape characters, flags) are not operands
            return acc
        for a in args + [x for _, x in v.kwargs]:
            data_leaks(E, a, data_ids, inside_binder or binder, acc)
    elif isinstance(v, (tuple, list)):
        for a in v:
            data_leaks(E, a, data_ids, inside_binder, acc)
    elif isinstance(v, ListObj) and v.is_concrete():
        for a in v.content:
            data_leaks(E, a, data_ids, inside_binder, acc)
    elif isinstance(v, SeqMap):
        data_leaks(E, v.elem_value, data_ids, inside_binder, acc)
    elif isinstance(v, (SStr, Sym, SBool, SInt)):
        if not inside_binder:
            terms = []
            if isinstance(v, SStr):
                terms = [p.term for p in v.parts if isinstance(p, Atom)]
            elif isinstance(v, Sym):
                terms = [v.term]
            else:
                terms = [v.e]
            for t in terms:
                if _mentions(t, data_ids):
                    acc.append(str(t)[:80])
    return acc


VALUE_DECLS = {k + "_val" for k in LITERAL_KINDS if k != "Boolean"}


def _mentions(t, ids, seen=None):
    """does the term mention a value of the filter: one of the given terms, or the .val accessor of a literal kind
    (other than Boolean) applied to anything"""
    seen = set() if seen is None else seen
    if t.get_id() in seen:
        return False
    seen.add(t.get_id())
    if t.get_id() in ids:
        return True
    if z3.is_app(t):
        if t.num_args() == 1 and t.decl().name() in VALUE_DECLS:
            return True
        return any(_mentions(t.arg(i), ids, seen) for i in range(t.num_args()))
    return False


def required_children(c, kind, path, node):
    """children whose translation must occur in a complete translation of `node`"""
    U, PV = c["U"], c["PV"]
    req = []
    for fn, sp in SHAPE[kind].items():
        t = U.field(kind, fn, node)
        if sp == "expr" or (isinstance(sp, tuple) and sp[0] == "kind" and not set(sp[1]) <= set(Q.OP_KINDS)):
            if kind in ("Call",) and fn == "func":
                continue
            if kind in ("NamedParam", "Lambda") and fn in ("name", "identifier"):
                continue
            req.append(t)
    if kind == "Compare":
        right = U.field("Compare", "right", node)
        if path.entails(U.is_kind("Null", right)):
            req = [t for t in req if not z3.simplify(t).eq(z3.simplify(right))]     # `x eq null` is an IS NULL test
    return req


def known_orm(known, bkey, what, clause, info):
    ids = {f["id"] for f in known}
    exc = (info or {}).get("exception", "")
    if "C12-django-null-operand" in ids and bkey == "django" and what == "Null" and clause == "safety.raise":
        return True
    if "C12-django-gis-importerror" in ids and bkey == "django" and what.startswith("geo.") and clause == "safety.raise" \
            and "ImportError" in exc:
        return True
    if "C12-orm-no-geography-handler" in ids and what == "Geography" and clause == "post.complete":
        return True
    if "C12-sa-orm-attribute-valueerror" in ids and bkey == "sa_orm" and what == "Attribute" and clause == "safety.raise" \
            and "ValueError" in exc:
        return True
    return False


def run_family(c, facts, fam, timeout, prop, known, clauses=None, template_fn=None):
    E, U, PV = c["E"], c["U"], c["PV"]
    is_call = fam.startswith("ormcall[")
    inner = fam[fam.index("[") + 1:-1]
    bkey, what = inner.split("][")
    cls = BACKENDS[bkey]
    if cls not in facts.classes:
        return [{"name": f"{prop}:{bkey}:import", "clause": "unsupported", "status": "undecided", "seconds": 0.0,
                 "reason": f"{cls} could not be imported"}]
    cf = facts.classes[cls]
    install(c, bkey)
    holder = {}
    m = cf["members"]["visit"]
    if is_call:
        fn, n = what.rsplit("/", 1)
        n = int(n)
        kind = "Call"
        parts = fn.split(".")
        func = U.node("Identifier", U.strv(parts[-1]), U.tuplev(U.seq([U.strv(x) for x in parts[:-1]])))
        arg_consts = [z3.Const(f"arg{i}", PV) for i in range(n)]
        node = U.node("Call", func, PV.ListV(U.seq(arg_consts)))
        holder["node"] = node
        prefix = {"django": "djangofunc_", "sa_orm": "func_", "sa_core": "func_"}[bkey]
        hname = prefix + (fn.replace(".", "__").lower() if bkey == "django" else parts[-1].lower())
        handler = cf["members"].get(hname) or cf["members"]["visit_Call"]

        def runner(path):
            from vc.speclib import EXPR_KINDS
            for a in arg_consts:
                path.sub_roots[a.get_id()] = True
                # built-in functions take positional expression arguments (named parameters: recorded finding)
                path.assume(U.is_node(a, EXPR_KINDS))
            path.assume(c["shape"](node))
            self_obj = make_self(c, bkey)
            holder["self"] = self_obj
            path.ghost["node_under_check"] = node
            return E.run_function(path, FuncRef(m, defcls=m["definer"]), [self_obj, Sym(node)], self_val=self_obj)
        label = f"{handler['qualname']}[{fn}/{n}]"
    else:
        kind = what
        handler = cf["members"].get("visit_" + kind) or cf["members"]["generic_visit"]

        def runner(path):
            nd, consts = fresh_node(E, path, kind)
            holder["node"] = nd
            holder["consts"] = consts
            path.assume(c["shape"](nd))
            if kind == "Duration":
                env = facts.module_env("odata_query.ast").get("DURATION_PATTERN")
                fm = E.uf("re_fullmatch", z3.StringSort(), z3.StringSort(), z3.BoolSort())
                path.assume(fm(z3.StringVal(env["pattern"]), PV.s(U.field("Duration", "val", nd))))
            path.ghost["pre_n"] = len(path.pc)
            self_obj = make_self(c, bkey)
            holder["self"] = self_obj
            path.ghost["node_under_check"] = nd
            return E.run_function(path, FuncRef(m, defcls=m["definer"]), [self_obj, Sym(nd)], self_val=self_obj)
        label = f"{handler['qualname']}[{kind}]"
    try:
        res = explore(E, runner)
    finally:
        E.attr_models.pop(("*", "*"), None)
    node = holder.get("node")
    base = f"{prop}:{bkey}:{label}"
    src = src_of(handler)
    out = []
    # filter values of this node: the .val of literal kinds (and of literal arguments read directly)
    data_ids = set()
    if not is_call and kind in LITERAL_KINDS and kind != "Boolean":
        vt = z3.simplify(U.field(kind, "val", node))         # the field constant of the fresh node
        data_ids.add(vt.get_id())
        data_ids.add(z3.simplify(PV.s(vt)).get_id())
    if is_call:
        for a in arg_consts:
            for lk in LITERAL_KINDS:
                if lk != "Boolean":
                    data_ids.add(z3.simplify(PV.s(U.field(lk, "val", a))).get_id())
    clusters = {}
    for idx, (path, outcome) in enumerate(res):
        recs = []
        if outcome[0] == "return":
            v = outcome[1]
            if v is None:
                recs.append(("post.complete", z3.BoolVal(False), {"problem": "handler returned None (no translation)"}))
            else:
                got = opaque_children(v, [])
                need = required_children(c, kind, path, node) if not is_call else list(arg_consts)
                missing = []
                for t in need:
                    ok = any((not isinstance(g, tuple)) and z3.simplify(g).eq(z3.simplify(t)) for g in got)
                    if not ok and not path.entails(z3.Not(U.is_node(t))):
                        # optional children (None) need no translation
                        missing.append(str(t)[:60])
                if kind in ("List", "Call") and not is_call:
                    seqt = PV.items(U.field(kind, "val" if kind == "List" else "args", node))
                    if not any(isinstance(g, tuple) and z3.simplify(g[1]).eq(z3.simplify(seqt)) for g in got) \
                            and not path.entails(z3.Length(seqt) == 0) and kind == "List":
                        missing.append("list items")
                if not is_call and _has_none_arg(v) and kind not in ("CollectionLambda",):
                    missing.append("None passed where a translation is expected")
                recs.append(("post.complete", z3.BoolVal(not missing), {"missing": "; ".join(missing), "result": repr(v)[:200]}))
                leaks = data_leaks(E, v, data_ids)
                recs.append(("rel.out", z3.BoolVal(not leaks), {"value_outside_binder": "; ".join(leaks)[:200], "result": repr(v)[:200]}))
                if template_fn is not None:
                    tr = template_fn(c, is_call, what if is_call else kind, path, node, arg_consts if is_call else None, v)
                    if tr is not None:
                        recs.append(("post.template", z3.BoolVal(bool(tr[0])), {"problem": tr[1], "result": repr(v)[:200]}))
            own = path.pc[path.ghost.get("pre_n", 0):]
            indep = frozenset(str(cnd) for cnd in own if not _mentions(z3.simplify(cnd), data_ids))
            clusters.setdefault(indep, []).append((idx, skeleton(v), path))
        elif outcome[0] == "raise":
            exc = outcome[1]
            ok = is_lib_exc(exc)
            if not ok and exc.name == "NotImplementedError" and handler["name"] in DOCUMENTED_NIE.get(bkey, ()):
                ok = True
            recs.append(("safety.raise", z3.BoolVal(bool(ok)), {"exception": exc.name, "args": repr(exc.args)[:160]}))
        else:
            out.append({"name": f"{base}:unsupported", "clause": "unsupported", "status": "undecided", "seconds": 0.0,
                        "reason": outcome[1], "source": src, "path": idx, "backend_kind": "orm"})
            continue
        obls = [Obligation(o.clause, o.hyps, o.goal, o.info) for o in path.obligations if o.clause in ("decreases",)]
        for clause, goal, info in recs:
            obls.append(Obligation(clause, path.pc + path.insts, goal, info))
        for o in obls:
            if clauses and o.clause not in clauses:
                continue
            if z3.is_false(o.goal) and known_orm(known, bkey, what, o.clause, o.info):
                continue
            extra = {"info": {k: str(v)[:300] for k, v in (o.info or {}).items()}, "orm": bkey, "what": what, "backend_kind": "orm"}
            out.append(judge(E, f"{base}:{o.clause}", o.clause, o.hyps, o.goal, src, timeout, {"e": node}, extra=extra, path_idx=idx))
    # 2-safety: paths that differ only in conditions on filter values must build the same skeleton
    for indep, members in clusters.items():
        sk = {m_[1] for m_ in members}
        idx0, _, path0 = members[0]
        if not clauses or "rel.path" in clauses:
            out.append(judge(E, f"{base}:rel.path", "rel.path", path0.pc + path0.insts, z3.BoolVal(len(sk) == 1), src, timeout,
                             {"e": node}, extra={"info": {"skeletons": " | ".join(sorted(sk))[:300]}, "orm": bkey, "what": what,
                                                 "backend_kind": "orm"}, path_idx=idx0))
    return out


def _has_none_arg(v):
    if isinstance(v, ExtVal):
        if v.name == "visit":
            return False
        return any(a is None or _has_none_arg(a) for a in v.args)
    if isinstance(v, (tuple, list)):
        return any(a is None or _has_none_arg(a) for a in v)
    if isinstance(v, ListObj) and v.is_concrete():
        return any(a is None or _has_none_arg(a) for a in v.content)
    return False


def skeleton(v):
    """result term with binder arguments replaced by a parameter marker"""
    if isinstance(v, ExtVal):
        if v.name in BINDERS or v.name.rsplit(".", 1)[-1] in ("Value", "literal", "GEOSGeometry"):
            return v.name.rsplit(".", 1)[-1] + "(?)"
        if v.name == "visit":
            return "visit(" + str(v.args[0].term)[:60] + ")"
        return v.name.rsplit(".", 1)[-1] + "(" + ", ".join(skeleton(a) for a in v.args) + \
            "".join(f", {k}={skeleton(x)}" for k, x in v.kwargs) + ")"
    if isinstance(v, (tuple, list)):
        return "[" + ", ".join(skeleton(a) for a in v) + "]"
    if isinstance(v, ListObj) and v.is_concrete():
        return "[" + ", ".join(skeleton(a) for a in v.content) + "]"
    if isinstance(v, SeqMap):
        return "map(" + skeleton(v.elem_value) + ")"
    if isinstance(v, (SStr, Sym, SBool, SInt)):
        return "<data>"
    return repr(v)[:60]


def replay_spec_c08(facts, r):
    """native replay of a refuted parameter-binding obligation: the witness (sanitised, fitted to the fixture's fields) is
    wrapped into a predicate if it is not one, compiled, then compiled again with every literal value replaced by another
    value of the same kind; the SQL texts must be identical and contain none of the string values"""
    from vc.pyval import to_py_source
    from contracts.orm_native import ORM_NATIVE
    w = r.get("witness") or {}
    if "e" not in w:
        return None
    es = to_py_source(w["e"])
    bkey = r.get("orm")
    script = ORM_NATIVE + f"""
bkey = {bkey!r}
try:
    w = {es}
except Exception as ex:
    w = None
ALT = {{"Integer": ["3", "41"], "Float": ["2.5", "0.125"], "String": ["zq' OR '1'='1", "%_zq;--"], "Date": ["2021-03-04", "1999-12-31"],
       "Time": ["11:22:33", "01:02:03"], "DateTime": ["2021-03-04T11:22:33Z", "1999-12-31T23:59:59Z"],
       "Duration": ["P2DT3H", "PT5M"], "GUID": ["aaaaaaaa-aaaa-aaaa-aaaa-aaaaaaaaaaaa", "00000000-0000-0000-0000-000000000001"],
       "Geography": ["SRID=4326;POINT(1 2)", "SRID=4326;POINT(3 4)"]}}
def revalue(n, i):
    if isinstance(n, list):
        return [revalue(x, i) for x in n]
    if dataclasses.is_dataclass(n) and not isinstance(n, type):
        k = type(n).__name__
        if k in ALT:
            return type(n)(ALT[k][i])
        return type(n)(**{{f.name: revalue(getattr(n, f.name), i) for f in dataclasses.fields(n)}})
    return n
def predicate(n):
    k = type(n).__name__
    if k in ("Compare", "BoolOp", "CollectionLambda") or (k == "UnaryOp" and isinstance(n.op, ast.Not)):
        return [n]
    if k == "Call" and n.func.name in ("contains", "startswith", "endswith", "hassubset", "hassubsequence", "intersects"):
        return [n]
    if k == "List":
        return [ast.Compare(ast.In(), ast.Identifier("title"), n), ast.Compare(ast.In(), ast.Identifier("views"), n)]
    return [ast.Compare(ast.Eq(), x, n) for x in (ast.Identifier("title"), ast.Identifier("views"), ast.Identifier("published_at"))] + \
           [ast.Compare(ast.Eq(), n, n)]
problems, compiled = [], 0
for tr in (variants(w)[1:] if w is not None else []):
    for p in predicate(tr):
        outs = [compile_sql(bkey, revalue(p, i)) for i in (0, 1)] + [compile_sql(bkey, p)]
        if any(o is None or o[0] == "compile-error" for o in outs):
            continue
        compiled += 1
        if len(set(o[0] for o in outs)) != 1:
            problems.append([ref_render(p)[:160], "SQL text depends on the values: " + "  |  ".join(sorted(set(o[0][-160:] for o in outs)))])
        else:
            for i in (0, 1):
                for sv in ALT["String"] + ALT["Geography"]:
                    if sv in outs[i][0]:
                        problems.append([ref_render(revalue(p, i))[:160], "value spliced into SQL text: " + outs[i][0][-200:]])
print(json.dumps({{'violates': bool(problems), 'problems': problems[:4], 'compiled': compiled}}))
"""
    return {"native_script": script, "input_text": f"backend={bkey} e={es[:300]}",
            "required": "identical compiled SQL for two value assignments; values only in the parameter list"}


def replay_spec(facts, r):
    """native replay of a refuted ORM obligation on the fixture schema (contracts/orm_native.py): the witness node, its
    sanitised form and its form fitted to the fixture's field names are translated by the real visitor"""
    from vc.pyval import to_py_source
    from contracts.orm_native import ORM_NATIVE
    w = r.get("witness") or {}
    if "e" not in w:
        return None
    es = to_py_source(w["e"])
    bkey = r.get("orm")
    script = ORM_NATIVE + f"""
bkey = {bkey!r}
try:
    w = {es}
except Exception as ex:
    w = None
problems = []
def idents(n, acc):
    if isinstance(n, list):
        for x in n: idents(x, acc)
    elif isinstance(n, ast.Identifier):
        acc.append(n.name)
    elif dataclasses.is_dataclass(n):
        for f in dataclasses.fields(n): idents(getattr(n, f.name), acc)
    return acc
def has(n, kinds):
    if isinstance(n, list):
        return any(has(x, kinds) for x in n)
    if dataclasses.is_dataclass(n) and not isinstance(n, type):
        return type(n).__name__ in kinds or any(has(getattr(n, f.name), kinds) for f in dataclasses.fields(n))
    return False
for i, tr in enumerate(variants(w) if w is not None else []):
    kind, res, v = translate(bkey, tr)
    shown = ref_render(tr)[:200] if i else repr(tr)[:200]
    if kind == "foreign":
        problems.append([shown, "foreign exception " + type(res).__name__ + ": " + str(res)[:120]])
    elif kind == "nie" and not (bkey == "sa_core" and has(tr, ("Attribute", "CollectionLambda"))):
        problems.append([shown, "NotImplementedError: " + str(res)[:120]])
    elif kind == "ok" and res is None:
        problems.append([shown, "the visitor returned None"])
    elif kind == "ok" and i == 2:
        c = compile_sql(bkey, tr)
        if c and c[0] != "compile-error":
            miss = [x for x in idents(tr, []) if x in FIELDS and x not in c[0]]
            if miss:
                problems.append([shown, "fields missing from the compiled SQL: " + ", ".join(miss) + " in " + c[0][-200:]])
print(json.dumps({{'violates': bool(problems), 'problems': problems[:4]}}))
"""
    return {"native_script": script, "input_text": f"backend={bkey} e={es[:300]}",
            "required": "a non-None translation naming every field of the filter, or a library exception "
                        "(SQLAlchemy Core: NotImplementedError for paths and lambdas)"}
