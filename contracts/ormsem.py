"""Shared machinery of C02 (Django) and C03 (SQLAlchemy): translation-table contracts on the ORM handlers (layer 1) and
the bounded run of the real back end on an in-memory SQLite against the reference semantics (layer 2).

Layer 1 (counted): per handler of the operators and built-in functions, per path: the expression term the handler
returns *is* the entry of the translation table (contracts/ormtemplates.py) -- which ORM function / lookup / operator,
which operand where, which constant (the `+ 1` of substring, the `- 1` of indexof, the extracted date part).  Calls into
the ORM are uninterpreted constructors (DESIGN 4.8), so the obligation is a term comparison on every path the symbolic
executor finds in the real handler.

Layer 2 (bounded, labelled, never counted): what rows such an expression selects is decided by the ORM's compiler and
by SQLite, outside any contract on repository code.  The battery of C01 (renamed to the fixture's columns) is translated
by the real visitor, executed through the ORM on an in-memory SQLite, and compared with `den`.
"""
import json
import os
import re
import time

import z3

from contracts import ormcommon as O
from contracts import ormtemplates as T
from contracts import sqlcommon as Q
from vc.runner import native_run

TIMEOUT = {"quick": 10000, "thorough": 60000}
REN = {"a": "views", "b": "likes", "s": "title", "t": "content", "x": "rating", "f": "public"}
ORM_COLS = {"views": [None, -1, 0, 1, 2, 7], "likes": [None, -2, 0, 1, 3], "rating": [None, -1.5, -0.5, 0.5, 1.5, 2.0],
            "title": [None, "", "a", "A", "ab", "o'r", "%", "_", "a%b", "xaby", " a", "a ", " a b "], "content": [None, "", "a", "b", "%", "ab"],
            "public": [None, False, True]}


def battery():
    from contracts.C01 import FILTERS

    def ren(f):
        return re.sub(r"(?<![\w'])([abstxf])(?![\w'(])", lambda m: REN[m.group(1)], f)
    return [ren(f) for f in FILTERS if not re.search(r"(?<![\w'])d(?![\w'])", f)]


def families(facts, backends, calls):
    fams = []
    for b in backends:
        fams += [f"orm[{b}][{k}]" for k in T.OPFIELD]
        fams += [f"ormcall[{b}][{key}]" for key in calls]
        fams.append(f"bounded.semantics[{b}]")
    return fams + ["canary"]


def run_layer1(facts, fam, tier, prop, known, calls, ops, top_q):
    c = Q.build(facts)
    fn = T.make_template_fn(calls, ops, top_q)
    rs = O.run_family(c, facts, fam, TIMEOUT[tier], prop, known, clauses=("post.template", "decreases"), template_fn=fn)
    out = [r for r in rs if r["clause"] in ("post.template", "decreases", "unsupported")]
    if not any(r["clause"] == "post.template" for r in out):
        # every path refuses (library exception) or has no table entry: nothing to compare, say so
        out.append({"name": f"{prop}:{fam}:post.template", "clause": "excluded", "status": "discharged", "seconds": 0.0,
                    "backend": "finite-check", "reason": "the backend refuses this construct on every path (no translation to compare)"})
    return out


def canary(prop, calls):
    # must be refuted: substring without the index shift is not the prescribed term
    from vc.symexec import ExtVal, Sym
    c_args = [z3.Const("arg0", z3.IntSort()), z3.Const("arg1", z3.IntSort())]
    v = ExtVal("x.Substr", [ExtVal("visit", [Sym(c_args[0])]), ExtVal("visit", [Sym(c_args[1])]), None])
    w = ExtVal("x.substr", [ExtVal("visit", [Sym(c_args[0])]), ExtVal("visit", [Sym(c_args[1])])])
    want = calls["substring/2"]
    ctx = {"args": c_args, "U": None, "kind": "Call", "node": None}
    good = not T.match(v, want, ctx) and not T.match(w, want, ctx)
    return [{"name": f"{prop}:canary:substring-without-index-shift", "clause": "canary", "seconds": 0.0, "canary": True,
             "status": "discharged" if good else "undecided", "selfcheck_failed": not good,
             "reason": "a term without the `+ 1` does not match the table entry" if good else "canary NOT refuted"}]


SCRIPT = r'''
FILTERS = __FILTERS__
COLS = __COLS__
table = rows(__SEED__, __NROWS__)
bkey = __BKEY__
bad, ran, refused = [], 0, 0
for f in FILTERS:
    tree = ODataParser().parse(ODataLexer().tokenize(f))
    try:
        got = selected_by_orm(bkey, tree, table)
    except Exception as ex:
        bad.append([f, "execution error " + type(ex).__name__ + ": " + str(ex).splitlines()[0][:120]])
        continue
    if got is None:
        refused += 1
        continue
    want, skip = set(), False
    for i, r in enumerate(table):
        try:
            if den(tree, r) is True:
                want.add(i)
        except Undefined:
            skip = True
            break
    if skip:
        continue
    ran += 1
    if got != want:
        i = sorted(got ^ want)[0]
        bad.append([f, "row %r: selected=%s denoted=%s" % (table[i], i in got, i in want)])
print(json.dumps({"violates": bool(bad), "problems": bad, "filters": len(FILTERS), "ran": ran, "refused": refused, "rows": len(table)}))
'''


def native_script(bkey, filters, seed, nrows):
    from contracts.orm_native import ORM_NATIVE
    from contracts.sqlite_den import DEN
    den_part = DEN.split("def selected_by_sqlite")[0]
    return ORM_NATIVE + den_part + SCRIPT.replace("__FILTERS__", repr(filters)).replace("__COLS__", repr(ORM_COLS)) \
        .replace("__SEED__", str(seed)).replace("__NROWS__", str(nrows)).replace("__BKEY__", repr(bkey))


def bounded(prop, bkey, tier, known):
    t0 = time.time()
    seed = int(os.environ.get("VERIF_SEED", "0") or 0)
    nrows = 150 if tier == "quick" else 1500
    flt = battery()
    nat = native_run(native_script(bkey, flt, seed, nrows), timeout=1500)
    name = f"{prop}:semantics[{bkey}]:bounded"
    if "problems" not in nat:
        return [{"name": name, "clause": "bounded", "bounded": True, "status": "undecided", "seconds": time.time() - t0,
                 "reason": json.dumps(nat)[:300], "bound": "native run failed"}]
    kn = {}
    for f in known:
        if bkey in f.get("backends", [bkey]):
            for t in f.get("inputs", []):
                kn[t] = f["id"]
    new = [p for p in nat["problems"] if p[0] not in kn]
    hit = sorted({kn[p[0]] for p in nat["problems"] if p[0] in kn})
    return [{"name": name, "clause": "bounded", "bounded": True, "status": "discharged" if not new else "refuted",
             "seconds": time.time() - t0, "backend": f"{bkey} executed on in-memory SQLite vs reference semantics (bounded, not a proof)",
             "bound": f"{nat['filters']} filters ({nat['ran']} compared, {nat['refused']} refused by the backend) x {nat['rows']} rows from the "
                      f"adversarial domain (seed {seed}); {len(nat['problems']) - len(new)} mismatching filters explained by recorded findings {hit}",
             "reason": json.dumps(new[:3])[:400] if new else "selected rows equal the denoted rows for every filter outside the recorded findings",
             "native_script": native_script(bkey, [p[0] for p in new], seed, nrows), "solver_output": json.dumps(new[:3])[:600],
             "orm": bkey}]


def replay_spec(facts, r, samples):
    """refuted layer-1 obligations: run the battery filters that use the handler's function / operator natively"""
    if r.get("bounded") and r.get("native_script"):
        return {"native_script": r["native_script"], "input_text": r.get("bound"), "required": "the ORM selects exactly the denoted rows"}
    what = str(r.get("what") or "")
    bkey = r.get("orm")
    key = what.split("/")[0].lower()
    flt = [f for f in battery() if (key + "(" in f.lower())] if "/" in what else samples.get(what, [])
    if not flt or not bkey:
        return None
    return {"native_script": native_script(bkey, flt, 1, 150), "input_text": "; ".join(flt)[:300],
            "required": "the ORM selects exactly the denoted rows"}


OP_SAMPLES = {
    "BinOp": ["views add likes eq 2", "views sub likes gt 0", "views mul likes le 2", "views mod likes eq 1", "views sub (likes sub 1) eq 0"],
    "Compare": ["views eq 1", "views ne likes", "views lt likes", "views le 0", "views gt likes", "views ge likes", "views eq null", "views ne null",
                "views in (1, 2)", "title in ('a', 'ab')", "views add 1 ne 2", "views mul 2 ne 4", "not (views add 1 ne 2)", "2 ne views add 1"],
    "BoolOp": ["views eq 1 and likes eq 1", "views eq 1 or likes eq 1", "views eq 1 or likes eq 1 and public eq true"],
    "UnaryOp": ["not (views eq 1)", "not (views eq 1 and likes eq 1)"],
}
