"""Translation tables of the ORM back ends (C02 Django, C03 SQLAlchemy): for every operator and every built-in function,
the expression term the handler must build, written from the property statements and the ORMs' documentation
(Django database functions / lookups; SQLAlchemy column operators and `func`), independently of odata_query.

Terms are the uninterpreted-constructor terms of DESIGN 4.8 (contracts/ormcommon.py).  Template language:
   ("ext", name, [t..])            external constructor whose dotted name ends in `name`, positional arguments t..
   ("method", recv, name, [t..])   recv.name(t..)
   ("arg", i) / ("child", field)   the translation visit(<i-th call argument>) / visit(<node.field>)
   ("py", value)                   that Python constant
   ("extref", suffix)              a reference to an external object whose dotted name ends in suffix
   ("optQ", t)                     t, or Q(t)  (Django promotes a bare lookup to Q at the top of a filter)
"""
import z3

from vc.symexec import ExtRef, ExtVal, SBool, SInt, SStr, Sym


def E(name, *args):
    return ("ext", name, list(args))


def A(i):
    return ("arg", i)


def C(field):
    return ("child", field)


def PY(v):
    return ("py", v)


def M(recv, name, *args):
    return ("method", recv, name, list(args))


DJANGO_CALLS = {
    # Django: StrIndex is 1-based and 0 when absent; Substr(expr, pos (1-based), length=None)
    "concat/2": E("Concat", A(0), A(1)), "contains/2": E("Contains", A(0), A(1)), "startswith/2": E("StartsWith", A(0), A(1)),
    "endswith/2": E("EndsWith", A(0), A(1)), "indexof/2": E("sub", E("StrIndex", A(0), A(1)), PY(1)), "length/1": E("Length", A(0)),
    "substring/2": E("Substr", A(0), E("add", A(1), PY(1)), PY(None)), "substring/3": E("Substr", A(0), E("add", A(1), PY(1)), A(2)),
    "tolower/1": E("Lower", A(0)), "toupper/1": E("Upper", A(0)), "trim/1": E("Trim", A(0)), "matchesPattern/2": E("Regex", A(0), A(1)),
    "year/1": E("ExtractYear", A(0)), "month/1": E("ExtractMonth", A(0)), "day/1": E("ExtractDay", A(0)), "hour/1": E("ExtractHour", A(0)),
    "minute/1": E("ExtractMinute", A(0)), "second/1": E("ExtractSecond", A(0)), "date/1": E("TruncDate", A(0)), "time/1": E("TruncTime", A(0)),
    "now/0": E("Now"), "round/1": E("Round", A(0)), "floor/1": E("Floor", A(0)), "ceiling/1": E("Ceil", A(0)),
}
DJANGO_OPS = {
    ("BinOp", "Add"): E("add", C("left"), C("right")), ("BinOp", "Sub"): E("sub", C("left"), C("right")),
    ("BinOp", "Mult"): E("mul", C("left"), C("right")), ("BinOp", "Div"): E("truediv", C("left"), C("right")),
    ("BinOp", "Mod"): E("mod", C("left"), C("right")),
    ("Compare", "Eq"): E("Exact", C("left"), C("right")), ("Compare", "NotEq"): E("NotEqual", C("left"), C("right")),
    ("Compare", "Lt"): E("LessThan", C("left"), C("right")), ("Compare", "LtE"): E("LessThanOrEqual", C("left"), C("right")),
    ("Compare", "Gt"): E("GreaterThan", C("left"), C("right")), ("Compare", "GtE"): E("GreaterThanOrEqual", C("left"), C("right")),
    ("Compare", "In"): E("In", C("left"), C("right")),
    ("Compare", "Eq", "null"): E("IsNull", C("left"), PY(True)), ("Compare", "NotEq", "null"): E("IsNull", C("left"), PY(False)),
    ("BoolOp", "And"): E("and_", C("left"), C("right")), ("BoolOp", "Or"): E("or_", C("left"), C("right")),
    ("UnaryOp", "Not"): E("invert", ("optQ", C("operand"))),
}

SA_CALLS = {
    # SQLAlchemy: column.contains/startswith/endswith; strpos 1-based, 0 when absent; substr(expr, pos (1-based)[, length])
    "concat/2": E("concat", A(0), A(1)), "contains/2": M(A(0), "contains", A(1)), "startswith/2": M(A(0), "startswith", A(1)),
    "endswith/2": M(A(0), "endswith", A(1)), "indexof/2": E("sub", E("strpos", A(0), A(1)), PY(1)), "length/1": E("char_length", A(0)),
    "substring/2": E("substr", A(0), E("add", A(1), PY(1))), "substring/3": E("substr", A(0), E("add", A(1), PY(1)), A(2)),
    "tolower/1": E("lower", A(0)), "toupper/1": E("upper", A(0)), "trim/1": E("ltrim", E("rtrim", A(0))),
    "matchesPattern/2": M(A(0), "regexp_match", A(1)),
    "year/1": E("extract", PY("year"), A(0)), "month/1": E("extract", PY("month"), A(0)), "day/1": E("extract", PY("day"), A(0)),
    "hour/1": E("extract", PY("hour"), A(0)), "minute/1": E("extract", PY("minute"), A(0)), "second/1": E("extract", PY("second"), A(0)),
    "date/1": E("cast", A(0), ("extref", "Date")), "time/1": E("cast", A(0), ("extref", "Time")), "now/0": E("now"),
    "round/1": E("round", A(0)), "floor/1": E("floor", A(0)), "ceiling/1": E("ceil", A(0)),
}
SA_OPS = {
    ("BinOp", "Add"): E("add", C("left"), C("right")), ("BinOp", "Sub"): E("sub", C("left"), C("right")),
    ("BinOp", "Mult"): E("mul", C("left"), C("right")), ("BinOp", "Div"): E("truediv", C("left"), C("right")),
    ("BinOp", "Mod"): E("mod", C("left"), C("right")),
    ("Compare", "Eq"): E("eq", C("left"), C("right")), ("Compare", "NotEq"): E("ne", C("left"), C("right")),
    ("Compare", "Lt"): E("lt", C("left"), C("right")), ("Compare", "LtE"): E("le", C("left"), C("right")),
    ("Compare", "Gt"): E("gt", C("left"), C("right")), ("Compare", "GtE"): E("ge", C("left"), C("right")),
    ("Compare", "In"): M(C("left"), "in_", C("right")),
    ("BoolOp", "And"): E("and_", C("left"), C("right")), ("BoolOp", "Or"): E("or_", C("left"), C("right")),
    ("UnaryOp", "Not"): E("invert", C("operand")),
}
SA_ORM_OPS = dict(SA_OPS)
for _k, _n in (("Eq", "eq"), ("NotEq", "ne"), ("Lt", "lt"), ("LtE", "le"), ("Gt", "gt"), ("GtE", "ge")):
    SA_ORM_OPS[("Compare", _k)] = E(_n, ("fkopt", C("left")), ("fkopt", C("right")))
SA_ORM_OPS[("Compare", "In")] = M(("fkopt", C("left")), "in_", ("fkopt", C("right")))
OPFIELD = {"BinOp": ("op", ["Add", "Sub", "Mult", "Div", "Mod"]), "BoolOp": ("op", ["And", "Or"]),
           "Compare": ("comparator", ["Eq", "NotEq", "Lt", "LtE", "Gt", "GtE", "In"]), "UnaryOp": ("op", ["Not", "USub"])}


def last(name):
    return name.rsplit(".", 1)[-1]


def is_visit_of(v, term):
    return isinstance(v, ExtVal) and v.name == "visit" and v.args and isinstance(v.args[0], Sym) \
        and z3.simplify(v.args[0].term).eq(z3.simplify(term))


def match(v, t, ctx):
    k = t[0]
    if k == "optQ":
        if isinstance(v, ExtVal) and last(v.name) == "Q" and len(v.args) == 1 and not v.kwargs:
            return match(v.args[0], t[1], ctx)
        return match(v, t[1], ctx)
    if k == "arg":
        return is_visit_of(v, ctx["args"][t[1]])
    if k == "child":
        return is_visit_of(v, ctx["U"].field(ctx["kind"], t[1], ctx["node"]))
    if k == "fkopt":
        # SQLAlchemy ORM: an operand that is a to-one relationship is replaced by its foreign-key column
        # (next(iter(inspect(x).property._calculated_foreign_keys))); relationships are outside the scalar fragment (C04)
        if match(v, t[1], ctx):
            return True
        cur, depth = v, 0
        while isinstance(cur, ExtVal) and depth < 8:
            if last(cur.name) in ("next", "iter", "getattr", "inspect") and cur.args:
                cur = cur.args[0]
                depth += 1
                if match(cur, t[1], ctx):
                    return True
                continue
            break
        return False
    if k == "py":
        if isinstance(v, ExtVal) and last(v.name) in ("Value", "literal") and len(v.args) == 1 and not v.kwargs:
            v = v.args[0]           # a constant wrapped as a bound value means the same
        if isinstance(v, (ExtVal, ExtRef, Sym, SStr, SBool, SInt)):
            return False
        return type(v) is type(t[1]) and v == t[1]
    if k == "extref":
        return isinstance(v, ExtRef) and last(v.qualname) == t[1]
    if k == "ext":
        if not (isinstance(v, ExtVal) and last(v.name) == t[1] and not v.kwargs):
            return False
        want = list(t[2])
        while len(want) > len(v.args) and want[-1] == ("py", None):
            want.pop()              # an optional trailing argument left at its default
        return len(v.args) == len(want) and all(match(a, b, ctx) for a, b in zip(v.args, want))
    if k == "method":
        if not (isinstance(v, ExtVal) and v.name == "<call>" and v.args and not v.kwargs):
            return False
        f = v.args[0]
        if not (isinstance(f, ExtVal) and f.name == "getattr" and len(f.args) == 2 and f.args[1] == t[2]):
            return False
        return match(f.args[0], t[1], ctx) and len(v.args) - 1 == len(t[3]) and all(match(a, b, ctx) for a, b in zip(v.args[1:], t[3]))
    return False


def show(t):
    k = t[0]
    if k == "ext":
        return t[1] + "(" + ", ".join(show(x) for x in t[2]) + ")"
    if k == "method":
        return show(t[1]) + "." + t[2] + "(" + ", ".join(show(x) for x in t[3]) + ")"
    if k == "arg":
        return f"<arg{t[1]}>"
    if k == "child":
        return f"<{t[1]}>"
    if k == "py":
        return repr(t[1])
    if k == "extref":
        return t[1]
    if k == "optQ":
        return "[Q]" + show(t[1])
    if k == "fkopt":
        return show(t[1])
    return str(t)


def make_template_fn(calls, ops, top_q):
    """-> template_fn(c, is_call, what, path, node, arg_consts, value) -> None (no entry: nothing to compare) | (ok, why)"""
    from contracts import C09

    def fn(c, is_call, what, path, node, arg_consts, v):
        U = c["U"]
        if is_call:
            want = calls.get(what)
            if want is None:
                return None
            ctx = {"args": arg_consts, "U": U, "kind": "Call", "node": node}
        else:
            if what not in OPFIELD:
                return None
            fld, cands = OPFIELD[what]
            k = C09.op_kind_on_path(c, path, U.field(what, fld, node), cands)
            if k is None:
                return False, "operator kind not determined on this path"
            key = (what, k)
            if what == "Compare" and k in ("Eq", "NotEq") and path.entails(U.is_kind("Null", U.field("Compare", "right", node))) \
                    and (what, k, "null") in ops:
                key = (what, k, "null")
            want = ops.get(key)
            if want is None:
                return None         # no translation prescribed (e.g. unary minus): the backend may refuse
            ctx = {"args": [], "U": U, "kind": what, "node": node}
        tpl = ("optQ", want) if top_q else want
        ok = match(v, tpl, ctx)
        return ok, "" if ok else f"the handler builds {v!r}"[:220] + f"; the translation table prescribes {show(want)}"
    return fn
