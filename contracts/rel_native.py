"""Native fixture and reference semantics for navigation paths and any/all lambdas (C04), embedded into native scripts.

Schema (both ORMs):  Author(id, name)  1 --- *  Post(id, title, views, author -> Author NULL)  1 --- *  Comment(id, text, score, post -> Post NULL)
Root models: Post (to-one paths author/name; collection comments) and Author (collection posts, nested posts/any(p: p/comments/any(...))).
`den_rel` evaluates a filter on an object graph under the property's reading of OData: a missing related row is null;
any(): the collection is non-empty; any(x: p): some related row satisfies p; all(x: p): every related row satisfies p
(true for an empty collection); three-valued logic, only true rows kept.
"""
from contracts.sqlite_den import DEN

REL_NATIVE = DEN.split("def selected_by_sqlite")[0] + r'''
import warnings
warnings.filterwarnings("ignore")
from odata_query import exceptions

_REL = {}


def rel_models(bkey):
    if bkey in _REL:
        return _REL[bkey]
    if bkey == "django":
        import django, sys, types
        from django.conf import settings
        from django.apps import AppConfig
        if not settings.configured:
            # reverse relations (author.posts) are only resolved for models of an *installed* app: a scratch app made of
            # in-memory modules
            pkg = types.ModuleType("relapp")
            pkg.__path__ = []
            sys.modules["relapp"] = pkg

            class RelConfig(AppConfig):
                name = "relapp"
                label = "rel"
                path = "/dev/shm"
            am = types.ModuleType("relapp.apps")
            am.RelConfig = RelConfig
            sys.modules["relapp.apps"] = am
            settings.configure(DATABASES={"default": {"ENGINE": "django.db.backends.sqlite3", "NAME": ":memory:"}},
                               INSTALLED_APPS=["relapp.apps.RelConfig"], USE_TZ=True, DEFAULT_AUTO_FIELD="django.db.models.AutoField")
            django.setup()
        from django.db import models, connection

        class Author(models.Model):
            name = models.CharField(max_length=50, null=True)

            class Meta:
                app_label = "rel"

        class Post(models.Model):
            title = models.CharField(max_length=50, null=True)
            views = models.IntegerField(null=True)
            author = models.ForeignKey(Author, null=True, on_delete=models.CASCADE, related_name="posts")

            class Meta:
                app_label = "rel"

        class Comment(models.Model):
            text = models.CharField(max_length=50, null=True)
            score = models.IntegerField(null=True)
            post = models.ForeignKey(Post, null=True, on_delete=models.CASCADE, related_name="comments")

            class Meta:
                app_label = "rel"
        with connection.schema_editor() as ed:
            for m in (Author, Post, Comment):
                ed.create_model(m)
        _REL[bkey] = {"Author": Author, "Post": Post, "Comment": Comment}
    else:
        import sqlalchemy as sa
        from sqlalchemy.orm import declarative_base, relationship
        Base = declarative_base()

        class Author(Base):
            __tablename__ = "author"
            id = sa.Column(sa.Integer, primary_key=True)
            name = sa.Column(sa.String)
            posts = relationship("Post", back_populates="author")

        class Post(Base):
            __tablename__ = "post"
            id = sa.Column(sa.Integer, primary_key=True)
            title = sa.Column(sa.String)
            views = sa.Column(sa.Integer)
            author_id = sa.Column(sa.Integer, sa.ForeignKey("author.id"))
            author = relationship("Author", back_populates="posts")
            comments = relationship("Comment", back_populates="post")

        class Comment(Base):
            __tablename__ = "comment"
            id = sa.Column(sa.Integer, primary_key=True)
            text = sa.Column(sa.String)
            score = sa.Column(sa.Integer)
            post_id = sa.Column(sa.Integer, sa.ForeignKey("post.id"))
            post = relationship("Post", back_populates="comments")
        eng = sa.create_engine("sqlite://")
        Base.metadata.create_all(eng)
        _REL[bkey] = {"Author": Author, "Post": Post, "Comment": Comment, "engine": eng, "Base": Base}
    return _REL[bkey]


class O(dict):
    """a row of the object graph: dict of scalar columns plus links"""
    __getattr__ = dict.get


def make_db(seed, n_auth=4, n_post=7, n_com=9):
    rnd = random.Random(seed)
    authors = [O(id=i + 1, name=rnd.choice([None, "ann", "bob", "cy"]), posts=[]) for i in range(n_auth)]
    # child columns used inside lambda bodies are non-null (the property's quantifier); foreign keys and Author.name may be NULL
    posts = [O(id=i + 1, title=rnd.choice(["a", "b", "ab"]), views=rnd.choice([0, 1, 2, 5]), author=None, comments=[]) for i in range(n_post)]
    comments = [O(id=i + 1, text=rnd.choice(["x", "y"]), score=rnd.choice([-1, 0, 1, 3]), post=None) for i in range(n_com)]
    for p in posts:
        a = rnd.choice([None] + authors)
        p["author"] = a
        if a is not None:
            a["posts"].append(p)
    for c in comments:
        p = rnd.choice([None] + posts)
        c["post"] = p
        if p is not None:
            p["comments"].append(c)
    return {"Author": authors, "Post": posts, "Comment": comments}


def load_db(bkey, db):
    M = rel_models(bkey)
    if bkey == "django":
        for k in ("Comment", "Post", "Author"):
            M[k].objects.all().delete()
        M["Author"].objects.bulk_create([M["Author"](id=a.id, name=a.name) for a in db["Author"]])
        M["Post"].objects.bulk_create([M["Post"](id=p.id, title=p.title, views=p.views, author_id=p.author.id if p.author else None) for p in db["Post"]])
        M["Comment"].objects.bulk_create([M["Comment"](id=c.id, text=c.text, score=c.score, post_id=c.post.id if c.post else None) for c in db["Comment"]])
    else:
        eng = M["engine"]
        with eng.begin() as con:
            for k in ("Comment", "Post", "Author"):
                con.execute(M[k].__table__.delete())
            con.execute(M["Author"].__table__.insert(), [dict(id=a.id, name=a.name) for a in db["Author"]])
            con.execute(M["Post"].__table__.insert(), [dict(id=p.id, title=p.title, views=p.views, author_id=p.author.id if p.author else None) for p in db["Post"]])
            con.execute(M["Comment"].__table__.insert(), [dict(id=c.id, text=c.text, score=c.score, post_id=c.post.id if c.post else None) for c in db["Comment"]])


def den_rel(n, row, env=None):
    env = env or {}
    k = type(n).__name__
    if k == "Identifier":
        if n.name in env:
            return env[n.name]
        return row.get(n.name)
    if k == "Attribute":
        o = den_rel(n.owner, row, env)
        if o is None:
            return None
        return o.get(n.attr)
    if k == "CollectionLambda":
        coll = den_rel(n.owner, row, env)
        if coll is None:
            coll = []
        if n.lambda_ is None:
            return len(coll) > 0
        var = n.lambda_.identifier.name
        vals = []
        for r in coll:
            e2 = dict(env)
            e2[var] = r
            v = den_rel(n.lambda_.expression, row, e2)
            vals.append(None if v is None else truth(v))
        if type(n.operator).__name__ == "Any":
            if any(v is True for v in vals):
                return True
            return None if any(v is None for v in vals) else False
        if any(v is False for v in vals):
            return False
        return None if any(v is None for v in vals) else True
    if k in ("UnaryOp", "BinOp", "BoolOp", "Compare", "Call"):
        from odata_query import ast as A

        def lift(x):
            v = den_rel(x, row, env)
            if v is None:
                return None
            if isinstance(v, O):
                v = v.id            # a to-one relationship compared with a key: the related row's key

            if isinstance(v, bool):
                return A.Boolean("true" if v else "false")
            if isinstance(v, int):
                return A.Integer(str(v))
            if isinstance(v, float):
                return A.Float(repr(v))
            if isinstance(v, str):
                return A.String(v)
            raise Undefined("object-valued operand")
        if k == "BoolOp":
            l, r = den_rel(n.left, row, env), den_rel(n.right, row, env)
            l = None if l is None else truth(l)
            r = None if r is None else truth(r)
            if isinstance(n.op, A.And):
                if l is False or r is False:
                    return False
                return None if (l is None or r is None) else True
            if l is True or r is True:
                return True
            return None if (l is None or r is None) else False
        if k == "UnaryOp":
            v = den_rel(n.operand, row, env)
            if v is None:
                return None
            return (not truth(v)) if isinstance(n.op, A.Not) else -v
        if k == "Compare":
            o = type(n.comparator).__name__
            if isinstance(n.right, A.Null) and o in ("Eq", "NotEq"):
                v = den_rel(n.left, row, env)
                return (v is None) if o == "Eq" else (v is not None)
            l = lift(n.left)
            if isinstance(n.right, A.List):
                if l is None:
                    return None
                items = [lift(x) for x in n.right.val]
                return den(A.Compare(n.comparator, l, A.List([A.Null() if x is None else x for x in items])), {})
            r = lift(n.right)
            if l is None or r is None:
                return None
            return den(A.Compare(n.comparator, l, r), {})
        if k == "BinOp":
            l, r = lift(n.left), lift(n.right)
            if l is None or r is None:
                return None
            return den(A.BinOp(n.op, l, r), {})
        args = [lift(x) for x in n.args]
        if any(x is None for x in args):
            return None
        return den(A.Call(n.func, args), {})
    return den(n, row)


def selected_rel(bkey, root, tree):
    """ids of the `root` rows the backend's shorthand pipeline selects; None when the backend refuses the filter"""
    M = rel_models(bkey)
    try:
        if bkey == "django":
            from odata_query.django.django_q import AstToDjangoQVisitor
            v = AstToDjangoQVisitor(M[root])
            q = v.visit(tree)
            qs = M[root].objects.all()
            if v.queryset_annotations:
                qs = qs.annotate(**v.queryset_annotations)
            return sorted(qs.filter(q).values_list("id", flat=True))
        import sqlalchemy as sa
        from sqlalchemy.orm import Session
        from odata_query.sqlalchemy.orm import AstToSqlAlchemyOrmVisitor
        v = AstToSqlAlchemyOrmVisitor(M[root])
        w = v.visit(tree)
        q = sa.select(M[root].id)
        for j in v.join_relationships:
            q = q.join(j)
        with Session(M["engine"]) as ses:
            return sorted(x[0] for x in ses.execute(q.filter(w)).all())
    except exceptions.ODataException:
        return None
    except NotImplementedError:
        return None
'''
