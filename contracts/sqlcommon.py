"""Shared contracts of the raw-SQL visitors (C01, C07, C09, C12, C19): visit contract with reader ghost facts,
template -> reader -> obligations, data-hole conditions, operator-strength promises (DESIGN 5.3, 8)."""
import re
import time

import z3

from contracts import C18
from contracts import lexspec
from vc import automata as A
from vc import reader as R
from vc.deffun import DefFun
from vc.propkit import explore, judge, src_of, is_lib_exc, outcomes_to_results  # noqa
from vc.speclib import below_input, fresh_node, EXPR_KINDS, SHAPE
from vc.symexec import (Atom, ExtVal, FuncRef, ListObj, Obj, Obligation, SStr, SeqMap, Sym, Unsupported, mk_str)

VISITORS = {
    "standard": ("odata_query.sql.base.AstToSqlVisitor", R.STANDARD),
    "sqlite": ("odata_query.sql.sqlite.AstToSqliteSqlVisitor", R.SQLITE),
    "athena": ("odata_query.sql.athena.AstToAthenaSqlVisitor", R.STANDARD),
    "odata": ("odata_query.roundtrip.AstToODataVisitor", R.ODATA),
}
OD_BINOP = {"Add": "ADD", "Sub": "SUB", "Mult": "MUL", "Div": "DIV", "Mod": "MOD"}
OD_CMP = {"Eq": "EQ", "NotEq": "NE", "Lt": "LT", "LtE": "LE", "Gt": "GT", "GtE": "GE", "In": "IN"}
OD_BOOL = {"And": "AND", "Or": "OR"}
VISIT = "odata_query.visitor.NodeVisitor.visit"
OP_KINDS = ["Add", "Sub", "Mult", "Div", "Mod", "Eq", "NotEq", "Lt", "LtE", "Gt", "GtE", "In", "And", "Or", "Not", "USub",
            "Any", "All"]
LITERAL_RULE = {("Integer", "val"): "INTEGER", ("Float", "val"): "DECIMAL", ("Boolean", "val"): "BOOLEAN",
                ("GUID", "val"): "GUID", ("Date", "val"): "DATE", ("Time", "val"): "TIME", ("DateTime", "val"): "DATETIME"}
_CTX = {}

SQL_BINOP = {"Add": "+", "Sub": "-", "Mult": "*", "Div": "/", "Mod": "%"}
SQL_CMP = {"Eq": "=", "NotEq": "!=", "Lt": "<", "LtE": "<=", "Gt": ">", "GtE": ">=", "In": "IN"}
SQL_BOOL = {"And": "AND", "Or": "OR"}


def build(facts):
    if "c" in _CTX:
        return _CTX["c"]
    c18 = C18.build(facts)
    E, U, PV, S = c18["E"], c18["U"], c18["PV"], c18["S"]
    c = dict(c18)
    from vc import stdmodels
    stdmodels.install_regex(E)
    c["facts"] = facts
    c["visit_uf"] = {}
    _CTX["c"] = c
    return c


def handled_kinds(facts, cls):
    m = facts.classes[cls]["members"]
    return [k for k in facts.kinds if ("visit_" + k) in m]


# ------------------------------------------------------------------------------------------
# operator strengths promised for the text of a node (spec, per dialect)
# ------------------------------------------------------------------------------------------
def lmin(c, dialect, t, side):
    """Exposed binding strength promised for visit(t) on its left / right edge (z3 Int)."""
    U = c["U"]
    D = dialect
    fld = U.field
    INF = z3.IntVal(R.INF)

    def by_op(kind, field, table):
        op = fld(kind, field, t)
        e = INF
        for k, txt in table.items():
            e = z3.If(U.is_kind(k, op), z3.IntVal(D.binary[txt]), e)
        return e
    out = INF
    od = D.name == "odata"
    out = z3.If(U.is_kind("BinOp", t), by_op("BinOp", "op", OD_BINOP if od else SQL_BINOP), out)
    cmp_level = by_op("Compare", "comparator", OD_CMP if od else SQL_CMP)
    # `x eq null` / `x ne null` are printed with IS / IS NOT (same level as = in the SQL dialects)
    out = z3.If(U.is_kind("Compare", t), cmp_level, out)
    out = z3.If(U.is_kind("BoolOp", t), by_op("BoolOp", "op", OD_BOOL if od else SQL_BOOL), out)
    if side == "R":
        un = z3.If(U.is_kind("Not", fld("UnaryOp", "op", t)), z3.IntVal(D.prefix["NOT"]), z3.IntVal(D.prefix["-"]))
        out = z3.If(U.is_kind("UnaryOp", t), un, out)
    return out


# ------------------------------------------------------------------------------------------
# first character promised for the text of a node (spec, per reader): may it fuse with a sign printed directly in front?
#   SQL readers:  `-` + text starting with `-` opens a comment        -> danger = "may start with a minus sign"
#   OData reader: `-` + text starting with a digit is a signed number -> danger = "may start with a digit"
# An over-approximation ("may") is sound on both sides: a function promises `not danger(node) => its text does not start with
# such a character`, and a sign directly in front of a child's text needs `not danger(child)`.
# ------------------------------------------------------------------------------------------
def lead_danger(c, dialect):
    od = dialect.name == "odata"
    key = "lead_danger_" + ("odata" if od else "sql")
    if key in c:
        return c[key]
    U, PV = c["U"], c["PV"]
    fld = U.field
    T, F = z3.BoolVal(True), z3.BoolVal(False)
    holder = {}

    def body(t):
        f = holder["f"]
        out = F

        def sval(k):
            return PV.s(fld(k, "val", t))
        if od:
            for k in ("Integer", "Float"):
                out = z3.If(U.is_kind(k, t), z3.Not(z3.Or(z3.PrefixOf(z3.StringVal("-"), sval(k)),
                                                          z3.PrefixOf(z3.StringVal("+"), sval(k)))), out)
            for k in ("Date", "Time", "DateTime", "GUID"):
                out = z3.If(U.is_kind(k, t), T, out)
            for k in ("Attribute", "CollectionLambda"):
                out = z3.If(U.is_kind(k, t), f(fld(k, "owner", t)), out)
        else:
            for k in ("Integer", "Float"):
                out = z3.If(U.is_kind(k, t), z3.PrefixOf(z3.StringVal("-"), sval(k)), out)
            out = z3.If(U.is_kind("Duration", t), T, out)          # the sign of a duration is printed in front
            out = z3.If(U.is_kind("UnaryOp", t), U.is_kind("USub", fld("UnaryOp", "op", t)), out)
            args = PV.items(fld("Call", "args", t))
            out = z3.If(U.is_kind("Call", t), z3.If(z3.Length(args) > 0, f(args[0]), F), out)
        for k in ("BinOp", "Compare", "BoolOp"):
            out = z3.If(U.is_kind(k, t), f(fld(k, "left", t)), out)
        return out
    holder["f"] = DefFun(key, [PV], z3.BoolSort(), body)
    c[key] = (holder["f"], body)
    return c[key]


def data_lead_safe(c, hole, dialect):
    """The text of a data hole cannot start with the reader's fusing character: True | z3 Bool | None (undecided)."""
    if hole.kind != "data":
        return False
    info = hole.payload
    od = dialect.name == "odata"
    tr = list(info.transforms)
    if any(t[0] in ("opaque", "py_str") for t in tr):
        return None
    try:
        P = A.Parser(c["facts"].raw["unicode"])
        bad = P.parse(r"\d[\s\S]*", 0) if od else A.Cat([A.lit("-"), A.anystar()])
        g = A.Group({"L": _mapped(P, c, info, tr), "BAD": bad})
        if g.intersect_witness("L", "BAD") is None:
            return True
    except Exception:
        pass
    if all(t[0] in ("upper", "lower") for t in tr) and info.base_term is not None and info.kind in ("Integer", "Float"):
        s = info.base_term
        minus, plus = z3.PrefixOf(z3.StringVal("-"), s), z3.PrefixOf(z3.StringVal("+"), s)
        return z3.Or(minus, plus) if od else z3.Not(minus)
    return None


# ------------------------------------------------------------------------------------------
# visit contract
# ------------------------------------------------------------------------------------------
def install_visit_contract(c, dkey, frag=None):
    E, U, PV = c["E"], c["U"], c["PV"]
    cls, dialect = VISITORS[dkey]
    vis = c["visit_uf"].setdefault(dkey, z3.Function("sqltext_" + dkey, PV, z3.StringSort()))
    handled = handled_kinds(c["facts"], cls)

    def contract(E, path, fref, args, kwargs):
        self_val, arg = args[0], args[1]
        if not (isinstance(self_val, Obj) and self_val.cls == cls):
            return NotImplemented
        t = E.to_pv(arg)
        # operator tokens are rendered by their one-line handlers: executed, not contracted
        if path.entails(U.is_node(t, OP_KINDS)):
            return NotImplemented
        path.oblige("pre.frag", z3.And(U.is_node(t, handled), c["shape"](t)) if frag is None else frag(t))
        path.oblige("decreases", z3.BoolVal(below_input(path, t, U)), {"arg": str(t)[:120]})
        # may raise a library exception (unsupported function, argument type): allowed outcome of the whole visit
        k = path.choose([("returns", None), ("raises-library-exception", None)])
        if k == 1:
            from vc.symexec import Raised, ExcVal
            raise Raised(ExcVal("odata_query.exceptions.ODataException",
                                c["facts"].classes["odata_query.exceptions.ODataException"]["mro"], ("callee",)))
        return SStr([Atom(vis(t), ("visit", t))])

    E.contracts[VISIT] = contract
    return vis


def make_self(c, dkey, symbolic_alias=True):
    E, U, PV = c["E"], c["U"], c["PV"]
    cls, _ = VISITORS[dkey]
    alias = z3.Const("alias", PV)

    def mk_none(path):
        # the alias matters only where identifiers are rendered (visit_Identifier is checked with a symbolic alias)
        path.assume(U.is_tag("NoneV", alias))
        return Obj(cls, {"table_alias": None})
    if not symbolic_alias:
        return mk_none, alias

    def mk(path):
        # table alias: None or a string without a double quote (it comes from the application: alias_ok)
        path.assume(z3.Or(U.is_tag("NoneV", alias),
                          z3.And(U.is_tag("StrV", alias), z3.Not(z3.Contains(PV.s(alias), z3.StringVal('"'))))))
        return Obj(cls, {"table_alias": Sym(alias)})
    return mk, alias


# ------------------------------------------------------------------------------------------
# template -> reader parts
# ------------------------------------------------------------------------------------------
class DataInfo:
    def __init__(self, base_term, transforms, kind=None, field=None, is_alias=False, raw_atom=None):
        self.base_term = base_term          # z3 String term of the raw data
        self.transforms = transforms        # list of ('replace', old, new) | ('upper',) | ('lower',) | ('opaque', name) ...
        self.kind, self.field = kind, field
        self.is_alias = is_alias
        self.raw_atom = raw_atom


def classify_atom(c, atom, alias_term):
    """Atom of a symbolic string -> reader Hole"""
    U, PV = c["U"], c["PV"]
    o = atom.origin
    if o and o[0] == "visit":
        return R.Hole("expr", o[1])
    if o and o[0] == "join_map":
        sep, sm = o[1], o[2]
        ev = sm.elem_value
        if sep == ", " and isinstance(ev, SStr) and len(ev.parts) == 1 and isinstance(ev.parts[0], Atom) \
                and ev.parts[0].origin[0] == "visit" and z3.simplify(ev.parts[0].origin[1]).eq(sm.elem_var):
            return R.Hole("list", sm.seq_term)
        return R.Hole("opaque", ("join", atom))
    if o and o[0] == "join_map_filtered":
        # the items' translations joined after a content-dependent selection (dict.fromkeys, set, ...): not the list of the items
        return R.Hole("opaque", ("join", atom))
    # data: peel transformations down to a raw field
    transforms = []
    cur = atom
    while True:
        oo = cur.origin
        if oo and oo[0] == "replace":
            transforms.append(("replace", oo[2], oo[3]))
            inner = oo[1]
        elif oo and oo[0] in ("upper", "lower"):
            transforms.append((oo[0],))
            inner = oo[1]
        elif oo and oo[0] == "resub":
            transforms.append(("resub", oo[2], oo[3]))
            inner = oo[1]
        elif oo and oo[0] == "slice" and oo[2] is None and oo[3] == -1:
            transforms.append(("droplast",))
            inner = oo[1]
        elif oo and oo[0] in ("term", "slice", "py_str", "py_str_obj", "py_repr", "join_seq", "cls_name") or not oo:
            break
        else:
            transforms.append(("opaque", oo[0]))
            inner = oo[1] if len(oo) > 1 and isinstance(oo[1], SStr) else None
            if inner is None:
                break
        if isinstance(inner, SStr) and len(inner.parts) == 1 and isinstance(inner.parts[0], Atom):
            cur = inner.parts[0]
        else:
            transforms.append(("opaque", "compound"))
            break
    transforms.reverse()
    base = cur.term
    bs = z3.simplify(base)
    if alias_term is not None and bs.eq(z3.simplify(PV.s(alias_term))):
        return R.Hole("alias", DataInfo(base, transforms, is_alias=True, raw_atom=atom))
    kind = field = None
    if z3.is_app(bs) and bs.decl().name() == "s" and bs.num_args() == 1:
        inner = bs.arg(0)
        if z3.is_app(inner) and inner.decl().kind() == z3.Z3_OP_DT_ACCESSOR:
            nm = inner.decl().name()
            if "_" in nm:
                kind, field = nm.split("_", 1)
        elif inner.get_id() in c.get("field_consts", {}):
            kind, field = c["field_consts"][inner.get_id()]
    rg = None
    if z3.is_app(bs):
        rg = c.get("regroups", {}).get(bs.get_id())
    if rg is not None:
        kind, field = "regroup", rg
    if cur.origin and cur.origin[0] == "py_str":
        transforms.insert(0, ("py_str", cur.origin[2] if len(cur.origin) > 2 else "?"))
    return R.Hole("data", DataInfo(base, transforms, kind, field, raw_atom=atom))


def to_parts(c, value, alias_term):
    if isinstance(value, str):
        return [value]
    if isinstance(value, SStr):
        return [p if isinstance(p, str) else classify_atom(c, p, alias_term) for p in value.parts]
    return None


# ------------------------------------------------------------------------------------------
# data-hole conditions
# ------------------------------------------------------------------------------------------
_LANG_CACHE = {}


def field_language(c, kind, field):
    """Regex AST (vc.automata) of what the parser can put into kind.field, from the tree's own lexer rules;
    None = any string."""
    facts = c["facts"]
    key = (kind, field)
    if key in _LANG_CACHE:
        return _LANG_CACHE[key]
    P = A.Parser(facts.raw["unicode"])
    lx = facts.raw["lexer"]
    pats = {r["name"]: r["pattern"] for r in lx["rules"]}
    node = None
    if key in LITERAL_RULE:
        node = P.parse(pats[LITERAL_RULE[key]], lx["reflags"])
    elif key == ("Identifier", "name") or key == ("Attribute", "attr"):
        # a dot-free piece of the identifier token
        node = A.Rep(P.parse(r"\w", 0), 1, None)
    elif key == ("Duration", "val"):
        env = facts.module_env("odata_query.ast").get("DURATION_PATTERN")
        node = P.parse(env["pattern"], env["flags"] & ~re.U) if env and env.get("k") == "regex" else None
    elif key == ("Geography", "val"):
        # the GEOGRAPHY action keeps the body between the quotes verbatim (doubled quotes stay doubled)
        node = P.parse(r"(?:[^']|'')*", 0)
    _LANG_CACHE[key] = node
    return node


def image(node, transforms, P):
    """language image under per-character transformations; None if a transformation is not a character map"""
    def cm(ch):
        for t in transforms:
            if t[0] == "replace" and len(t[1]) == 1:
                ch = "".join(t[2] if x == t[1] else x for x in ch)
            elif t[0] == "upper":
                ch = ch.upper()
            elif t[0] == "lower":
                ch = ch.lower()
            else:
                raise A.RegexUnsupported(t[0])
        return ch
    return cm


def data_condition(c, hole, context, dialect):
    """-> (ok: bool | None(undecided), reason)"""
    info = hole.payload
    P = A.Parser(c["facts"].raw["unicode"])
    if hole.kind == "alias":
        if context == "qid" and not info.transforms:
            return True, "table alias inside a quoted identifier (alias_ok: no double quote)"
        return False, f"table alias in {context} position"
    tr = list(info.transforms)
    c["regroups"] = c.get("regroups", {})
    if any(t[0] in ("opaque", "py_str") for t in tr):
        return False, f"data passes through an unmodelled transformation {tr}"
    lang = field_language(c, info.kind, info.field) if info.kind and info.kind != "regroup" else None
    any_string = lang is None and info.kind != "regroup" and not (tr and tr[-1][0] == "resub")

    def chars_image_ok(allowed_char, replaced_ok):
        """per-character homomorphism lemma: every character's image lies in the allowed block language"""
        return None
    if context == "str":
        # content of '...' must be in ([^']|'')*
        if any_string:
            # arbitrary characters: each character's image must be a block of ([^']|'')*
            def img(ch):
                for t in tr:
                    if t[0] == "replace":
                        if len(t[1]) != 1:
                            return None
                        ch = "".join(t[2] if x == t[1] else x for x in ch)
                    elif t[0] == "upper":
                        ch = ch.upper()
                    elif t[0] == "lower":
                        ch = ch.lower()
                return ch
            for probe in ("'", "a", "%", "_", "\\", '"'):
                r = img(probe)
                if r is None:
                    return False, "multi-character replace pattern on arbitrary text"
                if not re.fullmatch(r"(?:[^']|'')*", r):
                    return False, f"character {probe!r} is spliced as {r!r} inside a '...' literal (quote not doubled)"
            # all other characters are mapped by the same per-character rules as 'a' (replace patterns are the probes)
            pats = {t[1] for t in tr if t[0] == "replace"}
            if not pats <= {"'", "%", "_", "\\", '"'}:
                return None, f"replace patterns {pats} outside the probed set"
            return True, "per-character images are blocks of ([^']|'')* (homomorphism lemma)"
        try:
            node = _mapped(P, c, info, tr)
        except A.RegexUnsupported as ex:
            return None, f"language image not computable: {ex}"
        g = A.Group({"L": node, "OK": P.parse(r"(?:[^']|'')*", 0)})
        w = g.subset_witness("L", "OK")
        return (w is None), ("every value is a well-formed literal body" if w is None
                             else f"value {w!r} carries an undoubled quote into a '...' literal")
    if context == "qid":
        if any_string:
            return False, "arbitrary text inside a quoted identifier"
        try:
            node = _mapped(P, c, info, tr)
        except A.RegexUnsupported as ex:
            return None, f"language image not computable: {ex}"
        g = A.Group({"L": node, "BAD": A.Cat([A.anystar(), A.lit('"'), A.anystar()])})
        w = g.intersect_witness("L", "BAD")
        return (w is None), ("identifier language has no double quote" if w is None else f"name {w!r} breaks out of the quoted identifier")
    if context == "bare" and dialect.name == "odata":
        if not tr and info.kind in ("Integer", "Float", "Boolean", "Date", "Time", "DateTime", "GUID") and info.field == "val":
            return True, "the literal's own token text"
        if not tr and info.kind == "Identifier" and info.field in ("name", "namespace"):
            return True, "identifier part"
        if not tr and info.kind == "Attribute" and info.field == "attr":
            return True, "path segment"
        return False, f"{info.kind}.{info.field} spliced bare with transformations {tr}"
    if context == "bare":
        if any_string:
            return False, "arbitrary text spliced outside any literal"
        try:
            node = _mapped(P, c, info, tr)
        except A.RegexUnsupported as ex:
            return None, f"language image not computable: {ex}"
        ok_lang = P.parse(r"[+-]?[0-9]+(?:\.[0-9]+)?(?:[eE][+-]?[0-9]+)?|TRUE|FALSE|NULL", 0)
        g = A.Group({"L": node, "OK": ok_lang})
        w = g.subset_witness("L", "OK")
        return (w is None), ("bare data is a SQL number / keyword token" if w is None
                             else f"bare value {w!r} is not a SQL numeric literal or keyword")
    return None, f"unknown context {context}"


def _mapped(P, c, info, tr):
    """regex of the image of the field's token language under the per-character transformations"""
    facts = c["facts"]
    lx = facts.raw["lexer"]
    key = (info.kind, info.field)

    def cm(ch):
        for t in tr:
            if t[0] == "replace":
                if len(t[1]) != 1:
                    raise A.RegexUnsupported("multi-character replace")
                ch = "".join(t[2] if x == t[1] else x for x in ch)
                if len(ch) != 1:
                    raise A.RegexUnsupported("replace changes length")
            elif t[0] == "upper":
                ch = ch.upper()
            elif t[0] == "lower":
                ch = ch.lower()
        return ch
    if info.kind == "regroup":
        return _group_language(P, info.field, tr)
    if tr and tr[-1][0] == "resub":
        # re.sub(<negated class>, repl, text): every character outside the class is replaced, so the result is a
        # string over (class | repl)
        pat, repl = tr[-1][1], tr[-1][2]
        import re as _re
        m = _re.fullmatch(r"\[\^(.+)\]", pat)
        if not m:
            raise A.RegexUnsupported("re.sub with a pattern that is not a negated class")
        return A.Rep(A.Alt([P.parse("[" + m.group(1) + "]", 0), A.lit(repl)]), 0, None)
    charmap = cm if tr else None
    pats = {r["name"]: r["pattern"] for r in lx["rules"]}
    if key in LITERAL_RULE:
        return P.parse(pats[LITERAL_RULE[key]], lx["reflags"], charmap=charmap)
    if key in (("Identifier", "name"), ("Attribute", "attr")):
        return A.Rep(P.parse(r"\w", 0, charmap=None), 1, None) if not tr else A.Rep(A.ANY, 0, None)
    if key == ("Duration", "val"):
        env = facts.module_env("odata_query.ast").get("DURATION_PATTERN")
        return P.parse(env["pattern"], env["flags"] & ~re.U, charmap=charmap)
    if key == ("Geography", "val") and not tr:
        return P.parse(r"(?:[^']|'')*", 0)
    raise A.RegexUnsupported(f"no language for {key}")


def _group_language(P, rg, tr):
    """language of capturing group `idx` of `pattern` (optionally without its last, literal character)"""
    pattern, flags, idx = rg
    import re as _re
    tree = A.sre_parse.parse(pattern, flags & ~_re.U)
    found = []

    def walk(items):
        for op, av in items:
            if op == A.sre_c.SUBPATTERN:
                group, _, _, sub = av
                if group == idx:
                    found.append(sub)
                walk(sub)
            elif op in (A.sre_c.MAX_REPEAT, A.sre_c.MIN_REPEAT):
                walk(av[2])
            elif op == A.sre_c.BRANCH:
                for alt in av[1]:
                    walk(alt)
    walk(tree)
    if not found:
        raise A.RegexUnsupported(f"group {idx} not found")
    sub = list(found[0])
    for t in tr:
        if t[0] == "droplast":
            if not sub or sub[-1][0] != A.sre_c.LITERAL:
                raise A.RegexUnsupported("group does not end with a literal character")
            sub = sub[:-1]
        else:
            raise A.RegexUnsupported(f"transformation {t[0]} on a regex group")
    ic = bool(flags & _re.I)
    return P._seq(sub, ic, None)


# ------------------------------------------------------------------------------------------
# reading a handler result
# ------------------------------------------------------------------------------------------
def read_result(c, dkey, value, alias_term):
    _, dialect = VISITORS[dkey]
    parts = to_parts(c, value, alias_term)
    if parts is None:
        return None
    return R.read(dialect, parts), parts


def reader_obligations(c, dkey, path, node, value, alias_term, spec_tree=None, promise=True, info=None):
    """All reader obligations for one handler outcome: [(clause, goal, info)]"""
    U = c["U"]
    _, dialect = VISITORS[dkey]
    out = []
    if isinstance(value, Sym) and path.entails(U.is_tag("StrV", value.term)):
        value = c["E"].from_pv(U.strv(c["PV"].s(value.term)))
    if not isinstance(value, (str, SStr)):
        out.append(("post.wf", z3.BoolVal(False), {"problem": f"handler returned {type(value).__name__}, not text: {value!r}"[:200]}))
        return out
    rd, parts = read_result(c, dkey, value, alias_term)
    text = "".join(p if isinstance(p, str) else "{" + p.kind + "}" for p in parts)
    probs = rd["problems"]
    out.append(("post.wf", z3.BoolVal(not probs), {"template": text[:300], "problems": "; ".join(probs)[:300]}))
    # operand strength side conditions
    for hole, side, p, strict, what in rd["side"]:
        child = hole.payload
        lv = lmin(c, dialect, child, side)
        goal = (lv > p) if strict else (lv >= p)
        out.append((f"side.{'left' if side == 'R' else 'right'}", goal,
                    {"template": text[:200], "what": what, "needs": f"{'>' if strict else '>='} {p}", "child": str(child)[:80]}))
    # promised strength of the whole
    if promise:
        for side, key in (("L", "lvlL"), ("R", "lvlR")):
            cst, refs = rd[key]
            want = lmin(c, dialect, node, side)
            # nothing binds tighter than a prefix sign in SQL: an exposed unary minus satisfies any promise
            cap = max(dialect.prefix.values())
            cap = cap if cap > max(dialect.binary.values()) else R.INF
            want = z3.If(want > cap, z3.IntVal(cap), want)
            goal = z3.IntVal(cst) >= want
            for hole, s2 in refs:
                lv = lmin(c, dialect, hole.payload, s2)
                goal = z3.And(goal, z3.If(lv > cap, z3.IntVal(cap), lv) >= want)
            out.append(("post.lvl", goal, {"template": text[:200], "side": side, "exposes": cst}))
    # a sign printed directly in front of a spliced text, and the first character this text itself promises
    danger, danger_body = lead_danger(c, dialect)
    od = dialect.name == "odata"

    def lead_safe(hole):
        if hole.kind == "expr":
            return z3.Not(danger(hole.payload))
        r = data_lead_safe(c, hole, dialect)
        return r if (r is None or z3.is_expr(r)) else z3.BoolVal(bool(r))
    for hole, ch in rd.get("adj", []):
        inf = {"template": text[:200], "what": f"`{ch}` directly in front of a spliced text",
               "needs": "the text does not start with " + ("a digit (`-1` is a signed number)" if od else "`-` (`--` opens a comment)")}
        goal = lead_safe(hole)
        if hole.kind == "expr":
            # one obligation per kind of the child: each failing kind gets its own counterexample
            rest = z3.BoolVal(True)
            for k in EXPR_KINDS:
                out.append(("side.adj", z3.Implies(U.is_kind(k, hole.payload), goal), dict(inf, child_kind=k)))
                rest = z3.And(rest, z3.Not(U.is_kind(k, hole.payload)))
            out.append(("side.adj", z3.Implies(rest, goal), dict(inf, child_kind="other")))
        else:
            out.append(("side.adj", goal, inf))
    if promise and rd.get("lead") is not None:
        kind_, x = rd["lead"]
        if kind_ == "const":
            safe = z3.BoolVal(not (x.isdigit() if od else x == "-"))
        else:
            safe = lead_safe(x)
        mine = danger_body(node)
        inf = {"template": text[:200], "promise": "the text starts with " + ("a digit" if od else "`-`") + " only if the spec says it may"}
        if safe is None:
            if not path.entails(mine):
                out.append(("post.lead", None, inf))
        else:
            out.append(("post.lead", z3.Implies(z3.Not(mine), safe), inf))
    # data holes
    for hole, ctx, _ in rd["data"]:
        if hole.kind == "opaque":
            continue            # reported below as an unrecognised spliced value
        ok, reason = data_condition(c, hole, ctx, dialect)
        inf = {"template": text[:200], "context": ctx, "reason": reason,
               "field": f"{hole.payload.kind}.{hole.payload.field}" if hole.kind == "data" else "alias"}
        if ok is None:
            out.append(("hole.data", None, inf))
        else:
            out.append(("hole.data", z3.BoolVal(bool(ok)), inf))
    for p in parts:
        if isinstance(p, R.Hole) and p.kind == "opaque":
            out.append(("hole.data", z3.BoolVal(False), {"template": text[:200], "reason": "unrecognised spliced value"}))
    # tree
    if spec_tree is not None:
        ok, why = spec_tree(rd["tree"], rd["used"])
        out.append(("post.tree", z3.BoolVal(bool(ok)), {"template": text[:200], "tree": str(rd["tree"])[:300], "why": why}))
    return out


# ------------------------------------------------------------------------------------------
# native replay: real visitor output, read by the same dialect grammar (vc/reader.py is dependency-free),
# compared with the mirror of the filter's tree; SQLite text is also executed
# ------------------------------------------------------------------------------------------
SQL_REPLAY = r'''
import json, sys
sys.path.insert(0, VERIF_ROOT)
from vc import reader as R
from odata_query import ast, exceptions
from odata_query.sql import AstToSqlVisitor, AstToSqliteSqlVisitor, AstToAthenaSqlVisitor
VIS = {"standard": (AstToSqlVisitor, R.STANDARD), "sqlite": (AstToSqliteSqlVisitor, R.SQLITE), "athena": (AstToAthenaSqlVisitor, R.STANDARD)}
BIN = {"Add": "+", "Sub": "-", "Mult": "*", "Div": "/", "Mod": "%", "Eq": "=", "NotEq": "!=", "Lt": "<", "LtE": "<=", "Gt": ">",
       "GtE": ">=", "In": "IN", "And": "AND", "Or": "OR"}

def mirror(n):
    k = type(n).__name__
    if k in ("BinOp", "BoolOp"):
        return ("bin", BIN[type(n.op).__name__], mirror(n.left), mirror(n.right))
    if k == "Compare":
        op = BIN[type(n.comparator).__name__]
        if isinstance(n.right, ast.Null) and op in ("=", "!="):
            op = "IS" if op == "=" else "IS NOT"
        return ("bin", op, mirror(n.left), mirror(n.right))
    if k == "UnaryOp":
        return ("un", "NOT" if isinstance(n.op, ast.Not) else "-", mirror(n.operand))
    if k == "List":
        return ("list", len(n.val))
    return ("any",)


def dup_lists(n):
    # the same tree with the first item of every list literal repeated (repeats are legal and must be kept)
    import dataclasses
    if isinstance(n, list):
        return [dup_lists(x) for x in n]
    if not dataclasses.is_dataclass(n):
        return n
    kw = {f.name: dup_lists(getattr(n, f.name)) for f in dataclasses.fields(n)}
    if isinstance(n, ast.List) and kw["val"]:
        kw["val"] = [kw["val"][0]] + list(kw["val"])
    return type(n)(**kw)

def strip(t):
    while isinstance(t, tuple) and t and t[0] == "paren":
        t = t[1]
    return t

def same(parsed, want):
    parsed = strip(parsed)
    if want[0] == "any":
        return True
    if want[0] == "list":
        if not isinstance(parsed, tuple):
            return False
        if want[1] == 1:
            return True        # `(x)` reads as a parenthesised expression in SQL: same value
        return parsed[0] == "list" and len([x for x in parsed[1:] if x != ("trailing-comma",)]) == want[1]
    if not isinstance(parsed, tuple) or parsed[0] != want[0] or parsed[1] != want[1]:
        return False
    return all(same(p, w) for p, w in zip(parsed[2:], want[2:]))

def check(dkey, tree, alias):
    V, D = VIS[dkey]
    try:
        text = V(alias).visit(tree)
    except exceptions.ODataException as ex:
        return None
    except Exception as ex:
        return "foreign exception " + type(ex).__name__ + ": " + str(ex)[:120]
    if not isinstance(text, str):
        return "visitor returned " + repr(text)[:80]
    rd = R.read(D, [text])
    if rd["problems"]:
        return "not well-formed SQL: %r (%s)" % (text[:160], "; ".join(rd["problems"])[:160])
    if not same(rd["tree"], mirror(tree)):
        return "SQL %r groups differently from the filter" % text[:200]
    return None
'''


def sql_replay_script(witness_src, dkey, alias_src="None", battery=False):
    import os
    from contracts.native_ref import NATIVE_REF
    root = os.path.dirname(os.path.dirname(os.path.abspath(__file__)))
    return NATIVE_REF + SQL_REPLAY.replace("VERIF_ROOT", repr(root)) + f"""
from odata_query.grammar import ODataLexer, ODataParser
trees = []
try:
    trees.append(sanitize({witness_src}))
    trees.append(dup_lists(trees[0]))
except Exception as ex:
    pass
BATTERY = {BATTERY!r} if {battery!r} else []
for t in BATTERY:
    try:
        trees.append(ODataParser().parse(ODataLexer().tokenize(t)))
    except Exception:
        pass
alias = {alias_src}
if not isinstance(alias, str) or '"' in alias:
    alias = None
problems = []
for tr in trees:
    for al in (alias, None, "t"):
        p = check({dkey!r}, tr, al)
        if p:
            problems.append([ref_render(tr)[:200], p])
            break
print(json.dumps({{'violates': bool(problems), 'problems': problems[:4], 'trees': len(trees)}}))
"""


BATTERY = [
    "a mul (b add c) eq 1", "a sub (b sub c) eq 1", "(a add b) mul c gt 2", "a div (b mul c) eq 1", "a mod (b sub 1) eq 0",
    "not (a eq b) eq c", "(not a) eq b", "a eq (b eq c)", "(a gt 1) eq true", "a eq null", "a ne null",
    "a in (1, 2, 3)", "a in ('x',)", "not (a and b)", "not a and b", "(a or b) and c", "a or b and c", "a and (b or c)",
    "contains(name, 'o''r')", "startswith(name, 'a%b')", "endswith(name, 'x_y')", "contains(name, other)",
    "indexof(name, 'x') mul 2 eq 4", "length(concat(a, b)) eq 3", "concat(a, b) eq 'ab'", "substring(name, 1) eq 'x'",
    "substring(name, 1, 2) eq 'xy'", "tolower(name) eq 'x'", "toupper(trim(name)) eq 'X'", "year(d) eq 2020",
    "month(d) add day(d) eq 3", "hour(d) eq 1", "minute(d) eq 1", "date(d) eq 2020-01-01", "now() gt d",
    "round(x) eq 1", "floor(x) eq 1", "ceiling(x) eq 2", "round(x add y) mul 2 eq 1", "x eq 2020-01-01T10:00:00Z",
    "x eq duration'P1DT2H'", "x eq duration'-P1Y2M'", "x eq 12345678-1234-1234-1234-123456789abc", "x eq 1.5e3", "x eq true",
    "name eq 'it''s'", "a add b mul c sub d eq 0", "a mul b add c mul d eq 0", "a eq 1 or b eq 2 and not (c eq 3)",
]
