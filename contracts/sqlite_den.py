"""Native reference semantics (`den`) of the scalar OData fragment, and the harness that runs the SQLite dialect's WHERE
clause on a real in-memory SQLite over an adversarial value domain.  Embedded as text into native scripts (C01).

Written from the property statement: three-valued logic (null is unknown, only true rows are kept), `eq null` / `ne null`
are null tests, arithmetic and functions propagate null, string functions are case-sensitive and 0-based.
"""

DEN = r'''
import json, math, sqlite3, itertools, random, datetime
from odata_query import ast
from odata_query.grammar import ODataLexer, ODataParser
from odata_query.sql import AstToSqliteSqlVisitor

COLS = {"a": [None, -1, 0, 1, 2, 7], "b": [None, -2, 0, 1, 3], "x": [None, -1.5, -0.5, 0.5, 1.5, 2.0],
        "s": [None, "", "a", "A", "ab", "o'r", "%", "_", "a%b", "xaby", " a", "a ", " a b "], "t": [None, "", "a", "b", "%", "ab"],
        "d": [None, "2020-01-02T10:20:30", "1999-12-31T23:59:59"], "f": [None, 0, 1]}


def rows(seed, n):
    rnd = random.Random(seed)
    names = sorted(COLS)
    out = [dict(zip(names, [COLS[k][0] for k in names]))]
    for _ in range(n):
        out.append({k: rnd.choice(COLS[k]) for k in names})
    return out


class Undefined(Exception):
    pass


def trunc_div(p, q):
    if q == 0:
        return None
    if isinstance(p, int) and isinstance(q, int):
        r = abs(p) // abs(q)
        return r if (p >= 0) == (q >= 0) else -r
    return p / q


def den(n, row):
    k = type(n).__name__
    if k == "Identifier":
        return row[n.name]
    if k == "Null":
        return None
    if k == "Integer":
        return int(n.val)
    if k == "Float":
        return float(n.val)
    if k == "Boolean":
        return n.val.lower() == "true"
    if k in ("String",):
        return n.val
    if k in ("Date", "DateTime"):
        return n.val
    if k == "List":
        return [den(x, row) for x in n.val]
    if k == "UnaryOp":
        v = den(n.operand, row)
        if isinstance(n.op, ast.Not):
            return None if v is None else (not truth(v))
        return None if v is None else -v
    if k == "BinOp":
        l, r = den(n.left, row), den(n.right, row)
        if l is None or r is None:
            return None
        o = type(n.op).__name__
        if o == "Add":
            return l + r
        if o == "Sub":
            return l - r
        if o == "Mult":
            return l * r
        if o == "Div":
            return trunc_div(l, r)
        if o == "Mod":
            if r == 0:
                return None
            return math.fmod(l, r) if isinstance(l, float) or isinstance(r, float) else int(math.fmod(l, r))
    if k == "BoolOp":
        l, r = den(n.left, row), den(n.right, row)
        l = None if l is None else truth(l)
        r = None if r is None else truth(r)
        if isinstance(n.op, ast.And):
            if l is False or r is False:
                return False
            return None if (l is None or r is None) else True
        if l is True or r is True:
            return True
        return None if (l is None or r is None) else False
    if k == "Compare":
        o = type(n.comparator).__name__
        if isinstance(n.right, ast.Null) and o in ("Eq", "NotEq"):
            v = den(n.left, row)
            return (v is None) if o == "Eq" else (v is not None)
        l, r = den(n.left, row), den(n.right, row)
        if o == "In":
            if l is None:
                return None
            if any(x is not None and same(l, x) for x in r):
                return True
            return None if any(x is None for x in r) else False
        if l is None or r is None:
            return None
        l, r = num(l), num(r)
        if type(l) is str and type(r) is not str or type(r) is str and type(l) is not str:
            raise Undefined("mixed comparison")
        return {"Eq": l == r, "NotEq": l != r, "Lt": l < r, "LtE": l <= r, "Gt": l > r, "GtE": l >= r}[o]
    if k == "Call":
        fn = n.func.name.lower()
        a = [den(x, row) for x in n.args]
        if fn == "now":
            raise Undefined("now")
        if any(x is None for x in a):
            return None
        if fn == "concat":
            return a[0] + a[1]
        if fn == "contains":
            return a[1] in a[0]
        if fn == "startswith":
            return a[0].startswith(a[1])
        if fn == "endswith":
            return a[0].endswith(a[1])
        if fn == "indexof":
            return a[0].find(a[1])
        if fn == "length":
            return len(a[0])
        if fn == "substring":
            if a[1] < 0 or (len(a) == 3 and a[2] < 0):
                raise Undefined("negative index")
            return a[0][a[1]:] if len(a) == 2 else a[0][a[1]:a[1] + a[2]]
        if fn == "tolower":
            return a[0].lower()
        if fn == "toupper":
            return a[0].upper()
        if fn == "trim":
            return a[0].strip(" ")
        if fn == "round":
            return math.floor(abs(a[0]) + 0.5) * (1 if a[0] >= 0 else -1)
        if fn == "floor":
            return math.floor(a[0])
        if fn == "ceiling":
            return math.ceil(a[0])
        if fn in ("year", "month", "day", "hour", "minute"):
            return getattr(datetime.datetime.fromisoformat(a[0]), fn)
        if fn == "date":
            return a[0][:10]
    raise Undefined(k + " not in the scalar fragment")


def num(v):
    return int(v) if isinstance(v, bool) else v


def same(a, b):
    return num(a) == num(b) and (isinstance(a, str) == isinstance(b, str))


def truth(v):
    if isinstance(v, bool):
        return v
    if isinstance(v, (int, float)):
        return v != 0
    raise Undefined("not a boolean")


def selected_by_sqlite(where, table):
    con = sqlite3.connect(":memory:")
    names = sorted(COLS)
    con.execute("CREATE TABLE t (id INTEGER PRIMARY KEY, " + ", ".join('"%s"' % c for c in names) + ")")
    for i, r in enumerate(table):
        con.execute("INSERT INTO t VALUES (" + ",".join("?" * (len(names) + 1)) + ")", [i] + [r[c] for c in names])
    return {x[0] for x in con.execute("SELECT id FROM t WHERE " + where)}


def check_filter(tree, table):
    """None if the WHERE clause selects exactly the rows the filter denotes; otherwise a description"""
    try:
        where = AstToSqliteSqlVisitor().visit(tree)
    except Exception as ex:
        from odata_query import exceptions
        return None if isinstance(ex, exceptions.ODataException) else "foreign exception " + type(ex).__name__
    want = set()
    for i, r in enumerate(table):
        try:
            v = den(tree, r)
        except Undefined:
            return None
        except Exception as ex:
            return None
        if v is True or (v is not None and not isinstance(v, bool) and False):
            want.add(i)
    try:
        got = selected_by_sqlite(where, table)
    except Exception as ex:
        return "SQLite rejects %r: %s" % (where[:160], str(ex)[:80])
    if got != want:
        i = sorted(got ^ want)[0]
        return "WHERE %s selects row %s = %r: %s, the filter denotes %s" % (where[:160], i, {k: v for k, v in table[i].items()},
                                                                            i in got, i in want)
    return None
'''
