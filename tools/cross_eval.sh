#!/bin/bash
# usage: tools/cross_eval.sh <seed-dir> <PROP...>   -- one line per check: which checks fire on a seeded change
set -u
src="$1"; shift
d=$(mktemp -d /dev/shm/crosseval_XXXXXX)
trap 'rm -rf "$d"' EXIT
rsync -a --exclude .git --exclude '__pycache__' /repo/ "$d/"
( cd "$d" && patch -p1 -s < "$src/patch.diff" ) || { echo "PATCH-FAILED"; exit 9; }
for p in "$@"; do
  out=$(REPO_ROOT="$d" timeout 1800 /verif/vcheck "$p" --no-evidence 2>&1 | grep -v ^WARNING)
  echo "$(basename $src) x $p: $(echo "$out" | tail -1)"
  echo "$out" | grep -E "VIOLATION|UNDECIDED|CRASH" | cut -c1-220 | head -4
done
