#!/usr/bin/env python3
"""Regenerate /verif/MANIFEST.json from the table below (one entry per claimed property)."""
import json
import os
import sys

ROOT = os.path.dirname(os.path.dirname(os.path.abspath(__file__)))

COMMON_NOTE = ("Proved relative to: the pyvc encoding of Python (DESIGN section 4), z3 5.1.0, the induction principle of the "
               "modular rule (per-kind obligations with the callee contract as hypothesis on strict sub-terms). ")

CHECKS = {
    "C14": dict(
        text="Contract proof on the real source: AliasRewriter.visit(e) = subst(R, [], e) for every node kind (spec written from the "
             "statement with a ghost alias table R), frame clause (no write to self / input), identity lemma for a non-matching map; "
             "discharged for all trees and all tables by z3 via the modular/inductive rule; constructor contract init.table (replacements = "
             "{parse(k): parse(v)}, no further field a handler reads). Known findings are excluded input regions. A bounded family (labelled, "
             "not counted) runs the real constructor and visitor on 16 filters x every reference and its near misses as the alias key.",
        note=COMMON_NOTE + "Alias table R: keys identifiers/paths, targets parser-produced trees (init.table, relative to the parser). "
             "A handler reading a constructor-set field outside the object model is undecided, never a violation. "
             "Inverse-bijection corollary not mechanised.",
        technique="contracts + VC generation over the real AST handlers (pyvc) discharged by z3; ghost map; loop invariant",
        design="8 C14"),
    "C16": dict(
        text="Contract proof: ghost-trace postcondition trace' = trace ++ preorder(node) for the default visitor per node kind (loop "
             "invariant over list fields), dispatch-by-class-name obligations with uninterpreted override handlers, NodeTransformer.visit = TR "
             "(overrides applied exactly at overridden kinds) and the no-override identity lemma; ownership obligations on list mutation; "
             "dataclass configuration (frozen, generated structural eq; cfg.record: no user-written constructor hook, else undecided) checked "
             "on the tree under check. A bounded family (labelled, not counted) runs the real base classes on 12 parser-built trees against an "
             "independent depth-first walk.",
        note=COMMON_NOTE + "dataclasses generates __eq__/__init__/frozen __setattr__ as configured; override handlers are arbitrary deterministic functions.",
        technique="contracts with ghost trace + loop invariants over the real visitor source (pyvc) discharged by z3",
        design="8 C16"),
    "C17": dict(
        text="Contract proof: IdentifierStripper(x).visit(e) = reroot(x, e) for every node kind, with reroot written from the statement via "
             "rooted_at/drop_first (not the code's recursion); wrapper expression_relative_to_identifier; identity lemma when x is not mentioned; "
             "no exception, no mutation. Unbounded in tree depth and list length.",
        note=COMMON_NOTE + "The variable is an ast.Identifier (signature).",
        technique="contracts + VC generation over the real source (pyvc) discharged by z3; recursive spec functions with controlled unfolding",
        design="8 C17"),
    "C18": dict(
        text="The strongest postcondition itype of infer_type/infer_return_type is derived mechanically from every path of the real source; the "
             "property is proved as a per-kind lemma itype(n) in {None, otype(n)} against the OData return-type table, plus typecheck's "
             "raises-iff contract and the accept/reject corollaries. After a solver timeout a closed-evaluation search over small trees of the kind looks for a concrete counterexample (model finder, not a proof).",
        note=COMMON_NOTE + "OData return-type table written from the specification; well-typedness restricted to what the lemma needs (arity, agreeing concat arguments).",
        technique="mechanically derived function summary + per-constructor lemma discharged by z3",
        design="8 C18"),
}

CHECKS.update({
    "C05": dict(
        text="Contract proof per production action (59 rules: the action builds exactly the node the rule prescribes, operand order and kinds, from "
             "slot values satisfying their nonterminal invariants) + exhaustive check of the representation invariant of the generated LR table "
             "(every precedence-resolved entry agrees with the OData 5.1.1.14 table written independently) ; whole-pipeline pairs/triples of "
             "operators only as a labelled bounded stand-in.",
        note=COMMON_NOTE + "SLY's driver executes the table and calls the actions with its rule's values; the Aho-Johnson-Ullman result connecting "
             "precedence-resolved conflicts to tree shape is cited, not mechanised; _reverse_attributes body covered by a bounded stand-in.",
        technique="contracts on grammar actions (pyvc -> z3) + exhaustive finite check of the LR table invariant; bounded pipeline stand-in labelled",
        design="8 C05"),
    "C06": dict(
        text="Regular-language obligations decided exactly on the rule table of the tree under check (ABNF language of each literal kind included in its "
             "token rule, no earlier alternative can take a prefix, the rule cannot overrun the literal, upper(duration) inside ast.DURATION_PATTERN), "
             "token-action value contracts (pyvc -> z3), py_val contracts (Boolean by language image; Duration formula over the reals; the rest single "
             "calls into assumed converters).",
        note="CPython's regex parser and Unicode tables are the source of the languages; `re` first-alternative / leftmost-greedy semantics assumed (sampled, bounded); "
             "string unescaping by the per-block homomorphism lemma (blocks proved, composition cross-checked bounded); int/float/fromisoformat/isoparse/UUID contracts assumed; float = real.",
        technique="exact automata decision procedure for regular-language obligations + contracts on token actions discharged by z3",
        design="8 C06"),
    "C10": dict(
        text="Contract proof that every repo-owned callback the SLY driver can invoke (59 production actions, 31 token rules, both error hooks, "
             "_function_call, _explode_attr) returns a value satisfying its nonterminal invariant or raises a library exception: every attribute/index/arity "
             "safety obligation discharged, frame clause (no state written) gives determinism, recursion depth from the call graph.",
        note=COMMON_NOTE + "SLY's driver and `re` terminate and call exactly these hooks with values satisfying the slot invariants: termination of the whole parse is NOT proved. "
             "Body of _reverse_attributes: bounded stand-in.",
        technique="contracts with nonterminal invariants on the real grammar callbacks (pyvc) discharged by z3",
        design="8 C10"),
    "C11": dict(
        text="Contract proof of ODataParser._function_call against an independent copy of the OData function table: returns Call iff name and count match, "
             "otherwise the typed exception with exact payload fields (one path per table row); call productions keep argument order. A bounded family (labelled, not counted) calls every table function and 9 other names with 0..4 positional / 1..4 named arguments through the real parser.",
        note=COMMON_NOTE + "ARITY_TABLE (33 rows) written from the OData specification.",
        technique="contracts + VC generation over the real source (pyvc) discharged by z3",
        design="8 C11"),
})

CHECKS.update({
    "C07": dict(
        text="Contract proof per handler per path for the three SQL visitors: every piece of node data spliced into the text sits inside one "
             "quoted literal with quotes doubled (per-character homomorphism), inside one quoted identifier, or is a number/keyword token "
             "(regular inclusion of the field's token language, decided exactly); the constant skeleton tokenises; and (2-safety) the path "
             "taken does not depend on string contents or field spellings. Children are spliced only as expression holes, so the modular rule "
             "extends it to every filter.",
        note="SQL lexical grammar of the reader is assumed; table alias without double quote; regions recorded as C09 findings are outside the claim.",
        technique="contracts + symbolic templates read by an assumed SQL grammar (pyvc + reader) ; homomorphism lemma; automata inclusion",
        design="8 C07"),
    "C09": dict(
        text="Contract proof per handler per path, 3 dialects: the symbolic template each handler returns is read with the dialect's grammar: "
             "well-formed, tree mirrors the node (operator, operand order), every child translation binds tightly enough for its position "
             "(side conditions discharged by z3 against the children's promised strengths), promised strength of the result, data holes, alias "
             "only in identifiers, each call argument exactly once; a sign printed directly in front of a child's text needs the child's "
             "promised first character not to fuse with it (`--` comment), and every handler proves its own first-character promise. "
             "Unbounded in depth by the modular rule.",
        note="Reader soundness (operator-precedence compositionality) and the dialect operator tables are assumed; typed-grammar preconditions on "
             "argument kinds; recorded findings are excluded regions.",
        technique="contracts + symbolic templates parsed by a Pratt reader with holes; side conditions by z3",
        design="8 C09"),
})

CHECKS.update({
    "C13": dict(
        text="Contract proof per handler per path of AstToODataVisitor: the symbolic template is read with the OData grammar (precedence of C05, "
             "left-associative binaries so right operands must bind strictly tighter, (x,) for singleton lists, doubled quotes): well-formed, "
             "tree(r) = t, operand side conditions by z3, promised strength, no sign fused with a following digit (`-1`, `-2018-01-01` are "
             "signed literals); identifiers / paths / calls / lambdas against their exact token "
             "shapes. parse(render t) = t then follows relative to C05/C06, and with it the one-step fixpoint.",
        note="The OData reader is the grammar whose implementation is proved/assumed in C05/C06 (SLY driver, re semantics); reader soundness assumed.",
        technique="contracts + symbolic templates parsed by a Pratt reader with holes (OData grammar); side conditions by z3",
        design="8 C13"),
})

CHECKS.update({
    "C12": dict(
        text="Contract proof per backend (3 SQL dialects, roundtrip, Django Q, SQLAlchemy ORM and Core) x node kind, including kinds without a "
             "handler: the MRO-resolved visit returns a complete translation (text: well-formed, no placeholder; ORM: a constructor term "
             "containing every child's translation, no None placeholder) or raises a library exception (Core: its documented "
             "NotImplementedError); every attribute/index/arity/raise path of repository code is a safety obligation. Calls per function and arity. post.lookup: SQLAlchemy identifiers are resolved by a keyed lookup in the column collection (recorded finding for the ORM backend, which uses getattr on the model class).",
        note="Calls into Django/SQLAlchemy are uninterpreted total constructors: exceptions raised inside them are out of reach; Django and "
             "SQLAlchemy-ORM visit_CollectionLambda are not under contract (model-meta API in loops); attribute-but-not-field names on SQLAlchemy "
             "models cannot be distinguished by the assumed getattr contract.",
        technique="contracts on the real visitors (pyvc) with external calls as uninterpreted constructors; reader for text backends",
        design="8 C12"),
})

CHECKS.update({
    "C08": dict(
        text="Contract proof per ORM backend (Django Q, SQLAlchemy ORM, SQLAlchemy Core) x (node kind | built-in function/arity) x path of "
             "the real handler: every occurrence of a filter value (.val of a literal node, of a child, of a call argument, or anything "
             "computed from it) in the returned expression term lies inside a binder argument (Value / literal / GEOSGeometry) [rel.out]; "
             "the term's skeleton is the same on all paths that differ only in conditions on values [rel.path, 2-safety]; frame condition "
             "cfg.compile-hooks: the backend modules add no compile-time rendering of their own (@compiles, as_sql-style methods other than "
             "the contracted / pass-through ones) and never request literal_binds / literal_execute.",
        note="The step from 'inside a binder' to 'bound parameter in compiled SQL' is an assumed contract of Django / SQLAlchemy, exercised "
             "natively by a bounded family (33 templates x 3 assignments x 3 backends; labelled bounded, not counted). Boolean literals are "
             "outside the quantifier. Django / SQLAlchemy-ORM visit_CollectionLambda not under contract.",
        technique="contracts on the real visitors (pyvc) with external calls as uninterpreted constructors; 2-safety by path clustering",
        design="8 C08"),
})

CHECKS.update({
    "C19": dict(
        text="Mechanism-level obligations on the real lexer rules, productions, token actions, literal classes and backend handlers: "
             "(a) exact regular-language inclusions under the lexer's flags: WS+ ci(kw) WS+ inside each operator rule and not shadowed by an "
             "earlier rule, every case assignment of literal keywords inside its rule, WS+ inside WS; (b) finite check of the grammar: BWS "
             "after every '(' , before every ')', around every ',' and the lambda ':', both BWS alternatives, no action reads a BWS slot; "
             "(c) token actions normalise the spelling or store it raw; (d) for raw keyword-bearing kinds (Boolean, DateTime, Float, "
             "Duration) py_val and the handler of each of the 7 backends read .val only under lower()/upper(), through py_val, or as a token of "
             "a case-insensitive target language (2-safety by dependence analysis on every path). Tokens whose rule spells keyword letters (geography'...') carry C06's positional-slice contract of their action as rel.case.",
        note="Lifting (a)-(d) to whole filters needs the SLY/re contracts assumed in C05/C06. Case-insensitivity of float() and dateutil "
             "isoparse() is assumed (bounded family, not counted). GUID hex digits, string contents and field names are content, not keywords.",
        technique="regular-language inclusion on the real rule patterns; finite grammar check; contracts on token actions and backend handlers (pyvc)",
        design="8 C19"),
})

CHECKS.update({
    "C20": dict(
        text="Frame argument for history independence, every part decided on real source each run: (A) definite-assignment analysis with "
             "conditional constant propagation over the installed SLY Parser.parse/restart and Lexer.tokenize: every instance field read is "
             "written earlier in the same call (instance state havocked at every yield); (B) the repository's error hooks never return "
             "(contract, every token type); (C) table fields are class-level and written by nothing; (D) callbacks are pure: token actions "
             "write t.value only, production actions nothing that outlives them, no function of the parsing modules mutates a module-level "
             "object that anything reads; (E) AliasRewriter.__init__ parses with exactly the supplied lexer/parser (term comparison on all paths).",
        note="Bounded, labelled: digests of tables, master regex and parse results under 4/32 PYTHONHASHSEED values; 300/5000 random shared-"
             "instance histories. Import-time table construction by SLY's metaclasses is covered by the bounded part only; threads are outside.",
        technique="frame/ownership contracts on the real callbacks (pyvc) + def-before-use dataflow on the installed SLY source",
        design="8 C20"),
})

CHECKS.update({
    "C01": dict(
        text="Layer 1 (contract proof on the real SQLite visitor, per handler per path): the text is well-formed, reads with SQLite precedence as "
             "the prescribed translation of the node with the children's translations in the filter's order and grouping (C09's obligations, SQLite "
             "families), every built-in function yields exactly its entry of the translation table S_sqlite (which SQL function, which argument "
             "where, the +1 of substring, the -1 of indexof, the strftime letter), booleans are 1/0 by value. Layer 2 (bounded, labelled, not "
             "counted): the real visitor's WHERE clause run on in-memory SQLite over the adversarial value domain vs reference semantics.",
        note="That S_sqlite means the filter's denotation on SQLite is a fact about SQLite's evaluator, outside any contract on repository code: "
             "bounded only (107 filters x 400/4000 rows); its mismatches (LIKE case-insensitivity, LIKE wildcards, round of negative halves, weak "
             "function templates) are recorded findings. geo.*, set functions, matchesPattern, durations, lambdas are outside the fragment.",
        technique="contracts on the real SQLite visitor (pyvc + SQL reader) against a translation table; bounded conformance of the table on real SQLite",
        design="8 C01"),
})

CHECKS.update({
    "C02": dict(
        text="Layer 1 (contract proof on the real Django visitor, per operator / function handler per path): the expression term returned is "
             "the entry of the Django translation table (lookup class per comparator, IsNull for null tests, operand order, StrIndex - 1, "
             "Substr(.., i + 1, n), Extract*/Trunc*, Lower/Upper/Trim/Length/Concat, Q composition), with Django calls as uninterpreted "
             "constructors. Layer 2 (bounded, labelled, not counted): the real backend executed through Django on in-memory SQLite over the "
             "adversarial value domain vs reference semantics.",
        note="Which rows a Django expression selects is decided by Django's compiler and SQLite, outside any contract on repository code: bounded "
             "only (94 filters x 150/1500 rows); mismatches recorded (LIKE case-insensitivity, Concat treats NULL as ''). The translation table is "
             "mine (from the statement and Django's documentation). geo functions, lambdas, navigation paths are outside the fragment (C04 n/a).",
        technique="contracts on the real Django visitor against a translation table (pyvc, external calls uninterpreted); bounded execution on SQLite",
        design="0.3 / 8 C02"),
    "C03": dict(
        text="Layer 1 (contract proof on the real SQLAlchemy ORM and Core visitors, per operator / function handler per path): the expression "
             "term returned is the entry of the SQLAlchemy translation table (Python operator per comparator / arithmetic operator, operand "
             "order, column.contains/startswith/endswith, strpos - 1, substr(.., i + 1, n), extract(part, ..), cast, and_/or_/invert); ORM and "
             "Core against the same table; cfg.funcnames: every GenericFunction class of functions_ext emits the SQL function it is named after. "
             "Layer 2 (bounded, labelled, not counted): both backends executed on in-memory SQLite vs reference semantics.",
        note="Which rows a SQLAlchemy expression selects is decided by SQLAlchemy's compiler and SQLite: bounded only; mismatches recorded (LIKE "
             "case-insensitivity and wildcards, strpos/concat missing on SQLite, floor over NULL, true division). The ORM's foreign-key "
             "substitution for relationship operands is tolerated (relationships are C04, n/a). Legacy Query entry style not exercised.",
        technique="contracts on the real SQLAlchemy visitors against a translation table (pyvc, external calls uninterpreted); bounded execution on SQLite",
        design="0.3 / 8 C03"),
})

CHECKS.update({
    "C15": dict(
        text="Layer 1 (contract proof on the real shorthand functions, Django / SQLAlchemy calls uninterpreted): on every path the value "
             "returned is the incoming query object extended by exactly the calls the statement names: Django [annotate(**annotations)]."
             "filter(where); Core query.filter(where); ORM query.join(j) for the required joins not already joined (neither str(j) nor "
             "str(j.key) among the existing joins), in order, then .filter(where); the visitor is built for the incoming query's model / "
             "table and the text is tokenised, parsed and translated once; every SQL function class of functions_ext registers under the "
             "package 'odata'. Layer 2 (bounded, labelled, not counted): base queries x filters executed on in-memory SQLite; func registry "
             "before / after import in fresh processes.",
        note="What filter / join / annotate do with the receiver's existing state is the ORMs' documented behaviour (assumed; bounded family). "
             "The existing-join test is an uninterpreted predicate (SQLAlchemy's private _setup_joins is out of reach); the ORM join loop is "
             "unrolled for 0-2 required joins. Designed as not applicable (DESIGN 9); claimed in this narrower form (DESIGN 0.3).",
        technique="contracts on the real shorthand functions (pyvc, external calls uninterpreted, term comparison); finite check; bounded execution",
        design="0.3 / 9 C15"),
})

CHECKS.update({
    "C04": dict(
        category="exploration",
        text="Mostly a bounded exploration, with a small proved core. Proved (contracts on the real handlers, all paths): Django visit_Attribute "
             "returns F(<owner lookup>.name + '__' + attr); SQLAlchemy-ORM visit_Attribute returns the attribute of the class the traversed "
             "relationship points to and records that relationship exactly once as a required join; SQLAlchemy-ORM visit_CollectionLambda returns "
             "visit(xs).any(None) / visit(xs).any(V'(reroot(x, p))) / ~visit(xs).any(~V'(reroot(x, p))); the foreign-key substitution helper returns the "
             "element or the relationship's local key column and joins nothing (C15 proves the shorthand joins once; "
             "C05/C10 the left-nested path; C17 the relative lambda body). Bounded (labelled, not counted): both back ends executed on in-memory "
             "SQLite over generated three-table databases (NULL foreign keys, empty collections) for 42 filters with to-one paths, relationships compared with a key / null, any(), "
             "any(x: p), all(x: p), nested lambdas and and/or/not, against reference semantics.",
        note="Django's visit_CollectionLambda is out of reach of the symbolic executor (model-meta loops, introspection of Django expression objects); join kind, join "
             "promotion under `or`, EXISTS correlation are the ORMs' decisions: bounded only. Findings: SQLAlchemy's INNER JOIN drops parents with a "
             "NULL foreign key (recorded); Django all() was not negated on Django >= 3.0 (fixed, eb3323b). Designed as not applicable (DESIGN 9).",
        technique="contracts on the two path handlers (pyvc, external calls uninterpreted); bounded execution of both ORMs on generated databases",
        design="0.3 / 9 C04"),
})

NOT_APPLICABLE = {
}

PENDING = {
    # claimed in DESIGN.md, contracts not yet registered: listed as not applicable *for now* with that reason
}


def main():
    all_ids = [json.loads(l)["id"] for l in open(os.path.join(ROOT, "properties.jsonl"))]
    checks = []
    for pid in all_ids:
        if pid not in CHECKS:
            continue
        c = CHECKS[pid]
        checks.append({
            "property_id": pid,
            "quick_cmd": f"./vcheck {pid} --tier quick",
            "thorough_cmd": f"./vcheck {pid} --tier thorough",
            "evidence_file": f"evidence/{pid}.json",
            "replay_cmd_template": f"./vcheck {pid} --replay {{path}}",
            "engine": "pyvc",
            "level_claimed": {"category": c.get("category", "proof"), "text": c["text"], "design_ref": c["design"]},
            "level_note": c["note"],
            "technique": c["technique"],
        })
    na = []
    for pid in all_ids:
        if pid in CHECKS:
            continue
        if pid in NOT_APPLICABLE:
            na.append({"property_id": pid, "reason": NOT_APPLICABLE[pid]})
        else:
            na.append({"property_id": pid, "reason": PENDING.get(pid, "contracts for this property are designed (DESIGN section 8) but not yet "
                                                                 "registered as a sound check; not claimed until they are")})
    m = {
        "version": 1,
        "setup_cmd": "python3-vt tools/selftest.py",
        "hooks": {
            "guard": "ODATA_QUERY_VERIF",
            "enable": "no hooks are needed: the verifier re-reads the real source of /repo on every run",
            "baseline_off_cmd": "cd /repo && /venv/bin/python -m pytest -ra -q -p no:cacheprovider --timeout=900 --continue-on-collection-errors",
            "source_commits": [],
            "add_only": True,
        },
        "engines": [{"name": "pyvc", "path": "vc/", "serves_properties": [c["property_id"] for c in checks],
                     "kind_free_text": "verification-condition generator over the real Python source (ast -> z3), sidecar contracts in contracts/, "
                                       "spec functions with controlled unfolding, native replay of counter-models"}],
        "checks": checks,
        "notes": "Exit codes: 0 all obligations discharged; 1 violation (VIOLATION line, replay file); 2 undecided; 3 checker self-check failed. "
                 "REPO_ROOT selects the tree under check (default /repo).",
        "not_applicable": na,
    }
    with open(os.path.join(ROOT, "MANIFEST.json"), "w") as fh:
        json.dump(m, fh, indent=1)
    try:
        import jsonschema
        jsonschema.validate(m, json.load(open("/root/.vp/MANIFEST.schema.json")))
        print("MANIFEST.json valid;", len(checks), "checks,", len(na), "not applicable")
    except ImportError:
        print("written (jsonschema not available)")


if __name__ == "__main__":
    main()
