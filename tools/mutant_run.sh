#!/bin/bash
# usage: tools/mutant_run.sh <patch-file|-e 'sed-expr file'> -- <vcheck args...>
# Applies a patch to a scratch copy of /repo (outside /repo and /verif), runs vcheck against it, removes the copy.
set -u
patch="$1"; shift
[ "$1" = "--" ] && shift
d=$(mktemp -d /dev/shm/mut_XXXXXX)
trap 'rm -rf "$d"' EXIT
rsync -a --exclude .git --exclude '__pycache__' /repo/ "$d/"
( cd "$d" && patch -p1 -s < "$patch" ) || { echo "patch failed"; exit 9; }
REPO_ROOT="$d" /verif/vcheck "$@" --no-evidence
echo "exit=$?"
