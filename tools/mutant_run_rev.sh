#!/bin/bash
# like mutant_run.sh but applies the patch in REVERSE (re-introduces a defect fixed by that commit)
set -u
patch="$1"; shift
[ "$1" = "--" ] && shift
d=$(mktemp -d /dev/shm/mut_XXXXXX)
trap 'rm -rf "$d"' EXIT
rsync -a --exclude .git --exclude '__pycache__' /repo/ "$d/"
( cd "$d" && patch -R -p1 -s < "$patch" ) || { echo "patch failed"; exit 9; }
REPO_ROOT="$d" /verif/vcheck "$@" --no-evidence
echo "exit=$?"
