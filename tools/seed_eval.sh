#!/bin/bash
# usage: tools/seed_eval.sh <seed-dir> <property> [more properties...]
# Confirms a seeded change (tests still pass, demo fails with / passes without) on a scratch copy of /repo and runs
# the named checks against it.  Nothing is applied to /repo itself.
set -u
src="$1"; shift
d=$(mktemp -d /dev/shm/seedeval_XXXXXX)
trap 'rm -rf "$d"' EXIT
rsync -a --exclude .git --exclude '__pycache__' /repo/ "$d/orig/"
rsync -a --exclude .git --exclude '__pycache__' /repo/ "$d/mut/"
( cd "$d/mut" && patch -p1 -s < "$src/patch.diff" ) || { echo "PATCH-FAILED"; exit 9; }
echo "--- tests on changed tree:"; ( cd "$d/mut" && /venv/bin/python -m pytest -q -p no:cacheprovider --timeout=900 --continue-on-collection-errors 2>&1 | tail -1 )
echo "--- demo on original: "; ( cd "$d/orig" && PYTHONPATH="$d/orig" /venv/bin/python "$src/demo.py" >/dev/null 2>&1; echo "exit=$?" )
echo "--- demo on changed:  "; ( cd "$d/mut" && PYTHONPATH="$d/mut" /venv/bin/python "$src/demo.py" >/dev/null 2>&1; echo "exit=$?" )
for p in "$@"; do
  echo "--- check $p on changed tree:"
  REPO_ROOT="$d/mut" /verif/vcheck "$p" --no-evidence 2>&1 | grep -v ^WARNING | grep -E "VIOLATION|UNDECIDED|CRASH|$p:" | cut -c1-260 | head -6
done
