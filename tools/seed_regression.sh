#!/bin/bash
# usage: tools/seed_regression.sh [seed-dir-name ...]   -- every seeded change against the check of its own property
# prints one line per seed: caught (exit 1 with a VIOLATION line) / MISSED / UNDECIDED, and whether a replay confirmed natively
set -u
cd /verif
seeds=("$@"); [ ${#seeds[@]} -eq 0 ] && seeds=($(cd seeded && ls -d */ | tr -d /))
for s in "${seeds[@]}"; do
  prop=${s%%-*}
  out=$(timeout 2400 tools/seed_eval.sh /verif/seeded/$s $prop 2>&1 | grep -v ^WARNING)
  tests=$(echo "$out" | grep -A1 "tests on changed" | tail -1)
  viol=$(echo "$out" | grep -c "^VIOLATION")
  conf=$(echo "$out" | grep "^VIOLATION" | grep -vc "no-failing-input-found")
  last=$(echo "$out" | grep -E "^$prop:" | tail -1)
  verdict=MISSED; [ "$viol" -gt 0 ] && verdict=caught; echo "$last" | grep -q "exit=2" && [ "$viol" -eq 0 ] && verdict=UNDECIDED
  first=$(echo "$out" | grep "^VIOLATION" | head -1 | sed 's/.*obligation=//' | cut -c1-110)
  echo "$s | $verdict | violations>=$viol natively-confirmed=$conf | $tests | $first"
done
