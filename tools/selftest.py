#!/usr/bin/env python3
"""setup_cmd: offline dependency self-test (z3 import and datatype-through-Seq support, cvc5, extractor dry run)."""
import os
import subprocess
import sys

ROOT = os.path.dirname(os.path.dirname(os.path.abspath(__file__)))
sys.path.insert(0, ROOT)
import z3  # noqa: E402

dt = z3.Datatype("T")
dt.declare("leaf")
dt.declare("node", ("kids", z3.SeqSort(z3.DatatypeSort("T"))))
T = dt.create()
x = z3.Const("x", T)
s = z3.Solver()
s.add(T.is_node(x), z3.Length(T.kids(x)) == 2)
assert s.check() == z3.sat, "z3 datatype-through-Seq unsupported"
try:
    import cvc5  # noqa: F401
except ImportError:
    print("note: cvc5 python module missing (only used as second back end for string obligations)")
from vc.facts import run_extract  # noqa: E402
f = run_extract(os.environ.get("REPO_ROOT", "/repo"))
assert not f.errors, f.errors
assert len(f.kinds) >= 40, f.kinds
for d in ("evidence", "replays"):
    os.makedirs(os.path.join(ROOT, d), exist_ok=True)
print("selftest ok: z3", z3.get_version_string(), "kinds", len(f.kinds), "functions", len(f.functions))
