#!/usr/bin/env python3
"""Print the per-property status table of DESIGN.md section 0.1 from the evidence files of the last runs."""
import glob
import json
import os

ROOT = os.path.dirname(os.path.dirname(os.path.abspath(__file__)))
print("| id | level | obligations (all discharged) | wall | deciding back ends (obligations) | bounded stand-ins (not counted) |")
print("|----|----|----|----|----|----|")
for f in sorted(glob.glob(os.path.join(ROOT, "evidence", "C*.json"))):
    e = json.load(open(f))
    c = e["coverage"]
    be = "; ".join(f"{k} ({v['count'] if isinstance(v, dict) else v})" for k, v in sorted(c.get("by_backend", {}).items(), key=lambda kv: -(kv[1]['count'] if isinstance(kv[1], dict) else kv[1])))
    bs = "; ".join((b.get("bound") or "").split(";")[0][:90] for b in c.get("bounded_standins") or []) or "—"
    if len(bs) > 200:
        bs = bs[:197] + "…"
    ok = "" if c["obligations"] == c["discharged"] else f" ({c['discharged']} discharged)"
    print(f"| {e['property_id']} | {e['level']} | {c['obligations']}{ok} | {round(e['wall_s'])} s | {be} | {bs} |")
