"""Exact decision procedure for regular-language obligations (lexer rules vs ABNF languages).

Patterns are parsed by CPython's own regex parser (`re._parser`), character sets are taken from
CPython's Unicode tables (extracted by E1), the alphabet is compressed to its *minterms* with respect
to every character set that occurs in the query group (a finite partition of all code points; every
set is a union of classes, so emptiness / inclusion / product questions are decided exactly), and
questions are answered by breadth-first search over the product of lazily determinised automata,
which also yields a shortest witness string.

z3's regex solver does not terminate in useful time on CPython's \\w table (≈ 700 ranges); it is used
only as a cross-check on the compressed alphabet in the thorough tier.
"""
import re
from collections import deque

try:
    import re._parser as sre_parse
    import re._constants as sre_c
except ImportError:
    import sre_parse
    import sre_constants as sre_c

MAXCP = 0x10FFFF


class RegexUnsupported(Exception):
    pass


# ---- regex AST ---------------------------------------------------------------------------------
class Node:
    pass


class Chars(Node):
    def __init__(self, ranges):
        self.ranges = tuple(norm(ranges))


class Cat(Node):
    def __init__(self, parts):
        self.parts = list(parts)


class Alt(Node):
    def __init__(self, parts):
        self.parts = list(parts)


class Rep(Node):
    def __init__(self, sub, lo, hi):
        self.sub, self.lo, self.hi = sub, lo, hi      # hi None = unbounded


EPS = Cat([])


def norm(ranges):
    out = []
    for lo, hi in sorted((lo, hi) for lo, hi in ranges if lo <= hi):
        if out and lo <= out[-1][1] + 1:
            out[-1] = (out[-1][0], max(out[-1][1], hi))
        else:
            out.append((lo, hi))
    return out


def complement(ranges):
    out, prev = [], 0
    for lo, hi in norm(ranges):
        if lo > prev:
            out.append((prev, lo - 1))
        prev = hi + 1
    if prev <= MAXCP:
        out.append((prev, MAXCP))
    # surrogates are not characters of any str the lexer can receive from well-formed input
    return out


ANY = Chars([(0, MAXCP)])


def lit(s):
    return Cat([Chars([(ord(c), ord(c))]) for c in s])


def star(n):
    return Rep(n, 0, None)


def anystar():
    return star(ANY)


class Parser:
    """CPython-parsed pattern -> regex AST.  `charmap`: optional per-character image (e.g. str.upper)
    applied to every set, which yields the regex of the image language for a length-preserving map."""

    def __init__(self, uni):
        self.uni = uni

    def cat_ranges(self, k):
        return [tuple(r) for r in self.uni[k]]

    def ci_variants(self, cp):
        ch = chr(cp)
        out = {cp}
        if ch.isascii() and ch.isalpha():
            out.update(self.uni["ci"][ch.lower()])
        elif not ch.isascii():
            out.update(ord(x) for x in (ch.lower(), ch.upper()) if len(x) == 1)
        return out

    def parse(self, pattern, flags=0, charmap=None):
        """A trailing word boundary (`kw\\b`) or one-character negative look-ahead (`kw(?![\\w.])`) is supported as a follow restriction: the returned node is the token language
        itself and carries `follow_not` = the word characters, which must not come next (see `prefix_of`).  It is only
        accepted when every string of the token language ends in a word character (then `\\b` means exactly that)."""
        tree = sre_parse.parse(pattern, flags)
        ic = bool(tree.state.flags & re.IGNORECASE)
        items = list(tree)
        # a pattern wrapped in one group (SLY parenthesises decorated patterns): look inside
        while len(items) == 1 and items[0][0] == sre_c.SUBPATTERN and not items[0][1][1] and not items[0][1][2]:
            items = list(items[0][1][3])
        follow_not = None
        boundary = False
        if items and items[-1][0] == sre_c.AT and str(items[-1][1]) == "AT_BOUNDARY":
            items = items[:-1]
            follow_not = norm(self.cat_ranges("w"))
            boundary = True
        elif items and items[-1][0] == sre_c.ASSERT_NOT and items[-1][1][0] == 1:
            # trailing negative look-ahead of exactly one character: (?![...])
            body = list(items[-1][1][1])
            if len(body) != 1 or body[0][0] not in (sre_c.IN, sre_c.LITERAL, sre_c.CATEGORY):
                raise RegexUnsupported("look-ahead other than one character class")
            cls_node = self._item(body[0][0], body[0][1], ic, None)
            follow_not = norm(cls_node.ranges)
            items = items[:-1]
        node = self._seq(items, ic, charmap)
        if boundary:
            g = Group({"T": node, "BAD": Alt([EPS, Cat([anystar(), Chars(complement(follow_not))])])})
            if g.intersect_witness("T", "BAD") is not None:
                raise RegexUnsupported("trailing \\b after a token that may end in a non-word character")
        if follow_not is not None:
            node.follow_not = follow_not
        return node

    def _set(self, ranges, charmap):
        ranges = norm(ranges)
        if charmap is None:
            return Chars(ranges)
        out = []
        for lo, hi in ranges:
            if hi - lo > 4096:
                raise RegexUnsupported("character map over a large range")
            for cp in range(lo, hi + 1):
                m = charmap(chr(cp))
                if len(m) != 1:
                    raise RegexUnsupported(f"character map is not length preserving on U+{cp:04X}")
                out.append((ord(m), ord(m)))
        return Chars(out)

    def _seq(self, items, ic, cm):
        return Cat([self._item(op, av, ic, cm) for op, av in items])

    def _class(self, items, ic):
        rs, negate = [], False
        for op, av in items:
            if op == sre_c.NEGATE:
                negate = True
            elif op == sre_c.LITERAL:
                rs += [(v, v) for v in (self.ci_variants(av) if ic else {av})]
            elif op == sre_c.RANGE:
                lo, hi = av
                rs.append((lo, hi))
                if ic:
                    for cp in range(lo, min(hi, 0x7F) + 1):
                        rs += [(v, v) for v in self.ci_variants(cp)]
            elif op == sre_c.CATEGORY:
                rs += self._category(av)
            else:
                raise RegexUnsupported(f"class item {op}")
        return complement(rs) if negate else norm(rs)

    def _category(self, av):
        table = {"CATEGORY_DIGIT": ("d", False), "CATEGORY_NOT_DIGIT": ("d", True), "CATEGORY_WORD": ("w", False),
                 "CATEGORY_NOT_WORD": ("w", True), "CATEGORY_SPACE": ("s", False), "CATEGORY_NOT_SPACE": ("s", True)}
        if str(av) not in table:
            raise RegexUnsupported(str(av))
        k, neg = table[str(av)]
        rs = self.cat_ranges(k)
        return complement(rs) if neg else rs

    def _item(self, op, av, ic, cm):
        if op == sre_c.LITERAL:
            return self._set([(v, v) for v in (self.ci_variants(av) if ic else {av})], cm)
        if op == sre_c.NOT_LITERAL:
            return self._set(complement([(v, v) for v in (self.ci_variants(av) if ic else {av})]), cm)
        if op == sre_c.ANY:
            return self._set(complement([(10, 10)]), cm)
        if op == sre_c.IN:
            return self._set(self._class(av, ic), cm)
        if op == sre_c.CATEGORY:
            return self._set(self._category(av), cm)
        if op == sre_c.BRANCH:
            return Alt([self._seq(a, ic, cm) for a in av[1]])
        if op == sre_c.SUBPATTERN:
            group, add_flags, del_flags, sub = av
            if add_flags or del_flags:
                raise RegexUnsupported("inline flags")
            return self._seq(sub, ic, cm)
        if op in (sre_c.MAX_REPEAT, sre_c.MIN_REPEAT):
            lo, hi, sub = av
            return Rep(self._seq(sub, ic, cm), lo, None if hi == sre_c.MAXREPEAT else hi)
        raise RegexUnsupported(f"regex construct {op}")


def prefix_of(node):
    """language of the inputs at whose start the rule `node` matches: node . anything, or, for a rule with a trailing
    word boundary, node followed by end of input or by a non-word character"""
    fn = getattr(node, "follow_not", None)
    if fn is None:
        return Cat([node, anystar()])
    return Cat([node, Alt([EPS, Cat([Chars(complement(fn)), anystar()])])])


# ---- alphabet compression ------------------------------------------------------------------------
def collect_sets(node, acc):
    if isinstance(node, Chars):
        acc.add(node.ranges)
    elif isinstance(node, (Cat, Alt)):
        for p in node.parts:
            collect_sets(p, acc)
    elif isinstance(node, Rep):
        collect_sets(node.sub, acc)


class Alphabet:
    """Minterms of a family of character sets: atom id -> representative code point."""

    def __init__(self, regexes):
        sets = set()
        for r in regexes:
            collect_sets(r, sets)
        self.sets = sorted(sets)
        bounds = {0, MAXCP + 1}
        for rs in self.sets:
            for lo, hi in rs:
                bounds.add(lo)
                bounds.add(hi + 1)
        bs = sorted(bounds)
        sig_to_atom = {}
        self.rep = []
        self.atom_ranges = []
        self.set_atoms = {rs: set() for rs in self.sets}
        for a, b in zip(bs, bs[1:]):
            if 0xD800 <= a <= 0xDFFF and b - 1 <= 0xDFFF:
                continue
            sig = tuple(_contains(rs, a) for rs in self.sets)
            if sig not in sig_to_atom:
                sig_to_atom[sig] = len(self.rep)
                self.rep.append(a)
                self.atom_ranges.append([])
            at = sig_to_atom[sig]
            self.atom_ranges[at].append((a, b - 1))
            # prefer a printable ASCII representative
            if not (32 <= self.rep[at] < 127) and 32 <= a < 127:
                self.rep[at] = a
        for sig, at in sig_to_atom.items():
            for rs, inside in zip(self.sets, sig):
                if inside:
                    self.set_atoms[rs].add(at)
        self.n = len(self.rep)

    def atoms_of(self, ranges):
        return self.set_atoms[tuple(ranges)]

    def atom_of_char(self, ch):
        cp = ord(ch)
        for at, rs in enumerate(self.atom_ranges):
            if _contains(rs, cp):
                return at
        raise ValueError(ch)

    def text(self, atoms):
        return "".join(chr(self.rep[a]) for a in atoms)


def _contains(ranges, cp):
    lo_i, hi_i = 0, len(ranges) - 1
    while lo_i <= hi_i:
        mid = (lo_i + hi_i) // 2
        lo, hi = ranges[mid]
        if cp < lo:
            hi_i = mid - 1
        elif cp > hi:
            lo_i = mid + 1
        else:
            return True
    return False


# ---- NFA / lazy DFA --------------------------------------------------------------------------------
class NFA:
    def __init__(self, alphabet):
        self.A = alphabet
        self.eps = []
        self.trans = []           # state -> list of (atomset, target)
        self.start = self.new()
        self.final = None

    def new(self):
        self.eps.append([])
        self.trans.append([])
        return len(self.eps) - 1

    def build(self, node):
        self.final = self._b(node, self.start)
        return self

    def _b(self, node, s):
        if isinstance(node, Chars):
            t = self.new()
            self.trans[s].append((frozenset(self.A.atoms_of(node.ranges)), t))
            return t
        if isinstance(node, Cat):
            for p in node.parts:
                s = self._b(p, s)
            return s
        if isinstance(node, Alt):
            out = self.new()
            for p in node.parts:
                a = self.new()
                self.eps[s].append(a)
                self.eps[self._b(p, a)].append(out)
            return out
        if isinstance(node, Rep):
            for _ in range(node.lo):
                s = self._b(node.sub, s)
            if node.hi is None:
                a = self.new()
                self.eps[s].append(a)
                e = self._b(node.sub, a)
                self.eps[e].append(a)
                out = self.new()
                self.eps[a].append(out)
                return out
            out = self.new()
            self.eps[s].append(out)
            for _ in range(node.hi - node.lo):
                a = self.new()
                self.eps[s].append(a)
                s = self._b(node.sub, a)
                self.eps[s].append(out)
            return out
        raise TypeError(node)

    def closure(self, states):
        seen = set(states)
        stack = list(states)
        while stack:
            x = stack.pop()
            for y in self.eps[x]:
                if y not in seen:
                    seen.add(y)
                    stack.append(y)
        return frozenset(seen)


class DFA:
    """Lazily determinised automaton for one regex over a shared alphabet."""

    def __init__(self, alphabet, node):
        self.A = alphabet
        self.nfa = NFA(alphabet).build(node)
        self.start = self.nfa.closure([self.nfa.start])
        self._step = {}

    def accepting(self, S):
        return self.nfa.final in S

    def step(self, S, atom):
        key = (S, atom)
        r = self._step.get(key)
        if r is None:
            nxt = set()
            for x in S:
                for atoms, t in self.nfa.trans[x]:
                    if atom in atoms:
                        nxt.add(t)
            r = self._step[key] = self.nfa.closure(nxt)
        return r

    def accepts(self, text):
        S = self.start
        for ch in text:
            S = self.step(S, self.A.atom_of_char(ch))
            if not S:
                return False
        return self.accepting(S)


def search(alphabet, dfas, accept, max_states=2_000_000):
    """Shortest string w with accept(tuple of 'w in L(d_i)') true, or None if no such string exists.
    Exact: explores the reachable product of the (complete, lazily built) DFAs."""
    start = tuple(d.start for d in dfas)
    seen = {start: None}
    queue = deque([start])
    n = 0
    while queue:
        cur = queue.popleft()
        if accept(tuple(d.accepting(S) for d, S in zip(dfas, cur))):
            atoms = []
            k = cur
            while seen[k] is not None:
                k, a = seen[k]
                atoms.append(a)
            return alphabet.text(reversed(atoms))
        for a in range(alphabet.n):
            nxt = tuple(d.step(S, a) for d, S in zip(dfas, cur))
            if nxt not in seen:
                seen[nxt] = (cur, a)
                queue.append(nxt)
                n += 1
                if n > max_states:
                    raise RegexUnsupported("product automaton too large")
    return None


class Group:
    """A set of regexes over one compressed alphabet."""

    def __init__(self, named_nodes):
        self.nodes = dict(named_nodes)
        self.alphabet = Alphabet(list(self.nodes.values()))
        self.dfas = {k: DFA(self.alphabet, v) for k, v in self.nodes.items()}
        self.states_explored = 0

    def find(self, names, accept):
        return search(self.alphabet, [self.dfas[n] for n in names], accept)

    def subset_witness(self, a, b):
        """a string in L(a) \\ L(b), or None if L(a) is a subset of L(b)"""
        return self.find([a, b], lambda f: f[0] and not f[1])

    def intersect_witness(self, a, b):
        return self.find([a, b], lambda f: f[0] and f[1])
