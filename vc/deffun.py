"""Spec functions with *controlled unfolding*.

A DefFun is an uninterpreted symbol `f` plus its defining body.  Obligations are discharged
with the defining equation instantiated only at the applications that occur in the obligation
(bounded rounds), so the query is quantifier-free EUF + datatypes + sequences: `unsat` is sound
(fewer assumptions than the real definition), fast and stable.  A RecFunction twin `f!rec`
carries the full definition and is used only to evaluate closed terms (witness decoding).
z3's own recursive-function unfolding timed out on obligations of this shape (DESIGN section 7).
"""
import z3

_REGISTRY = {}


class DefFun:
    def __init__(self, name, arg_sorts, ret_sort, body_fn, principal=-1, cheap=False):
        self.name = name
        self.arg_sorts = list(arg_sorts)
        self.ret_sort = ret_sort
        self.body_fn = body_fn
        self.principal = principal % len(arg_sorts)
        self.cheap = cheap
        self.uf = z3.Function(name, *arg_sorts, ret_sort)
        self._rec = None
        self.ready = True
        self._templates = {}
        _REGISTRY[name] = self

    def __call__(self, *args):
        if _MODE["rec"]:
            return self.rec()(*args)
        return self.uf(*args)

    def instance(self, *args):
        p = args[self.principal]
        if z3.is_app(p) and p.decl().kind() == z3.Z3_OP_DT_CONSTRUCTOR and p.sort().kind() == z3.Z3_DATATYPE_SORT:
            dt = p.sort()
            for ci in range(dt.num_constructors()):
                if dt.constructor(ci).eq(p.decl()):
                    return self.uf(*args) == self.branch(args, ci, [p.arg(j) for j in range(p.num_args())])
        return self.uf(*args) == z3.simplify(self.body_fn(*args))

    def branch(self, args, ci, field_terms):
        """Body specialised to constructor `ci` of the principal argument (cached template)."""
        key = ci
        dt = self.arg_sorts[self.principal]
        if key not in self._templates:
            params = [z3.Const(f"tp{i}!{self.name}", s_) for i, s_ in enumerate(self.arg_sorts)]
            ctor = dt.constructor(ci)
            fcs = [z3.Const(f"tf{j}!{self.name}!{ci}", ctor.domain(j)) for j in range(ctor.arity())]
            a2 = list(params)
            a2[self.principal] = ctor(*fcs) if fcs else ctor()
            self._templates[key] = (params, fcs, z3.simplify(self.body_fn(*a2)))
        params, fcs, tmpl = self._templates[key]
        subs = [(params[i], args[i]) for i in range(len(params)) if i != self.principal]
        subs += list(zip(fcs, field_terms))
        return z3.simplify(z3.substitute(tmpl, *subs)) if subs else tmpl

    def rec(self):
        if self._rec is None:
            self._rec = z3.RecFunction(self.name + "!rec", *self.arg_sorts, self.ret_sort)
            params = [z3.Const(f"p{i}!{self.name}", s) for i, s in enumerate(self.arg_sorts)]
            old = _MODE["rec"]
            _MODE["rec"] = True
            try:
                body = self.body_fn(*params)
            finally:
                _MODE["rec"] = old
            # bodies assembled from stored terms (derived summaries) still mention the uninterpreted twins
            z3.RecAddDefinition(self._rec, params, to_rec(body))
        return self._rec


_MODE = {"rec": False}
_ALLPREDS = {}


class AllPred:
    """all(seq) : every element of a sequence satisfies elem(t).  Definition
           all(q)  <=>  forall i. 0 <= i < len(q) => elem(q[i])
    used only through *instances* (z3's quantifier handling over sequences returns unknown, measured):
      (=>)  all(q) => (0 <= i < len(q) => elem(q[i]))        for index terms i of interest
      (<=)  all(q) \/ (0 <= k_q < len(q) /\ not elem(q[k_q]))  with a fresh skolem k_q per sequence term
    Both are consequences of the definition, so `unsat` stays sound; no induction over sequences is
    needed for append / prefix / tail / indexing."""

    def __init__(self, name, seq_sort, elem_fn):
        self.name = name
        self.elem_fn = elem_fn
        self.uf = z3.Function(name, seq_sort, z3.BoolSort())
        _ALLPREDS[name] = self

    def __call__(self, q):
        if _MODE["rec"]:
            return self.rec()(q)
        return self.uf(q)

    def rec(self):
        if not hasattr(self, "_rec"):
            sort = self.uf.domain(0)
            self._rec = z3.RecFunction(self.name + "!rec", sort, z3.BoolSort())
            q = z3.Const(f"q!{self.name}", sort)
            n = z3.Length(q)
            old = _MODE["rec"]
            _MODE["rec"] = True
            try:
                body = z3.If(n == 0, z3.BoolVal(True), z3.And(self.elem_fn(q[0]), self._rec(z3.SubSeq(q, 1, n - 1))))
            finally:
                _MODE["rec"] = old
            z3.RecAddDefinition(self._rec, [q], body)
        return self._rec


def _headed(t):
    """Is the term syntactically a constructor application / explicit sequence head?"""
    if not z3.is_app(t):
        return False
    k = t.decl().kind()
    if k == z3.Z3_OP_DT_CONSTRUCTOR:
        return True
    if k in (z3.Z3_OP_SEQ_EMPTY, z3.Z3_OP_SEQ_UNIT):
        return True
    if k == z3.Z3_OP_SEQ_CONCAT:
        return True
    if z3.is_string_value(t):
        return True
    return False


def _apps(t, acc, seen, allacc=None):
    if t.get_id() in seen:
        return
    seen.add(t.get_id())
    if z3.is_app(t):
        d = t.decl()
        if d.kind() == z3.Z3_OP_UNINTERPRETED and t.num_args() > 0:
            df = _REGISTRY.get(d.name())
            if df is not None and df.ready and df.uf.eq(d):
                acc.append((df, t))
            elif allacc is not None:
                ap = _ALLPREDS.get(d.name())
                if ap is not None and ap.uf.eq(d):
                    allacc.append((ap, t))
        if allacc is not None and d.kind() == z3.Z3_OP_SEQ_CONCAT and t.num_args() >= 2:
            allacc.append((None, t))
        if allacc is not None and t.num_args() == 2 and (d.kind() == z3.Z3_OP_SEQ_NTH or d.name() in ("seq.nth_i", "seq.nth_u")) \
                and not z3.is_int_value(t.arg(1)):
            allacc.append(("nth", t))
        for i in range(t.num_args()):
            _apps(t.arg(i), acc, seen, allacc)
    elif z3.is_quantifier(t):
        _apps(t.body(), acc, seen, allacc)


def _asserted_testers(formulas, acc):
    """Top-level literals is_K(t) (also under top-level And): term id -> (t, [constructor decls])."""
    for f in formulas:
        if not z3.is_app(f):
            continue
        k = f.decl().kind()
        if k == z3.Z3_OP_AND:
            _asserted_testers([f.arg(i) for i in range(f.num_args())], acc)
        elif k in (z3.Z3_OP_EQ, z3.Z3_OP_IFF) and f.num_args() == 2 and z3.is_bool(f.arg(1)):
            # a defining equation  P(..) == (is_K(t) /\ ...): if P(..) holds the testers on the right hold;
            # the guarded instances generated for them are sound either way
            _asserted_testers([f.arg(1)], acc)
        elif k == z3.Z3_OP_IMPLIES and f.num_args() == 2:
            _asserted_testers([f.arg(1)], acc)
        elif k in (z3.Z3_OP_DT_IS, z3.Z3_OP_DT_RECOGNISER):
            t = f.arg(0)
            acc.setdefault(t.get_id(), (t, []))[1].append(f.decl())
    return acc


_CTOR_CACHE = {}


def _ctor_of_tester(dt_sort, tester_decl):
    k = tester_decl.get_id()
    if k not in _CTOR_CACHE:
        _CTOR_CACHE[k] = _ctor_of_tester0(dt_sort, tester_decl)
    return _CTOR_CACHE[k]


def _ctor_of_tester0(dt_sort, tester_decl):
    for i in range(dt_sort.num_constructors()):
        if dt_sort.recognizer(i).eq(tester_decl):
            return i
    # (_ is C) testers print as "is" with the constructor as parameter
    try:
        c = tester_decl.params()[0]
        for i in range(dt_sort.num_constructors()):
            if dt_sort.constructor(i).eq(c):
                return i
    except Exception:
        pass
    return None


class Unfolder:
    """Incremental controlled unfolding over a growing set of formulas (a path condition, or the
    hypotheses + goal of one obligation).
    * principal argument constructor-headed: the full equation (simplifies to one branch);
    * cheap (small-bodied / sequence) recursions: always one step;
    * principal argument `t` with an asserted tester is_K(t) (top-level literal, possibly asserted
      later than the application appeared): the guarded K-branch
      is_K(t) => f(.., t) == body(.., K(accessors of t))      (t = K(acc(t)) under the guard)."""

    def __init__(self, rounds=3, limit=600):
        self.rounds = rounds
        self.limit = limit
        self.done = set()
        self.walked = set()
        self.apps = []              # DefFun applications seen and not yet fully unfolded
        self.testers = {}
        self.count = 0
        self._pinfo = {}
        self.all_apps = {}          # AllPred application id -> (pred, app, skolem)
        self.all_done = set()
        self.prefix_lens = {}       # concat term id -> lengths of its proper prefixes (index offsets)
        self._allnew = []
        self.index_terms = {}       # sequence term id -> symbolic index terms used on it (q[j])

    def add(self, formulas):
        out = []
        _asserted_testers(formulas, self.testers)
        frontier = list(formulas)
        for r in range(self.rounds):
            for f in frontier:
                _apps(f, self.apps, self.walked, self._allnew)
            frontier = self._all_instances()
            out.extend(frontier)
            keep = []
            for df, app in self.apps:
                aid = app.get_id()
                if aid in self.done:
                    continue
                keep.append((df, app))
                info = self._pinfo.get(aid)
                if info is None:
                    args = [app.arg(i) for i in range(app.num_args())]
                    p0 = args[df.principal]
                    p = z3.simplify(p0)
                    info = self._pinfo[aid] = (args, p0, p, df.cheap or _headed(p))
                args, p0, p, direct = info
                if direct:
                    self.done.add(aid)
                    inst = df.instance(*args)
                    out.append(inst)
                    frontier.append(inst)
                else:
                    ent = self.testers.get(p.get_id()) or self.testers.get(p0.get_id())
                    if ent is None:
                        continue
                    t, decls = ent
                    dt = t.sort()
                    for d in decls:
                        ci = _ctor_of_tester(dt, d)
                        if ci is None or (aid, ci) in self.done:
                            continue
                        self.done.add((aid, ci))
                        inst = guarded_instance(df, args, t, ci)
                        out.append(inst)
                        frontier.append(inst)
                self.count += 1
                if len(out) > self.limit:
                    return out
            self.apps = [x for x in keep if x[1].get_id() not in self.done]
            if not frontier:
                break
            _asserted_testers(frontier, self.testers)
        return out


def _constructed(q):
    if not z3.is_app(q):
        return False
    return q.decl().kind() in (z3.Z3_OP_SEQ_CONCAT, z3.Z3_OP_SEQ_EXTRACT, z3.Z3_OP_SEQ_UNIT, z3.Z3_OP_SEQ_EMPTY,
                               z3.Z3_OP_ITE)


def _subterm_ids(t, acc):
    if t.get_id() in acc:
        return acc
    acc.add(t.get_id())
    if z3.is_app(t):
        for i in range(t.num_args()):
            _subterm_ids(t.arg(i), acc)
    return acc


def _all_instances(self):
    """Instances of the AllPred definitions for the applications collected so far.
    * all(q) with q *constructed* (concat / extract / unit / empty): the skolemised (<=) direction;
    * all(b) with b a base sequence (input constant, accessor term): (=>) instances at 0, len-1 and at
      the indices k, k+1, k - len(prefix) of every constructed sequence that contains b."""
    new = self._allnew
    self._allnew = []
    for ap, t in new:
        if ap == "nth":
            self.index_terms.setdefault(z3.simplify(t.arg(0)).get_id(), []).append(t.arg(1))
            continue
        if ap is None:
            acc = None
            for i in range(t.num_args() - 1):
                a = t.arg(i)
                acc = z3.Length(a) if acc is None else acc + z3.Length(a)
                self.prefix_lens.setdefault(t.get_id(), []).append(z3.simplify(acc))
            continue
        if t.get_id() not in self.all_apps:
            q = t.arg(0)
            k = z3.FreshConst(z3.IntSort(), "k_" + ap.name) if _constructed(q) else None
            self.all_apps[t.get_id()] = (ap, t, k, _subterm_ids(q, set()) if k is not None else None)
    out = []
    cons = [(ap, t, k, sub) for (ap, t, k, sub) in self.all_apps.values() if k is not None]
    for aid, (ap, t, k, sub) in self.all_apps.items():
        q = t.arg(0)
        L = z3.Length(q)
        if k is not None:
            if (aid, "sk") not in self.all_done:
                self.all_done.add((aid, "sk"))
                out.append(z3.Or(t, z3.And(0 <= k, k < L, z3.Not(ap.elem_fn(q[k])))))
            # a constructed sequence in a hypothesis: elements at its ends, or all of them when its length is concrete
            idxs = [z3.IntVal(0), L - 1]
            ln = z3.simplify(L)
            if z3.is_int_value(ln) and ln.as_long() <= 8:
                idxs = [z3.IntVal(i) for i in range(ln.as_long())]
        else:
            idxs = [z3.IntVal(0), L - 1] + list(self.index_terms.get(z3.simplify(q).get_id(), []))
            for ap2, t2, k2, sub2 in cons:
                if q.get_id() in sub2:
                    idxs += [k2, k2 + 1]
                    for cid, offs in self.prefix_lens.items():
                        if cid in sub2:
                            idxs += [k2 - o for o in offs]
        for i in idxs:
            i = z3.simplify(i)
            key = (aid, i.get_id())
            if key in self.all_done:
                continue
            self.all_done.add(key)
            out.append(z3.Implies(z3.And(t, 0 <= i, i < L), ap.elem_fn(q[i])))
    return out


Unfolder._all_instances = _all_instances


def unfold_closure(formulas, rounds=3, done=None, limit=400):
    u = Unfolder(rounds=rounds, limit=limit)
    if done is not None:
        u.done = done
    return u.add(list(formulas))


def guarded_instance(df, args, t, ci):
    dt = t.sort()
    ctor = dt.constructor(ci)
    fields = [dt.accessor(ci, j)(t) for j in range(ctor.arity())]
    return z3.Implies(dt.recognizer(ci)(t), df.uf(*args) == df.branch(args, ci, fields))


def _acc_depth(t):
    """Nesting depth of accessor / nth applications in a term (how far below the inputs it looks)."""
    d = 0
    while z3.is_app(t) and t.num_args() > 0:
        k = t.decl().kind()
        if k == z3.Z3_OP_DT_ACCESSOR or k in (z3.Z3_OP_SEQ_NTH, z3.Z3_OP_SEQ_EXTRACT) \
                or t.decl().name() in ("seq.nth_i", "seq.nth_u"):
            d += 1
            t = t.arg(0)
        elif k == z3.Z3_OP_ITE:
            t = t.arg(2)
        else:
            break
    return d


def refine_with_model(model, formulas, done, limit=60, max_depth=2):
    """Model-guided lazy unfolding: for every DefFun application whose principal argument is not
    constructor-headed, add the guarded branch of the constructor the counter-model gives it.
    Every added formula is a consequence of the definitions, so soundness of `unsat` is kept."""
    apps = []
    _apps_all(formulas, apps)
    out = []
    for df, app in apps:
        args = [app.arg(i) for i in range(app.num_args())]
        p = args[df.principal]
        if p.sort().kind() != z3.Z3_DATATYPE_SORT:
            if app.get_id() not in done:
                done.add(app.get_id())
                out.append(df.instance(*args))
            continue
        try:
            v = model.eval(p, model_completion=True)
        except z3.Z3Exception:
            continue
        if not (z3.is_app(v) and v.decl().kind() == z3.Z3_OP_DT_CONSTRUCTOR):
            continue
        if _acc_depth(p) > max_depth:
            continue
        dt = p.sort()
        ci = None
        for i in range(dt.num_constructors()):
            if dt.constructor(i).eq(v.decl()):
                ci = i
                break
        key = (app.get_id(), ci)
        if ci is None or key in done or app.get_id() in done:
            continue
        done.add(key)
        out.append(guarded_instance(df, args, p, ci))
        if len(out) >= limit:
            break
    return out


def _apps_all(formulas, acc):
    seen = set()
    for f in formulas:
        _apps(f, acc, seen)


def to_rec(t):
    """Rewrite DefFun applications to their RecFunction twins (for closed evaluation)."""
    cache = {}

    def go(x):
        k = x.get_id()
        if k in cache:
            return cache[k]
        if z3.is_app(x) and x.num_args() > 0:
            args = [go(x.arg(i)) for i in range(x.num_args())]
            d = x.decl()
            df = _REGISTRY.get(d.name()) if d.kind() == z3.Z3_OP_UNINTERPRETED else None
            if df is not None and df.uf.eq(d):
                r = df.rec()(*args)
            else:
                r = d(*args)
        else:
            r = x
        cache[k] = r
        return r
    return go(t)


def eval_closed_term(t, fuel=400):
    """Normalise a closed spec term: z3's rewriter does not always unfold a recursive definition with a large body, so
    applications of the `!rec` twins whose principal argument is constructor-headed are unfolded here, outermost
    simplification first (dead branches disappear before their calls are looked at), until none is left."""
    t = z3.simplify(to_rec(t))
    for _ in range(fuel):
        changed = [False]
        cache = {}

        def go(x):
            k = x.get_id()
            if k in cache:
                return cache[k]
            r = x
            if z3.is_app(x) and x.num_args() > 0:
                d = x.decl()
                nm = d.name()
                args = [x.arg(i) for i in range(x.num_args())]
                df = _REGISTRY.get(nm[:-4]) if nm.endswith("!rec") else None
                if df is not None and _headed(args[df.principal]) and not changed[0]:
                    old = _MODE["rec"]
                    _MODE["rec"] = True
                    try:
                        body = df.body_fn(*args)
                    finally:
                        _MODE["rec"] = old
                    r = to_rec(body)
                    changed[0] = True
                else:
                    new = [go(a) for a in args]
                    if any(not a.eq(b) for a, b in zip(args, new)):
                        r = d(*new)
            cache[k] = r
            return r
        t2 = go(t)
        if not changed[0]:
            return t
        t = z3.simplify(t2)
    return t
