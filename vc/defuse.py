"""Definite-assignment analysis of instance fields, with conditional constant propagation on locals.

Decides, for one Python function given as source text (used on the installed SLY driver and scanner, which the
repository's lexer and parser inherit): is every read of `self.<field>` preceded, on every path of the *same call*,
by a write of that field?  If so the call's behaviour cannot depend on what an earlier call left in the field.

Abstract state  = (consts: local name -> Python constant | TOP,  assigned: set of field names);  None = unreachable.
Join            = equal constants survive, assigned sets intersect.
Loops           = fixpoint from the entry state (states only get weaker; finite height).
Short circuits  = `a or b`, `a and b`, `x if c else y`, `if c:` follow the constant when `c` is a known constant
                  (so a read in an operand that is dead under the propagated constants is not a read).
Calls           = `self.m(...)` with m in `noreturn`  -> unreachable afterwards (callee contract: always raises)
                  `self.m(...)` with m in `summaries` -> callee's reads checked against the current state, its definite
                                                         writes added
                  any other call                       -> no effect on fields (frame clause of the callee: assumed here,
                                                         proved for the repository's callbacks by the frame families)
`yield`         = the instance state is havocked (another call on the same instance may run before resumption).
try/except      = handlers start from the state at the `try` with every local assigned in the body unknown.
"""
import ast

TOP = object()


class State:
    __slots__ = ("consts", "assigned")

    def __init__(self, consts=None, assigned=frozenset()):
        self.consts = dict(consts or {})
        self.assigned = frozenset(assigned)

    def copy(self):
        return State(self.consts, self.assigned)

    def key(self):
        return (tuple(sorted((k, repr(v)) for k, v in self.consts.items() if v is not TOP)), tuple(sorted(self.assigned)))


def join(a, b):
    if a is None:
        return b
    if b is None:
        return a
    consts = {}
    for k in set(a.consts) | set(b.consts):
        va, vb = a.consts.get(k, TOP), b.consts.get(k, TOP)
        consts[k] = va if (va is not TOP and vb is not TOP and type(va) is type(vb) and va == vb) else TOP
    return State(consts, a.assigned & b.assigned)


class Unsupported(Exception):
    pass


class Analysis:
    def __init__(self, source, self_name="self", noreturn=(), summaries=None, methods=()):
        src = source if not source.startswith((" ", "\t")) else "if 1:\n" + source
        tree = ast.parse(src)
        self.fn = next(n for n in ast.walk(tree) if isinstance(n, (ast.FunctionDef, ast.AsyncFunctionDef)))
        self.self_name = self_name
        self.noreturn = set(noreturn)
        self.summaries = summaries or {}
        self.methods = set(methods)
        self.reads = {}         # (lineno, col, field) -> ok (False once any visit saw it unassigned)
        self.writes = set()
        self.returns = []       # states at return / end
        self.loops = []

    # ---- expressions --------------------------------------------------------------------
    def field_of(self, e):
        if isinstance(e, ast.Attribute) and isinstance(e.value, ast.Name) and e.value.id == self.self_name:
            return e.attr
        return None

    def ev(self, e, st):
        """evaluate for constants, record field reads; returns (value|TOP, state) -- state None if evaluation cannot finish"""
        if st is None or e is None:
            return TOP, st
        if isinstance(e, ast.Constant):
            return e.value, st
        if isinstance(e, ast.Name):
            return st.consts.get(e.id, TOP), st
        f = self.field_of(e)
        if f is not None:
            if isinstance(e.ctx, ast.Load):
                key = (e.lineno, e.col_offset, f)
                ok = f in st.assigned
                self.reads[key] = self.reads.get(key, True) and ok
            return TOP, st
        if isinstance(e, ast.BoolOp):
            is_or = isinstance(e.op, ast.Or)
            out_states = None
            cur = st
            val = TOP
            for i, x in enumerate(e.values):
                v, cur = self.ev(x, cur)
                if cur is None:
                    break
                val = v
                if v is not TOP:
                    if bool(v) == is_or:
                        # short circuit: the remaining operands are not evaluated
                        return v, join(out_states, cur)
                    continue
                # unknown: may stop here
                out_states = join(out_states, cur)
                val = TOP
            return (val if out_states is None else TOP), join(out_states, cur)
        if isinstance(e, ast.UnaryOp):
            v, st = self.ev(e.operand, st)
            if v is not TOP:
                try:
                    if isinstance(e.op, ast.Not):
                        return (not v), st
                    if isinstance(e.op, ast.USub):
                        return -v, st
                except Exception:
                    pass
            return TOP, st
        if isinstance(e, ast.Compare):
            l, st = self.ev(e.left, st)
            vals = [l]
            for c in e.comparators:
                v, st = self.ev(c, st)
                vals.append(v)
            if len(e.ops) == 1 and all(v is not TOP for v in vals):
                a, b = vals
                try:
                    op = e.ops[0]
                    table = {ast.Eq: lambda: a == b, ast.NotEq: lambda: a != b, ast.Lt: lambda: a < b, ast.LtE: lambda: a <= b,
                             ast.Gt: lambda: a > b, ast.GtE: lambda: a >= b, ast.Is: lambda: a is b, ast.IsNot: lambda: a is not b}
                    if type(op) in table and not (isinstance(op, (ast.Is, ast.IsNot)) and not (a is None or b is None)):
                        return table[type(op)](), st
                except Exception:
                    pass
            return TOP, st
        if isinstance(e, ast.IfExp):
            c, st = self.ev(e.test, st)
            if c is not TOP:
                return self.ev(e.body if c else e.orelse, st)
            v1, s1 = self.ev(e.body, st.copy() if st else None)
            v2, s2 = self.ev(e.orelse, st.copy() if st else None)
            return TOP, join(s1, s2)
        if isinstance(e, ast.Call):
            f = self.field_of(e.func)
            if f is not None and (f in self.noreturn or f in self.summaries or f in self.methods):
                for a in list(e.args) + [k.value for k in e.keywords]:
                    _, st = self.ev(a, st)
                if st is None:
                    return TOP, None
                if f in self.noreturn:
                    return TOP, None
                if f in self.summaries:
                    sm = self.summaries[f]
                    for (ln, col, fld), need in sm["reads_need"].items():
                        key = (e.lineno, e.col_offset, f"{f}():{fld}@{ln}")
                        ok = fld in st.assigned or not need
                        self.reads[key] = self.reads.get(key, True) and ok
                    st = State(st.consts, st.assigned | sm["writes"])
                return TOP, st
            _, st = self.ev(e.func, st)
            for a in list(e.args) + [k.value for k in e.keywords]:
                _, st = self.ev(a, st)
            return TOP, st
        if isinstance(e, (ast.Yield, ast.YieldFrom)):
            _, st = self.ev(e.value, st)
            if st is not None:
                st = State(st.consts, frozenset())        # another call on the same instance may run here
            return TOP, st
        if isinstance(e, (ast.Lambda, ast.GeneratorExp, ast.ListComp, ast.SetComp, ast.DictComp)):
            # evaluated later / in their own scope: reads inside are conservatively checked against the current state
            for n in ast.walk(e):
                if n is not e:
                    f = self.field_of(n) if isinstance(n, ast.Attribute) else None
                    if f is not None and isinstance(n.ctx, ast.Load):
                        key = (n.lineno, n.col_offset, f)
                        self.reads[key] = self.reads.get(key, True) and (f in st.assigned)
            return TOP, st
        # generic: evaluate children left to right
        for child in ast.iter_child_nodes(e):
            if isinstance(child, ast.expr):
                _, st = self.ev(child, st)
            elif isinstance(child, (ast.keyword,)):
                _, st = self.ev(child.value, st)
            elif isinstance(child, ast.Slice):
                for x in (child.lower, child.upper, child.step):
                    _, st = self.ev(x, st)
        return TOP, st

    # ---- statements ---------------------------------------------------------------------
    def assign_target(self, t, val, st):
        if st is None:
            return None
        if isinstance(t, ast.Name):
            st = st.copy()
            st.consts[t.id] = val
            return st
        f = self.field_of(t)
        if f is not None:
            self.writes.add(f)
            return State(st.consts, st.assigned | {f})
        if isinstance(t, (ast.Tuple, ast.List)):
            for x in t.elts:
                st = self.assign_target(x.value if isinstance(x, ast.Starred) else x, TOP, st)
            return st
        if isinstance(t, (ast.Subscript, ast.Attribute)):
            _, st = self.ev(t.value, st)
            if isinstance(t, ast.Subscript):
                _, st = self.ev(t.slice, st)
            return st
        raise Unsupported(f"assignment target {type(t).__name__}")

    def block(self, stmts, st, ctl):
        for s in stmts:
            if st is None:
                return None
            st = self.stmt(s, st, ctl)
        return st

    def assigned_names(self, stmts):
        out = set()
        for s in stmts:
            for n in ast.walk(s):
                if isinstance(n, ast.Name) and isinstance(n.ctx, (ast.Store, ast.Del)):
                    out.add(n.id)
        return out

    def stmt(self, s, st, ctl):
        if isinstance(s, ast.Expr):
            _, st = self.ev(s.value, st)
            return st
        if isinstance(s, ast.Assign):
            v, st = self.ev(s.value, st)
            for t in s.targets:
                st = self.assign_target(t, v if len(s.targets) == 1 or not isinstance(t, ast.Name) else v, st)
            return st
        if isinstance(s, ast.AnnAssign):
            if s.value is None:
                return st
            v, st = self.ev(s.value, st)
            return self.assign_target(s.target, v, st)
        if isinstance(s, ast.AugAssign):
            v, st = self.ev(s.value, st)
            if st is None:
                return None
            if isinstance(s.target, ast.Name):
                cur = st.consts.get(s.target.id, TOP)
                new = TOP
                if cur is not TOP and v is not TOP:
                    try:
                        new = {ast.Add: lambda: cur + v, ast.Sub: lambda: cur - v, ast.Mult: lambda: cur * v}[type(s.op)]()
                    except Exception:
                        new = TOP
                return self.assign_target(s.target, new, st)
            f = self.field_of(s.target)
            if f is not None:
                key = (s.target.lineno, s.target.col_offset, f)
                self.reads[key] = self.reads.get(key, True) and (f in st.assigned)
                return self.assign_target(s.target, TOP, st)
            _, st = self.ev(s.target, st)
            return st
        if isinstance(s, ast.If):
            c, st = self.ev(s.test, st)
            if st is None:
                return None
            if c is not TOP:
                return self.block(s.body if c else s.orelse, st, ctl)
            a = self.block(s.body, st.copy(), ctl)
            b = self.block(s.orelse, st.copy(), ctl)
            return join(a, b)
        if isinstance(s, (ast.While, ast.For)):
            return self.loop(s, st, ctl)
        if isinstance(s, ast.Continue):
            ctl["continue"].append(st)
            return None
        if isinstance(s, ast.Break):
            ctl["break"].append(st)
            return None
        if isinstance(s, ast.Return):
            _, st = self.ev(s.value, st)
            if st is not None:
                ctl["return"].append(st)
            return None
        if isinstance(s, ast.Raise):
            _, st = self.ev(s.exc, st)
            if st is not None:
                ctl["raise"].append(st)
            return None
        if isinstance(s, ast.Try):
            entry = st.copy()
            inner = {"continue": ctl["continue"], "break": ctl["break"], "return": [], "raise": []}
            body_out = self.block(s.body, st, inner)
            unknown = self.assigned_names(s.body)
            hstate = State({k: (TOP if k in unknown else v) for k, v in entry.consts.items()}, entry.assigned)
            outs = [body_out]
            if s.orelse and body_out is not None:
                outs = [self.block(s.orelse, body_out, inner)]
            for h in s.handlers:
                hs = hstate.copy()
                if h.name:
                    hs.consts[h.name] = TOP
                outs.append(self.block(h.body, hs, inner))
            out = None
            for o in outs:
                out = join(out, o)
            if s.finalbody:
                # the finally block also runs on abrupt exits: check it from the weakest state that can reach it
                weakest = hstate
                for o in outs + inner["return"] + inner["raise"]:
                    weakest = join(weakest, o)
                self.block(s.finalbody, weakest.copy(), inner)
                if out is not None:
                    out = self.block(s.finalbody, out, ctl)
            ctl["return"] += inner["return"]
            ctl["raise"] += inner["raise"]
            return out
        if isinstance(s, (ast.FunctionDef, ast.AsyncFunctionDef, ast.ClassDef)):
            st = st.copy()
            st.consts[s.name] = TOP
            return st
        if isinstance(s, (ast.Nonlocal, ast.Global, ast.Pass, ast.Import, ast.ImportFrom)):
            return st
        if isinstance(s, ast.Delete):
            for t in s.targets:
                if isinstance(t, ast.Name):
                    st = st.copy()
                    st.consts[t.id] = TOP
                else:
                    f = self.field_of(t)
                    if f is not None:
                        st = State(st.consts, st.assigned - {f})
                    else:
                        _, st = self.ev(t.value if isinstance(t, (ast.Subscript, ast.Attribute)) else t, st)
            return st
        if isinstance(s, ast.Assert):
            _, st = self.ev(s.test, st)
            return st
        if isinstance(s, ast.With):
            for it in s.items:
                _, st = self.ev(it.context_expr, st)
                if it.optional_vars is not None:
                    st = self.assign_target(it.optional_vars, TOP, st)
            return self.block(s.body, st, ctl)
        raise Unsupported(f"statement {type(s).__name__}")

    def loop(self, s, st, ctl):
        head = st.copy()
        exits = None
        for _ in range(64):
            inner = {"continue": [], "break": [], "return": ctl["return"], "raise": ctl["raise"]}
            cur = head.copy()
            if isinstance(s, ast.While):
                c, cur = self.ev(s.test, cur)
                normal_exit = None if (c is not TOP and c) else (cur.copy() if cur is not None else None)
                enter = None if (c is not TOP and not c) else cur
            else:
                _, cur = self.ev(s.iter, cur)
                normal_exit = cur.copy() if cur is not None else None
                enter = self.assign_target(s.target, TOP, cur) if cur is not None else None
            out = self.block(s.body, enter, inner) if enter is not None else None
            back = out
            for x in inner["continue"]:
                back = join(back, x)
            new_head = join(head, back)
            ex = normal_exit
            if s.orelse and ex is not None:
                ex = self.block(s.orelse, ex, ctl)
            for x in inner["break"]:
                ex = join(ex, x)
            exits = ex
            if new_head.key() == head.key():
                break
            head = new_head
        else:
            raise Unsupported("loop fixpoint not reached")
        return exits

    def run(self, entry_assigned=()):
        params = [a.arg for a in self.fn.args.args]
        st = State({p: TOP for p in params}, frozenset(entry_assigned))
        ctl = {"continue": [], "break": [], "return": [], "raise": []}
        end = self.block(self.fn.body, st, ctl)
        finals = [x for x in ctl["return"] + [end] if x is not None]
        must = None
        for x in finals:
            must = x.assigned if must is None else (must & x.assigned)
        return {"reads": dict(self.reads), "writes": set(self.writes), "must_write": must or frozenset()}


def summarize_method(source, self_name="self"):
    """reads a helper method needs from its caller (not preceded by its own write) and its definite writes"""
    a = Analysis(source, self_name)
    r = a.run()
    return {"reads_need": {k: (not ok) for k, ok in r["reads"].items()}, "writes": frozenset(r["must_write"])}
