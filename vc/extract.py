"""E1 -- fact extractor.  Runs under /venv/bin/python (the interpreter that runs the
repository), imports the *real* package from REPO_ROOT and dumps, as JSON, everything the
VC generator needs: the source text of the very function objects the interpreter would
call (after MRO resolution), class tables, dataclass configuration, module constants,
the SLY rule tables and generated LR tables, and CPython's Unicode class tables.

Nothing here is a copy of repository code: every run re-reads it from REPO_ROOT.
What is dropped is stated in DESIGN.md section 3 (docstrings, annotations, log.debug).
"""
import dataclasses
import hashlib
import importlib
import inspect
import json
import os
import re
import sys
import textwrap
import types
import ast as pyast

REPO_ROOT = os.environ.get("REPO_ROOT", "/repo")
sys.path.insert(0, REPO_ROOT)

MODULES = [
    "odata_query.ast",
    "odata_query.exceptions",
    "odata_query.visitor",
    "odata_query.rewrite",
    "odata_query.utils",
    "odata_query.typing",
    "odata_query.grammar",
    "odata_query.roundtrip",
    "odata_query.sql.base",
    "odata_query.sql.sqlite",
    "odata_query.sql.athena",
    "odata_query.django.utils",
    "odata_query.django.django_q_ext",
    "odata_query.django.shorthand",
    "odata_query.sqlalchemy.shorthand",
    "odata_query.sqlalchemy.functions_ext",
    "odata_query.django.django_q",
    "odata_query.sqlalchemy.common",
    "odata_query.sqlalchemy.orm",
    "odata_query.sqlalchemy.core",
]


def qual(obj):
    mod = getattr(obj, "__module__", None)
    qn = getattr(obj, "__qualname__", getattr(obj, "__name__", None))
    if mod is None or qn is None:
        return None
    return f"{mod}.{qn}"


def is_repo(obj):
    mod = getattr(obj, "__module__", "") or ""
    return mod.startswith("odata_query")


def func_fact(fn, owner=None):
    """Source of a plain function object (unwrapping staticmethod/property done by caller)."""
    wrapped_by = []
    f = fn
    while hasattr(f, "__wrapped__"):
        wrapped_by.append(qual(f))
        f = f.__wrapped__
    try:
        src = inspect.getsource(f)
        lines, lineno = inspect.getsourcelines(f)
        file = inspect.getsourcefile(f)
    except (OSError, TypeError):
        return None
    outer_src = None
    builtin_wrapper = bool(wrapped_by) and not hasattr(fn, "__code__")      # e.g. functools.lru_cache: a C wrapper without source
    if wrapped_by and not builtin_wrapper:
        # the wrapper that actually runs (e.g. requires_gis.wrapper)
        try:
            outer_src = inspect.getsource(fn.__code__)
        except (OSError, TypeError):
            outer_src = None
    if builtin_wrapper:
        wrapper = {"qualname": type(fn).__module__ + "." + type(fn).__qualname__, "module": getattr(fn, "__module__", None),
                   "source": None, "closure": {}, "builtin": True}
    elif wrapped_by:
        wrapper = {"qualname": fn.__code__.co_qualname if hasattr(fn.__code__, "co_qualname") else fn.__code__.co_name,
                   "module": fn.__module__, "source": outer_src, "closure": closure_desc(fn)}
    else:
        wrapper = None
    return {
        "qualname": qual(f),
        "name": f.__name__,
        "module": f.__module__,
        "file": os.path.relpath(file, REPO_ROOT) if file and file.startswith(REPO_ROOT) else file,
        "line": lineno,
        "sha256": hashlib.sha256(src.encode()).hexdigest(),
        "source": src,
        "wrapper": wrapper,
    }


def closure_desc(fn):
    out = {}
    if fn.__closure__:
        for name, cell in zip(fn.__code__.co_freevars, fn.__closure__):
            try:
                out[name] = describe(cell.cell_contents, depth=1)
            except ValueError:
                out[name] = {"k": "unbound"}
    return out


def describe(v, depth=0):
    """JSON descriptor of a Python value found in a module namespace."""
    if v is None or isinstance(v, (bool, int, str)):
        return {"k": "const", "v": v}
    if isinstance(v, float):
        return {"k": "const", "v": v}
    if isinstance(v, tuple):
        return {"k": "tuple", "items": [describe(x, depth + 1) for x in v]}
    if isinstance(v, list) and depth < 3:
        return {"k": "list", "items": [describe(x, depth + 1) for x in v]}
    if isinstance(v, (set, frozenset)) and depth < 3:
        return {"k": "set", "items": sorted((describe(x, depth + 1) for x in v), key=json.dumps)}
    if isinstance(v, dict) and depth < 3:
        return {"k": "dict", "items": [[describe(k, depth + 1), describe(x, depth + 1)] for k, x in v.items()]}
    if isinstance(v, re.Pattern):
        return {"k": "regex", "pattern": v.pattern, "flags": v.flags}
    if isinstance(v, types.ModuleType):
        return {"k": "module", "name": v.__name__}
    if isinstance(v, type):
        d = {"k": "class", "qualname": qual(v), "name": v.__name__, "repo": is_repo(v),
             "mro": [qual(c) for c in v.__mro__]}
        return d
    if isinstance(v, (types.FunctionType, types.BuiltinFunctionType, types.MethodType)):
        qn = qual(v)
        slf = getattr(v, "__self__", None)
        if isinstance(slf, type) and not is_repo(slf):
            qn = f"{slf.__module__}.{slf.__qualname__}.{v.__name__}"      # bound classmethod of an external class
        return {"k": "func", "qualname": qn, "repo": is_repo(v), "name": getattr(v, "__name__", None)}
    if callable(v):
        return {"k": "callable", "qualname": qual(type(v)), "repr": repr(v)[:80], "name": getattr(v, "__name__", None)}
    return {"k": "opaque", "type": qual(type(v)), "repr": repr(v)[:80]}


def parse_src(src):
    """Parse a possibly indented def (inspect.getsource keeps the indentation; a plain
    dedent breaks on triple-quoted strings with lines at column 0)."""
    if src[:1] in (" ", "\t"):
        return pyast.parse("if 1:\n" + src)
    return pyast.parse(src)


def dotted_chains(src):
    """All Name(.attr)* chains in a function source."""
    tree = parse_src(src)
    chains = set()

    def chain(n):
        parts = []
        while isinstance(n, pyast.Attribute):
            parts.append(n.attr)
            n = n.value
        if isinstance(n, pyast.Name):
            parts.append(n.id)
            return list(reversed(parts))
        return None

    for n in pyast.walk(tree):
        if isinstance(n, (pyast.Attribute, pyast.Name)):
            c = chain(n)
            if c:
                for i in range(1, len(c) + 1):
                    chains.add(tuple(c[:i]))
    return chains


def resolve_chains(modobj, src, into):
    import builtins
    for c in dotted_chains(src):
        key = ".".join(c)
        if key in into:
            continue
        root = c[0]
        if root in modobj.__dict__:
            v = modobj.__dict__[root]
        elif hasattr(builtins, root):
            v = getattr(builtins, root)
        else:
            continue
        ok = True
        for a in c[1:]:
            # only follow modules and classes (attribute reads on instances are runtime behaviour)
            if isinstance(v, (types.ModuleType, type)) and hasattr(v, a):
                try:
                    if isinstance(v, type) and is_repo(v):
                        v = inspect.getattr_static(v, a)
                        if isinstance(v, (staticmethod, classmethod)):
                            v = v.__func__
                    else:
                        v = getattr(v, a)
                except AttributeError:
                    ok = False
                    break
            else:
                ok = False
                break
        if ok:
            into[key] = describe(v)


def class_fact(cls):
    members = {}
    for name in dir(cls):
        if name.startswith("__") and name not in ("__init__",):
            continue
        try:
            raw = inspect.getattr_static(cls, name)
        except AttributeError:
            continue
        definer = None
        for c in cls.__mro__:
            if name in c.__dict__:
                definer = c
                break
        kind = None
        fn = None
        if isinstance(raw, staticmethod):
            kind, fn = "staticmethod", raw.__func__
        elif isinstance(raw, classmethod):
            kind, fn = "classmethod", raw.__func__
        elif isinstance(raw, property):
            kind, fn = "property", raw.fget
        elif isinstance(raw, types.FunctionType):
            kind, fn = "method", raw
        else:
            continue
        if definer is object:
            continue
        ff = func_fact(fn)
        if ff is None:
            continue
        ff["member_kind"] = kind
        ff["definer"] = qual(definer)
        ff["definer_repo"] = is_repo(definer)
        members[name] = ff
    fact = {
        "qualname": qual(cls),
        "name": cls.__name__,
        "module": cls.__module__,
        "mro": [qual(c) for c in cls.__mro__],
        "bases": [qual(c) for c in cls.__bases__],
        "members": members,
    }
    if dataclasses.is_dataclass(cls):
        p = cls.__dataclass_params__
        fact["dataclass"] = {
            "frozen": p.frozen, "eq": p.eq, "order": p.order, "unsafe_hash": p.unsafe_hash,
            "fields": [{"name": f.name, "type": str(f.type),
                        "has_default": (f.default is not dataclasses.MISSING
                                        or f.default_factory is not dataclasses.MISSING),
                        "compare": f.compare, "init": f.init}
                       for f in dataclasses.fields(cls)],
            # user-written dunder methods (dataclass-generated ones have no source in the module)
            "user_eq": any("__eq__" in c.__dict__ and not _is_generated(c.__dict__["__eq__"])
                           for c in cls.__mro__ if c is not object),
            "user_hash": any("__hash__" in c.__dict__ and c.__dict__["__hash__"] is not None
                             and not _is_generated(c.__dict__["__hash__"])
                             for c in cls.__mro__ if c is not object),
            "hash_is_none": cls.__hash__ is None,
        }
    return fact


def _is_generated(fn):
    try:
        inspect.getsource(fn)
        return False
    except (OSError, TypeError):
        return True


_ALLCHARS = "".join(chr(cp) for cp in range(0x110000) if not 0xD800 <= cp <= 0xDFFF)


def unicode_class_ranges(pattern, flags=0):
    """Code points matched by a one-character pattern, as CPython's `re` decides it
    (one scan over every code point; surrogates are not characters of any input)."""
    cps = sorted(ord(m) for m in re.findall(pattern, _ALLCHARS, flags))
    ranges = []
    for cp in cps:
        if ranges and ranges[-1][1] == cp - 1:
            ranges[-1][1] = cp
        else:
            ranges.append([cp, cp])
    return ranges


def lexer_facts(grammar_mod):
    L = grammar_mod.ODataLexer
    rules = []
    for name, rule in L._rules:
        if callable(rule):
            pat = rule.pattern
            ff = func_fact(rule)
        else:
            pat = rule
            ff = None
        rules.append({"name": name, "pattern": pat, "action": ff})
    return {
        "rules": rules,
        "reflags": int(L.reflags),
        "literals": sorted(L.literals),
        "tokens": sorted(L.tokens),
        "ignore": getattr(L, "ignore", ""),
        "master_re": L._master_re.pattern,
        "master_flags": int(L._master_re.flags),
        "error": func_fact(L.error),
        "instance_dict_keys": sorted(vars(L()).keys()),
    }


class _ProbeSlot:
    def __init__(self, i):
        self.value = i


def _name_index(pr):
    """attribute name -> slot index, as SLY's own accessor functions compute it"""
    out = {}
    probe = [_ProbeSlot(i) for i in range(len(pr.prod))]
    for k, fn in (getattr(pr, "namemap", None) or {}).items():
        try:
            v = fn(probe)
            if isinstance(v, int):
                out[k] = v
        except Exception:
            pass
    return out


def parser_facts(grammar_mod):
    P = grammar_mod.ODataParser
    g = P._grammar
    prods = []
    for pr in g.Productions:
        ff = func_fact(pr.func) if pr.func else None
        prods.append({
            "number": pr.number, "name": pr.name, "prod": list(pr.prod),
            "prec": list(pr.prec) if pr.prec else None,
            "line": pr.line, "func": ff,
            "namemap": sorted(pr.namemap.keys()) if getattr(pr, "namemap", None) else [],
            "name_index": _name_index(pr),
        })
    t = P._lrtable
    action = {str(s): {tok: act for tok, act in row.items()} for s, row in t.lr_action.items()}
    goto = {str(s): dict(row) for s, row in t.lr_goto.items()}
    return {
        "productions": prods,
        "precedence_decl": [list(x) for x in P.precedence],
        "precedence": {k: list(v) for k, v in g.Precedence.items()},
        "terminals": sorted(g.Terminals.keys()),
        "nonterminals": sorted(g.Nonterminals.keys()),
        "start": g.Start,
        "lr_action": action,
        "lr_goto": goto,
        "defaulted_states": {str(k): v for k, v in getattr(t, "defaulted_states", {}).items()},
        "sr_conflicts": [list(map(str, c)) for c in getattr(t, "sr_conflicts", [])],
        "rr_conflicts": [list(map(str, c)) for c in getattr(t, "rr_conflicts", [])],
        "error": func_fact(P.error),
        "instance_dict_keys": sorted(vars(P()).keys()),
    }


def sly_facts():
    import sly
    import sly.lex
    import sly.yacc
    out = {"version": sly.__version__}
    for label, fn in (("Parser.parse", sly.yacc.Parser.parse),
                      ("Lexer.tokenize", sly.lex.Lexer.tokenize),
                      ("Parser.errok", sly.yacc.Parser.errok),
                      ("Parser.restart", sly.yacc.Parser.restart),
                      ("YaccProduction.__getitem__", sly.yacc.YaccProduction.__getitem__),
                      ("YaccProduction.__getattr__", sly.yacc.YaccProduction.__getattr__)):
        src = inspect.getsource(fn)
        out[label] = {"source": src, "sha256": hashlib.sha256(src.encode()).hexdigest(),
                      "file": inspect.getsourcefile(fn)}
    return out


def main():
    out_path = sys.argv[1]
    facts = {"repo_root": REPO_ROOT, "python": sys.version, "modules": {}, "classes": {},
             "functions": {}, "resolved": {}, "errors": []}
    for mname in MODULES:
        try:
            mod = importlib.import_module(mname)
        except Exception as e:  # recorded: the property whose functions live here becomes undecided
            facts["errors"].append({"module": mname, "error": f"{type(e).__name__}: {e}"})
            continue
        mfile = getattr(mod, "__file__", "")
        if not mfile.startswith(REPO_ROOT):
            facts["errors"].append({"module": mname, "error": f"imported from {mfile}, not REPO_ROOT"})
        env = {}
        resolved = {}
        for name, v in mod.__dict__.items():
            if name.startswith("__"):
                continue
            env[name] = describe(v)
            if isinstance(v, type) and v.__module__ == mname:
                cf = class_fact(v)
                facts["classes"][qual(v)] = cf
                for m in cf["members"].values():
                    mm = sys.modules.get(m["module"])
                    if mm is not None:
                        resolve_chains(mm, m["source"], facts["resolved"].setdefault(m["module"], {}))
                        if m.get("wrapper") and m["wrapper"].get("source"):
                            wm = sys.modules.get(m["wrapper"]["qualname"].rsplit(".", 3)[0])
            elif isinstance(v, types.FunctionType) and v.__module__ == mname:
                ff = func_fact(v)
                if ff:
                    facts["functions"][qual(v)] = ff
                    resolve_chains(mod, ff["source"], facts["resolved"].setdefault(mname, {}))
        facts["modules"][mname] = {"file": os.path.relpath(mfile, REPO_ROOT), "env": env}
    # wrapper sources reference module names too
    for cf in facts["classes"].values():
        for m in cf["members"].values():
            w = m.get("wrapper")
            if w and w.get("source"):
                modname = w.get("module") or m["module"]
                mm = sys.modules.get(modname)
                if mm is not None:
                    resolve_chains(mm, w["source"], facts["resolved"].setdefault(modname, {}))

    gm = sys.modules.get("odata_query.grammar")
    if gm is not None:
        facts["lexer"] = lexer_facts(gm)
        facts["parser"] = parser_facts(gm)
        facts["odata_functions"] = describe(gm.ODATA_FUNCTIONS)
    facts["sly"] = sly_facts()
    flags = facts.get("lexer", {}).get("reflags", 0)
    facts["unicode"] = {
        "d": unicode_class_ranges(r"\d"),
        "w": unicode_class_ranges(r"\w"),
        "s": unicode_class_ranges(r"\s"),
        # case-insensitive matching of ASCII letters can match non-ASCII code points
        # (e.g. U+212A KELVIN SIGN matches 'k'); probed per letter below
        "ci": {c: sorted(ord(m) for m in re.findall(c, _ALLCHARS, re.I))
               for c in "abcdefghijklmnopqrstuvwxyz"},
        "upper_nonascii_to_ascii": [[cp, chr(cp).upper()] for cp in range(128, 0x110000)
                                    if not 0xD800 <= cp <= 0xDFFF and chr(cp).upper().isascii()],
        "lower_nonascii_to_ascii": [[cp, chr(cp).lower()] for cp in range(128, 0x110000)
                                    if not 0xD800 <= cp <= 0xDFFF and chr(cp).lower().isascii()],
    }
    import sqlite3
    facts["config"] = {
        "sqlite_version": sqlite3.sqlite_version,
        "versions": {m: getattr(sys.modules.get(m), "__version__", None)
                     for m in ("django", "sqlalchemy", "sly")},
    }
    with open(out_path, "w") as fh:
        json.dump(facts, fh)


if __name__ == "__main__":
    main()
