"""Loader and helpers for the facts JSON written by extract.py (E1)."""
import ast as pyast
import json
import os
import subprocess
import tempfile

VENV_PY = os.environ.get("REPO_PYTHON", "/venv/bin/python")
HERE = os.path.dirname(os.path.abspath(__file__))


def scratch_dir():
    for base in ("/dev/shm", "/var/tmp"):
        if os.path.isdir(base) and os.access(base, os.W_OK):
            return tempfile.mkdtemp(prefix="vc_", dir=base)
    return tempfile.mkdtemp(prefix="vc_")


def run_extract(repo_root="/repo"):
    """Run E1 under the repository's interpreter against repo_root; return the facts dict."""
    d = scratch_dir()
    out = os.path.join(d, "facts.json")
    try:
        env = dict(os.environ, REPO_ROOT=repo_root, PYTHONDONTWRITEBYTECODE="1")
        env.pop("DJANGO_SETTINGS_MODULE", None)
        p = subprocess.run([VENV_PY, os.path.join(HERE, "extract.py"), out], env=env,
                           capture_output=True, text=True, cwd=repo_root)
        if p.returncode != 0:
            raise ExtractError(p.stderr[-4000:])
        with open(out) as fh:
            return Facts(json.load(fh))
    finally:
        try:
            os.remove(out)
        except OSError:
            pass
        try:
            os.rmdir(d)
        except OSError:
            pass


class ExtractError(Exception):
    pass


def parse_src(src):
    """Parse a possibly indented def; returns the FunctionDef node."""
    if src[:1] in (" ", "\t"):
        mod = pyast.parse("if 1:\n" + src)
        body = mod.body[0].body
    else:
        mod = pyast.parse(src)
        body = mod.body
    for n in body:
        if isinstance(n, (pyast.FunctionDef,)):
            return n
    raise ValueError("no function definition in source")


class Facts:
    def __init__(self, raw):
        self.raw = raw
        self.classes = raw["classes"]
        self.functions = raw["functions"]
        self.modules = raw["modules"]
        self.resolved = raw["resolved"]
        self.errors = raw["errors"]
        self._parsed = {}
        # concrete ast node kinds, in definition order of odata_query.ast
        self.kinds = []
        self.kind_fields = {}
        self.ast_classes = {}
        for qn, c in self.classes.items():
            if c["module"] == "odata_query.ast":
                self.ast_classes[c["name"]] = c
        for name, c in self.ast_classes.items():
            if not name.startswith("_") and "dataclass" in c:
                self.kinds.append(name)
                self.kind_fields[name] = [f["name"] for f in c["dataclass"]["fields"]]

    # -- classes ---------------------------------------------------------------------
    def cls(self, qualname):
        return self.classes.get(qualname)

    def ast_subkinds(self, clsname):
        """Concrete kinds K such that issubclass(ast.K, ast.<clsname>)."""
        target = "odata_query.ast." + clsname
        return [k for k in self.kinds if target in self.ast_classes[k]["mro"]]

    def member(self, cls_qualname, name):
        c = self.classes.get(cls_qualname)
        if not c:
            return None
        return c["members"].get(name)

    def fdef(self, fact):
        """Parsed FunctionDef of a function fact (cached by sha)."""
        key = fact["sha256"]
        if key not in self._parsed:
            self._parsed[key] = parse_src(fact["source"])
        return self._parsed[key]

    def module_env(self, module):
        m = self.modules.get(module)
        return m["env"] if m else {}

    def resolve_chain(self, module, chain):
        return self.resolved.get(module, {}).get(chain)
