"""Helpers shared by the per-property contract modules."""
import os
import time

import z3

from .runner import discharge
from .symexec import Obligation, Unsupported, Infeasible, Raised, Engine
from .speclib import LoopStepDone

LIB_EXC = "odata_query.exceptions.ODataException"
COVER_LEMMAS = True
UNFOLD_ROUNDS = 4
MAX_REFINE = int(os.environ.get("VC_MAX_REFINE", "40"))


def src_of(fact):
    return {"qualname": fact["qualname"], "file": fact.get("file"), "line": fact.get("line"),
            "sha256": fact.get("sha256")}


def explore(E, runner, max_paths=4000):
    """Engine.explore that also understands LoopStepDone."""
    def wrapped(path):
        try:
            return runner(path)
        except LoopStepDone:
            return ("loopstep",)
    return E.explore(wrapped, max_paths=max_paths)


def decode_witness(E, model, named_terms):
    out = {}
    for name, t in named_terms.items():
        try:
            out[name] = E.U.decode(eval_closed(E, model, t))
        except Exception as ex:  # decoding is best effort; the obligation verdict does not depend on it
            out[name] = {"?": f"{type(ex).__name__}: {ex}"}
    return out


def _has_unknown(d):
    if isinstance(d, dict):
        return "?" in d or any(_has_unknown(v) for v in d.values())
    if isinstance(d, list):
        return any(_has_unknown(v) for v in d)
    return False


def _free_consts(t, acc=None, seen=None):
    acc = {} if acc is None else acc
    seen = set() if seen is None else seen
    if t.get_id() in seen:
        return acc
    seen.add(t.get_id())
    if z3.is_const(t) and t.decl().kind() == z3.Z3_OP_UNINTERPRETED:
        acc[t.get_id()] = t
    elif z3.is_app(t):
        for i in range(t.num_args()):
            _free_consts(t.arg(i), acc, seen)
    return acc


def eval_closed(E, model, t, timeout_ms=5000):
    """Value of spec term `t` under the model's values of its free constants.  The constants are
    evaluated in the model (cheap), substituted, and the closed term is normalised by the
    rewriter, which unfolds recursive definitions on concrete arguments (model.eval on terms with
    recursive functions overflows in z3 5.1)."""
    from .deffun import eval_closed_term
    subs = [(c, model.eval(c, model_completion=True)) for c in _free_consts(t).values()]
    closed = z3.substitute(t, *subs) if subs else t
    return eval_closed_term(closed)


def judge(E, name, clause, hyps, goal, source, timeout_ms, witness_terms=None, extra=None, path_idx=None,
          exclude=None):
    """Discharge one obligation; a conjunctive goal is discharged conjunct by conjunct (same hypotheses),
    which is equivalent and much easier for the solver."""
    if not isinstance(goal, bool):
        g = goal
        if z3.is_and(g) and g.num_args() > 1:
            parts = [judge1(E, name, clause, hyps, g.arg(i), source, timeout_ms, witness_terms, extra, path_idx, exclude)
                     for i in range(g.num_args())]
            worst = None
            for st in ("refuted", "undecided", "discharged"):
                for p in parts:
                    if p["status"] == st:
                        worst = p
                        break
                if worst:
                    break
            r = dict(worst)
            r["seconds"] = sum(p["seconds"] for p in parts)
            r["goal_text"] = str(g)[:400]
            r["conjuncts"] = len(parts)
            return r
    return judge1(E, name, clause, hyps, goal, source, timeout_ms, witness_terms, extra, path_idx, exclude)


def judge1(E, name, clause, hyps, goal, source, timeout_ms, witness_terms=None, extra=None, path_idx=None,
           exclude=None):
    """Discharge one obligation and return the JSON result record.
    `exclude`: list of z3 predicates W (known-finding regions); the obligation is proved under
    /\\ not W (DESIGN section 6)."""
    hyps = list(hyps)
    for w in exclude or []:
        hyps.append(z3.Not(w))
    if isinstance(goal, bool):
        goal = z3.BoolVal(goal)
    from .deffun import unfold_closure, refine_with_model
    done = set()
    hyps = hyps + unfold_closure(hyps + [goal], rounds=UNFOLD_ROUNDS, done=done)
    total = 0.0
    refinements = 0
    last_sat = None
    while True:
        st, model, dt, reason = discharge(hyps, goal, timeout_ms if last_sat is None else min(timeout_ms, 5000))
        total += dt
        if st == "undecided" and last_sat is not None:
            # the refined query is too hard; the previous counter-model (of a weaker hypothesis set) stands
            # as the candidate counterexample -- it is replayed natively before anything is claimed
            st, model, reason = "refuted", last_sat, "sat (refinement incomplete: " + str(reason) + ")"
            break
        if st != "refuted" or refinements >= MAX_REFINE:
            break
        last_sat = model
        # counter-model may rest on an un-unfolded spec function: unfold where the model looks
        new = refine_with_model(model, hyps + [goal], done)
        if not new:
            break
        new = new + unfold_closure(new, rounds=2, done=done)
        hyps = hyps + new
        refinements += 1
    dt = total
    r = {"name": name, "clause": clause, "status": st, "seconds": dt, "reason": reason,
         "backend": "z3-5.1.0-api", "source": source, "path": path_idx,
         "goal_text": str(z3.simplify(goal))[:400], "refinements": refinements}
    if extra:
        r.update(extra)
    if st == "discharged" and path_idx is None and clause != "canary" and COVER_LEMMAS:
        # vacuity guard for lemma-style obligations (path obligations are covered by path feasibility):
        # the hypotheses alone must be satisfiable
        cst, _, cdt, creason = discharge(hyps, z3.BoolVal(False), min(timeout_ms, 5000))
        r["seconds"] += cdt
        if cst == "discharged":
            r["status"] = "undecided"
            r["reason"] = "hypotheses are contradictory (vacuous obligation)"
            r["selfcheck_failed"] = True
    if st == "refuted":
        r["solver_output"] = "sat\n" + str(model)[:3000]
        if witness_terms:
            r["witness"] = decode_witness(E, model, witness_terms)
    return r


def outcomes_to_results(E, base, source, results, post, allowed_exc, witness_terms, timeout_ms,
                        exclude=None, pre_name="pre", raise_post=None):
    """results: [(path, outcome)] from explore().  post(path, value) -> z3 Bool | list[(clause, goal)].
    allowed_exc(exc) -> bool."""
    out = []
    t_start = time.time()
    budget = float(os.environ.get("VC_FAMILY_BUDGET", "150"))
    if not results:
        out.append({"name": f"{base}:cover", "clause": "cover", "status": "undecided", "seconds": 0.0,
                    "reason": "no feasible path: precondition unsatisfiable (vacuous)", "source": source,
                    "selfcheck_failed": True})
        return out
    for idx, (path, outcome) in enumerate(results):
        obls = list(path.obligations)
        kind = outcome[0]
        if kind == "return":
            g = post(path, outcome[1])
            if isinstance(g, list):
                for clause, goal in g:
                    obls.append(Obligation(clause, path.pc + path.insts, goal))
            elif g is not None:
                obls.append(Obligation("post.value", path.pc + path.insts, g))
        elif kind == "raise" and raise_post is not None and raise_post(path, outcome[1]) is not None:
            for clause, goal in raise_post(path, outcome[1]):
                obls.append(Obligation(clause, path.pc + path.insts, goal, {"exception": outcome[1].name}))
        elif kind == "raise":
            exc = outcome[1]
            if not allowed_exc(exc):
                obls.append(Obligation("safety.raise", path.pc + path.insts, z3.BoolVal(False), {"exception": exc.name,
                                                                                      "args": repr(exc.args)[:200]}))
            else:
                obls.append(Obligation("raise.allowed", path.pc, z3.BoolVal(True), {"exception": exc.name}))
        elif kind == "unsupported":
            out.append({"name": f"{base}:unsupported", "clause": "unsupported", "status": "undecided",
                        "seconds": 0.0, "reason": outcome[1], "source": source, "path": idx})
            continue
        # cheap, decisive goals first (constant-false safety / ownership goals)
        obls.sort(key=lambda o: 0 if z3.is_false(o.goal) else 1)
        for o in obls:
            extra = {"info": {k: str(v)[:200] for k, v in (o.info or {}).items()}} if o.info else None
            if time.time() - t_start > budget:
                out.append({"name": f"{base}:{o.clause}", "clause": o.clause, "status": "undecided", "seconds": 0.0,
                            "reason": f"family time budget of {budget:.0f}s exhausted", "source": source, "path": idx})
                continue
            out.append(judge(E, f"{base}:{o.clause}", o.clause, o.hyps, o.goal, source, timeout_ms,
                             witness_terms, extra=extra, path_idx=idx, exclude=exclude))
    return out


def is_lib_exc(exc):
    return LIB_EXC in exc.mro


def visit_family(E, facts, prop, cls_qualname, kind, make_self, pre, post, allowed_exc, witness, timeout_ms,
                 exclude=None, entry="visit", prefix="f"):
    """Obligation family `<Class>.visit[kind]`: run the class's MRO-resolved `visit` on an arbitrary node of
    `kind` (fresh field constants), inlining the dispatched handler; recursive `self.visit(child)` calls go
    through the registered contract.  pre(path, node) assumes; post(path, node, value) -> goal(s)."""
    from .speclib import fresh_node
    from .symexec import FuncRef, Sym
    cf = facts.classes[cls_qualname]
    m = cf["members"][entry]
    handler = cf["members"].get("visit_" + kind) or cf["members"]["generic_visit"]
    fr = FuncRef(m, defcls=m["definer"])
    holder = {}

    def runner(path):
        node, consts = fresh_node(E, path, kind, prefix)
        holder["node"] = node
        holder["consts"] = consts
        pre(path, node)
        self_obj = make_self(path)
        return E.run_function(path, fr, [self_obj, Sym(node)], self_val=self_obj)

    res = explore(E, runner)
    node = holder.get("node")
    base = f"{prop}:{handler['qualname']}[{kind}]"
    wt = witness(node) if node is not None else {}
    ex = exclude(node) if (exclude and node is not None) else None
    return outcomes_to_results(E, base, src_of(handler), res, lambda path, v: post(path, node, v), allowed_exc, wt,
                               timeout_ms, exclude=ex)


ERR_PREFIX = "raise:"


class SummaryFailed(Exception):
    """The strongest postcondition of a function could not be derived (unsupported construct / explosion)."""


def summarize(E, name, fref, nargs=1, self_arg=None, max_paths=400, pre=None):
    """Strongest postcondition of a pure repo function, derived mechanically: explore every path of the
    real source with symbolic arguments and turn (path condition, result) pairs into one DefFun body.
    Calls the function makes to itself (directly or through helpers) must be mapped to the returned
    DefFun by a contract the caller installs *before* calling summarize.  An exception on a path is
    encoded as ExtV("raise:<Class>")."""
    from .deffun import DefFun
    from .symexec import Sym
    U = E.U
    params = [z3.Const(f"{name}!a{i}", U.PV) for i in range(nargs)]
    holder = {}

    def body_fn(*args):
        b = holder["body"]
        return z3.substitute(b, *zip(params, args))

    df = DefFun(name, [U.PV] * nargs, U.PV, body_fn)
    df.ready = False                # no unfolding while the body is being derived
    holder["df"] = df

    def runner(path):
        args = [Sym(p) for p in params]
        if pre is not None:
            path.assume(pre(*params))
        path.ghost["pre_n"] = len(path.pc)      # the body is guarded by `pre` as a whole: not repeated per case
        if self_arg is not None:
            args = [self_arg] + args
        return E.run_function(path, fref, args)

    def finish():
        try:
            res = explore(E, runner, max_paths=max_paths)
        except Unsupported as u:
            raise SummaryFailed(f"summarize({name}): {u}")
        cases = []
        for path, out in res:
            own = path.pc[path.ghost.get("pre_n", 0):]
            cond = z3.And(*own) if own else z3.BoolVal(True)
            if out[0] == "return":
                val = E.to_pv(out[1])
            elif out[0] == "raise":
                val = U.extv(ERR_PREFIX + out[1].name, [])
            else:
                raise SummaryFailed(f"summarize({name}): {out}")
            cases.append((cond, val))
        body = U.extv(ERR_PREFIX + "unreachable", [])
        for cond, val in reversed(cases):
            body = z3.If(cond, val, body)
        if pre is not None:
            # the summary is derived (and only claimed) under the precondition
            body = z3.If(pre(*params), body, U.extv(ERR_PREFIX + "precondition", []))
        holder["body"] = body
        holder["cases"] = cases
        df.ready = True
        return df, cases

    return df, finish
