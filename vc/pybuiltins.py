"""Models of the Python builtins, str/list/dict methods and attribute access that the
functions under contract use (DESIGN section 4).  Everything else raises Unsupported."""
import z3

from .symexec import (Atom, BoundMethod, Builtin, ClassRef, DictObj, ExcVal, ExtRef, ExtVal, FuncRef, GenVal,
                      ListObj, Module, Obj, Raised, SBool, SInt, SStr, SeqMap, Sym, SymTuple, Unsupported, mk_str,
                      BUILTIN_EXC)

MISSING = object()

STR_METHODS = {"replace", "upper", "lower", "split", "join", "startswith", "endswith", "strip", "format", "isdigit"}
LIST_METHODS = {"append", "extend", "pop", "insert", "index", "copy"}
DICT_METHODS = {"items", "keys", "values", "get"}


# =========================================================================================
# attribute access
# =========================================================================================
def getattr_value(E, path, o, name, frame):
    facts = E.facts
    if hasattr(o, "sym_getattr"):
        return o.sym_getattr(E, path, name)
    if isinstance(o, (Obj, ExcVal)):
        if name in o.attrs:
            return o.attrs[name]
        if name == "__class__":
            return E.class_by_qualname(o.cls)
        if isinstance(o, ExcVal) and name == "args":
            return tuple(o.args)
        cf = facts.classes.get(o.cls)
        if cf:
            m = cf["members"].get(name)
            if m:
                return bind_member(E, path, o, m)
        if name == "__dict__":
            raise Unsupported("__dict__ access")
        return MISSING
    if isinstance(o, Sym) and name == "py_val" and E.U.ctor_name(z3.simplify(o.term)) is None \
            and z3.simplify(o.term).get_id() not in path.tags:
        # the Python value of a node whose kind this path has not fixed (List.py_val recurses through its items, without
        # bound): an opaque function of the node; handlers of a known literal kind still execute the real property
        return ExtVal("py_val", [o])
    if isinstance(o, Sym) and E.U.ctor_name(z3.simplify(o.term)) is None \
            and z3.simplify(o.term).get_id() not in path.tags:
        lazy = lazy_node_attr(E, path, o, name)
        if lazy is not MISSING:
            return lazy
    if isinstance(o, Sym):
        tag = E.tag_of(path, o)
        if tag.startswith("N_"):
            kind = tag[2:]
            if name == "__class__":
                return E.class_by_qualname("odata_query.ast." + kind)
            if name in facts.kind_fields[kind]:
                return E.from_pv(E.U.field(kind, name, o.term), path)
            m = facts.ast_classes[kind]["members"].get(name)
            if m:
                return bind_member(E, path, o, m)
            return MISSING
        if tag == "StrV":
            return getattr_value(E, path, E.from_pv(E.U.strv(E.PV.s(o.term))), name, frame)
        if tag == "ListV":
            if hasattr(list, name):
                lo = ListObj(E.PV.items(o.term), fresh=False)
                lo.sym_origin = o
                return Builtin("list." + name, lo)
            return MISSING
        if tag == "TupleV":
            if name in ("count", "index"):
                raise Unsupported("tuple method")
            return MISSING
        if tag == "ExtV":
            return ext_getattr(E, path, o, name)
        if tag == "ClsV":
            if name == "__name__":
                f = E.uf("cls_name", z3.IntSort(), z3.StringSort())
                return SStr([Atom(f(E.PV.cls(o.term)), ("cls_name", o.term))])
            raise Unsupported("attribute of symbolic class")
        if tag in ("NoneV", "BoolV", "IntV"):
            return MISSING
        raise Unsupported(f"getattr on {tag}")
    if name.startswith("__") and isinstance(o, (str, SStr, ListObj, DictObj, tuple)):
        if name == "__class__":
            return E.class_by_qualname(_static_mro(E, o)[0])
        raise Unsupported(f"dunder attribute {name} of a builtin value")
    if isinstance(o, (str, SStr)):
        if hasattr(str, name):
            return Builtin("str." + name, o)
        return MISSING
    if isinstance(o, ListObj):
        if hasattr(list, name):
            return Builtin("list." + name, o)
        return MISSING
    if isinstance(o, DictObj):
        if hasattr(dict, name):
            return Builtin("dict." + name, o)
        return MISSING
    if isinstance(o, tuple):
        if hasattr(tuple, name):
            return Builtin("tuple." + name, o)
        return MISSING
    if isinstance(o, ClassRef):
        if name == "__name__":
            return o.name
        if name == "__mro__":
            return tuple(E.class_by_qualname(q) for q in o.mro)
        cf = facts.classes.get(o.qualname)
        if cf:
            m = cf["members"].get(name)
            if m:
                if m["member_kind"] in ("method", "staticmethod"):
                    return FuncRef(m, defcls=m["definer"])
                raise Unsupported(f"class attribute {o.qualname}.{name} ({m['member_kind']})")
        return MISSING
    if isinstance(o, Module):
        if o.name in facts.modules:
            env = facts.module_env(o.name)
            if name in env:
                return E.desc_to_value(env[name], o.name)
            return MISSING
        return ExtRef(o.name + "." + name, {"k": "unknown"})
    if isinstance(o, (ExtVal, ExtRef)):
        return ext_getattr(E, path, o, name)
    if isinstance(o, FuncRef):
        if name == "__name__":
            return o.fact["name"]
        return MISSING
    if o is None or isinstance(o, (bool, int, float, SInt, SBool, SymTuple, BoundMethod, Builtin)):
        return MISSING
    raise Unsupported(f"getattr on {type(o).__name__}")


def lazy_node_attr(E, path, o, name):
    """node.<field> / node.__class__ on a node whose kind is not yet fixed on this path: an if-then-else term over
    the kinds that have the field (one branch on 'has the field', none on the kind itself)."""
    U, facts = E.U, E.facts
    t = o.term
    if not path.entails(U.is_node(t)):
        return MISSING
    if name == "__class__":
        return MISSING      # dispatch by class name needs the concrete kind: fork (tag_of) as usual
    kinds = [k for k in facts.kinds if name in facts.kind_fields[k]]
    if not kinds:
        return MISSING
    # a class member of the same name on some kind (property / method) needs the kind: fall back to forking
    if any(name in facts.ast_classes[k]["members"] for k in facts.kinds):
        if name == "py_val":
            # the Python value of a node of undetermined kind (List.py_val recurses through its items): an opaque
            # function of the node -- handlers of a known literal kind still execute the real property
            return ExtVal("py_val", [o])
        return MISSING
    has = U.is_node(t, kinds)
    if not E.branch(path, has):
        E.throw(path, "AttributeError", name)
    term = U.field(kinds[-1], name, t)
    for k in reversed(kinds[:-1]):
        term = z3.If(U.is_kind(k, t), U.field(k, name, t), term)
    return E.from_pv(term, path)


def class_of_term(E, t):
    U = E.U
    # external objects / classes: some class, an uninterpreted function of the value
    term = E.PV.ClsV(E.uf("class_index_of", E.PV, z3.IntSort())(t))
    for tag, nm in (("StrV", "str"), ("ListV", "list"), ("TupleV", "tuple"), ("NoneV", "NoneType"), ("IntV", "int"),
                    ("BoolV", "bool")):
        term = z3.If(U.is_tag(tag, t), U.clsv("builtins." + nm), term)
    for k in reversed(E.facts.kinds):
        term = z3.If(U.is_kind(k, t), U.clsv("odata_query.ast." + k), term)
    return term


def bind_member(E, path, o, m):
    kind = m["member_kind"]
    fr = FuncRef(m, defcls=m["definer"])
    if kind == "method":
        return BoundMethod(o, fr)
    if kind == "staticmethod":
        return fr
    if kind == "property":
        return E.call_function(path, fr, [o], {}, self_val=o)
    raise Unsupported(f"member kind {kind}")


def ext_getattr(E, path, o, name):
    key = (o.name if isinstance(o, ExtVal) else "<sym>", name)
    h = E.attr_models.get(key) or E.attr_models.get(("*", name)) or E.attr_models.get(("*", "*"))
    if h:
        r = h(E, path, o, name)
        if r is not NotImplemented:
            return r
    if isinstance(o, ExtRef):
        return ExtRef(o.qualname + "." + name, {"k": "unknown"})
    return ExtVal("getattr", [o, name])


# =========================================================================================
# builtin calls
# =========================================================================================
def call(E, path, fv, args, kwargs, frame):
    name = fv.name
    h = _TABLE.get(name)
    if h is None:
        # concrete receiver and arguments of an immutable builtin type: CPython itself is the model
        if name.split(".")[0] in ("str", "tuple") and isinstance(fv.self_val, (str, tuple)) \
                and all(isinstance(a, (str, int, bool, type(None))) for a in args) and not kwargs \
                and (name.split(".")[0] == "str" or all(isinstance(x, (str, int, bool, type(None))) for x in fv.self_val)):
            try:
                r = getattr(fv.self_val, name.split(".", 1)[1])(*args)
            except Exception as ex:
                E.throw(path, type(ex).__name__ if type(ex).__name__ in BUILTIN_EXC else "Exception", str(ex))
            if isinstance(r, list):
                return ListObj(r)
            if isinstance(r, (str, int, bool, tuple, type(None))):
                return r
        if name.startswith("str.") and name[4:] in STR_TO_STR and isinstance(fv.self_val, SStr) \
                and all(isinstance(a, (str, int, type(None))) for a in args) and not kwargs:
            return _str_opaque(E, path, fv, args, kwargs)
        raise Unsupported(f"builtin {name}")
    return h(E, path, fv, args, kwargs, frame)


def _isinstance(E, path, fv, args, kwargs, frame):
    if len(args) != 2:
        E.throw(path, "TypeError", "isinstance expected 2 arguments")
    return isinstance_value(E, path, args[0], args[1])


def isinstance_value(E, path, v, c):
    if isinstance(c, tuple):
        conds = []
        for x in c:
            r = isinstance_value(E, path, v, x)
            if r is True:
                return True
            if r is False:
                continue
            conds.append(r.e)
        if not conds:
            return False
        return _sb(z3.Or(*conds))
    if isinstance(c, ClassRef):
        qn = c.qualname
    elif isinstance(c, ExtRef):
        qn = c.qualname
    else:
        raise Unsupported(f"isinstance with {type(c).__name__}")
    if qn == "builtins.object":
        return True
    pyside = _static_mro(E, v)
    if pyside is not None:
        return qn in pyside
    if isinstance(v, ExtVal):
        if v.cls_mro is not None:
            return qn in v.cls_mro
        if qn.startswith("odata_query.") or qn.startswith("builtins."):
            return False
        f = E.uf("ext_isinstance", E.PV, z3.IntSort(), z3.BoolSort())
        E.U.clsv(qn)
        return _sb(f(E.to_pv(v), z3.IntVal(E.U.cls_index[qn])))
    if isinstance(v, Sym):
        U = E.U
        t = v.term
        if qn.startswith("odata_query.ast."):
            kinds = E.facts.ast_subkinds(qn.rsplit(".", 1)[1])
            return _sb(U.is_node(t, kinds))
        b = {"builtins.str": "StrV", "builtins.list": "ListV", "builtins.tuple": "TupleV",
             "builtins.bool": "BoolV", "builtins.type": "ClsV"}.get(qn)
        if b:
            return _sb(U.is_tag(b, t))
        if qn == "builtins.int":
            return _sb(z3.Or(U.is_tag("IntV", t), U.is_tag("BoolV", t)))
        if qn in ("builtins.dict", "builtins.float", "builtins.set"):
            return False
        if qn.startswith("odata_query."):
            return False
        f = E.uf("ext_isinstance", E.PV, z3.IntSort(), z3.BoolSort())
        U.clsv(qn)
        return _sb(z3.And(U.is_tag("ExtV", t), f(t, z3.IntVal(U.cls_index[qn]))))
    raise Unsupported(f"isinstance of {type(v).__name__}")


def _static_mro(E, v):
    if hasattr(v, "sym_mro"):
        return v.sym_mro
    if v is None:
        return ["builtins.NoneType", "builtins.object"]
    if isinstance(v, (bool, SBool)):
        return ["builtins.bool", "builtins.int", "builtins.object"]
    if isinstance(v, (int, SInt)):
        return ["builtins.int", "builtins.object"]
    if isinstance(v, float):
        return ["builtins.float", "builtins.object"]
    if isinstance(v, (str, SStr)):
        return ["builtins.str", "builtins.object"]
    if isinstance(v, (tuple, SymTuple)):
        return ["builtins.tuple", "builtins.object"]
    if isinstance(v, (ListObj, SeqMap)):
        return ["builtins.list", "builtins.object"]
    if isinstance(v, DictObj):
        return ["builtins.dict", "builtins.object"]
    if isinstance(v, Obj):
        cf = E.facts.classes.get(v.cls)
        return cf["mro"] if cf else [v.cls]
    if isinstance(v, ExcVal):
        return v.mro
    if isinstance(v, ClassRef):
        return ["builtins.type", "builtins.object"]
    if isinstance(v, (FuncRef, BoundMethod, Builtin)):
        return ["builtins.function", "builtins.object"]
    if isinstance(v, ExtRef):
        return ["<extref>", "builtins.object"]
    return None


def _sb(e):
    e = z3.simplify(e)
    if z3.is_true(e):
        return True
    if z3.is_false(e):
        return False
    return SBool(e)


def _len(E, path, fv, args, kwargs, frame):
    (v,) = args
    if isinstance(v, (str, tuple)):
        return len(v)
    if isinstance(v, ListObj):
        if v.is_concrete():
            return len(v.content)
        return _si(z3.Length(v.content))
    if isinstance(v, DictObj):
        return len(v.d)
    if isinstance(v, SStr):
        return _si(z3.Length(v.term()))
    if isinstance(v, SymTuple):
        return _si(z3.Length(v.seq))
    if isinstance(v, SeqMap):
        return _si(z3.Length(v.seq_term))
    if isinstance(v, GenVal):
        E.throw(path, "TypeError", "object of type 'generator' has no len()")
    if isinstance(v, Sym):
        tag = E.tag_of(path, v)
        if tag == "ListV":
            return _si(z3.Length(E.PV.items(v.term)))
        if tag == "TupleV":
            return _si(z3.Length(E.PV.titems(v.term)))
        if tag == "StrV":
            return _si(z3.Length(E.PV.s(v.term)))
        if tag == "ExtV":
            n = E.uf("ext_len", E.PV, z3.IntSort())(v.term)
            path.assume_fact(n >= 0)
            return _si(n)
        E.throw(path, "TypeError", f"object of type {tag} has no len()")
    if v is None or isinstance(v, (int, bool)):
        E.throw(path, "TypeError", "object has no len()")
    if isinstance(v, ExtVal):
        n = E.uf("ext_len", E.PV, z3.IntSort())(E.to_pv(v))
        path.assume_fact(n >= 0)
        return _si(n)
    raise Unsupported(f"len of {type(v).__name__}")


def _si(e):
    e = z3.simplify(e)
    if z3.is_int_value(e):
        return e.as_long()
    return SInt(e)


def _str(E, path, fv, args, kwargs, frame):
    if not args:
        return ""
    return E.to_str(path, args[0])


def _bool(E, path, fv, args, kwargs, frame):
    if not args:
        return False
    t = E.truthy(path, args[0])
    if isinstance(t, bool):
        return t
    t = z3.simplify(t)
    if z3.is_true(t):
        return True
    if z3.is_false(t):
        return False
    return SBool(t)


def _getattr(E, path, fv, args, kwargs, frame):
    if len(args) not in (2, 3):
        E.throw(path, "TypeError", "getattr expected 2 or 3 arguments")
    o, name = args[0], args[1]
    if isinstance(name, Sym):
        name = E.as_sstr(path, name)
    if isinstance(name, SStr) and (isinstance(o, (ExtVal, ExtRef)) or (isinstance(o, Sym) and E.tag_of(path, o) == "ExtV")):
        # attribute of an external object by a computed name: AttributeError iff it has no such attribute
        has = E.uf("ext_hasattr", E.PV, z3.StringSort(), z3.BoolSort())(E.to_pv(o), name.term())
        if not E.branch(path, has):
            if len(args) == 3:
                return args[2]
            E.throw(path, "AttributeError", name)
        return ExtVal("getattr", [o, name])
    if isinstance(name, SStr):
        return getattr_symbolic_name(E, path, o, name, args[2:] and (args[2],))
    if not isinstance(name, str):
        raise Unsupported("getattr with non-string name")
    try:
        r = getattr_value(E, path, o, name, frame)
    except Raised as ex:
        # getattr(o, name, default): an AttributeError of the lookup itself selects the default
        if len(args) == 3 and getattr(ex.exc, "name", "").endswith("AttributeError") and ex.exc.args[:1] == (name,):
            return args[2]
        raise
    if r is MISSING:
        if len(args) == 3:
            return args[2]
        E.throw(path, "AttributeError", name)
    return r


def getattr_symbolic_name(E, path, o, name, default):
    """getattr(self, "<prefix>" + symbolic) : fork over the members of self's class."""
    if not isinstance(o, Obj):
        raise Unsupported("getattr with symbolic name on non-instance")
    cf = E.facts.classes[o.cls]
    nt = name.term()
    prefix = name.parts[0] if name.parts and isinstance(name.parts[0], str) else ""
    cands = sorted(n for n in cf["members"] if n.startswith(prefix))
    cands += sorted(n for n in o.attrs if n.startswith(prefix) and n not in cands)
    opts = [(n, nt == z3.StringVal(n)) for n in cands]
    none = z3.And(*[nt != z3.StringVal(n) for n in cands]) if cands else z3.BoolVal(True)
    i = path.choose(opts + [("<none>", none)])
    if i == len(opts):
        if default:
            return default[0]
        E.throw(path, "AttributeError", name)
    r = getattr_value(E, path, o, cands[i], None)
    path.notes.append(("getattr", cands[i]))
    return r


def _hasattr(E, path, fv, args, kwargs, frame):
    o, name = args
    if not isinstance(name, str):
        raise Unsupported("hasattr with symbolic name")
    if isinstance(o, Sym) and E.U.ctor_name(z3.simplify(o.term)) is None and z3.simplify(o.term).get_id() not in path.tags \
            and path.entails(E.U.is_node(o.term)):
        kinds = [k for k in E.facts.kinds if name in E.facts.kind_fields[k] or name in E.facts.ast_classes[k]["members"]
                 or name == "__class__"]
        return _sb(E.U.is_node(o.term, kinds)) if kinds else False
    if isinstance(o, (ExtVal,)) or (isinstance(o, Sym) and E.tag_of(path, o) == "ExtV"):
        h = E.attr_models.get(("<hasattr>",))
        if h:
            r = h(E, path, o, name)
            if r is not NotImplemented:
                return r
        f = E.uf("ext_hasattr", E.PV, z3.StringSort(), z3.BoolSort())
        return _sb(f(E.to_pv(o), z3.StringVal(name)))
    try:
        r = getattr_value(E, path, o, name, frame)
    except Raised as ex:
        if "builtins.AttributeError" in ex.exc.mro:
            return False
        raise
    return r is not MISSING


def _type(E, path, fv, args, kwargs, frame):
    (v,) = args
    if isinstance(v, Sym) and E.U.ctor_name(z3.simplify(v.term)) is None and z3.simplify(v.term).get_id() not in path.tags:
        return Sym(class_of_term(E, v.term))
    if isinstance(v, Sym):
        tag = E.tag_of(path, v)
        if tag.startswith("N_"):
            return E.class_by_qualname("odata_query.ast." + tag[2:])
        b = {"StrV": "str", "ListV": "list", "TupleV": "tuple", "NoneV": "NoneType", "IntV": "int",
             "BoolV": "bool", "ClsV": "type"}.get(tag)
        if b:
            return E.class_by_qualname("builtins." + b)
        return ExtVal("builtins.type", [v])
    if isinstance(v, (Obj, ExcVal)):
        return E.class_by_qualname(v.cls)
    mro = _static_mro(E, v)
    if mro:
        return E.class_by_qualname(mro[0])
    if isinstance(v, ExtVal):
        if v.cls_mro:
            return ExtRef(v.cls_mro[0], {"k": "class", "qualname": v.cls_mro[0], "mro": v.cls_mro})
        return ExtVal("builtins.type", [v])
    raise Unsupported(f"type() of {type(v).__name__}")


def _tuple(E, path, fv, args, kwargs, frame):
    if not args:
        return ()
    items = E.iter_concrete(path, args[0])
    if items is None:
        seq = E.symbolic_seq(path, args[0])
        return E.from_pv(E.U.tuplev(seq))
    return tuple(items)


def _list(E, path, fv, args, kwargs, frame):
    if not args:
        return ListObj([])
    items = E.iter_concrete(path, args[0])
    if items is None:
        return ListObj(E.symbolic_seq(path, args[0]))
    return ListObj(list(items))


def _reversed(E, path, fv, args, kwargs, frame):
    items = E.iter_concrete(path, args[0])
    if items is None:
        raise Unsupported("reversed() of symbolic sequence")
    return GenVal(list(reversed(items)))


def _iter(E, path, fv, args, kwargs, frame):
    if isinstance(args[0], ExtVal) or (isinstance(args[0], Sym) and E.tag_of(path, args[0]) == "ExtV"):
        return ExtVal("builtins.iter", [args[0]])
    items = E.iter_concrete(path, args[0])
    if items is None:
        if isinstance(args[0], (ExtVal,)):
            return ExtVal("builtins.iter", [args[0]])
        raise Unsupported("iter() of symbolic sequence")
    return GenVal(list(items))


def _next(E, path, fv, args, kwargs, frame):
    g = args[0]
    if isinstance(g, GenVal):
        if g.items:
            return g.items.pop(0)
        if len(args) > 1:
            return args[1]
        E.throw(path, "StopIteration")
    if isinstance(g, ExtVal):
        return ExtVal("builtins.next", [g])
    raise Unsupported("next()")


def _enumerate(E, path, fv, args, kwargs, frame):
    start = kwargs.get("start", args[1] if len(args) > 1 else 0)
    items = E.iter_concrete(path, args[0])
    if not isinstance(start, int):
        raise Unsupported("enumerate with symbolic start")
    if items is None:
        from .symexec import EnumIter
        return EnumIter(args[0], start)
    return GenVal([(start + i, x) for i, x in enumerate(items)])


def _zip(E, path, fv, args, kwargs, frame):
    cols = [E.iter_concrete(path, a) for a in args]
    if any(c is None for c in cols):
        raise Unsupported("zip over a symbolic-length sequence")
    return GenVal([tuple(t) for t in zip(*cols)])


def _repr(E, path, fv, args, kwargs, frame):
    (x,) = args
    if isinstance(x, (str, int, bool, type(None), float)):
        return repr(x)
    try:
        pv = E.to_pv(x)
    except Unsupported:
        pv = E.U.fresh("reprarg")
    return SStr([Atom(E.uf("py_repr", E.PV, z3.StringSort())(pv), ("py_repr", pv))])


def _any(E, path, fv, args, kwargs, frame):
    return _fold(E, path, args[0], True)


def _all(E, path, fv, args, kwargs, frame):
    return _fold(E, path, args[0], False)


def _fold(E, path, it, is_any):
    items = E.iter_concrete(path, it)
    if items is None:
        if isinstance(it, SeqMap):
            h = E.ext_models.get("<fold_seqmap>")
            if h:
                return h(E, path, it, is_any)
        raise Unsupported("any/all over symbolic sequence")
    conds = []
    for x in items:
        t = E.truthy(path, x)
        if isinstance(t, bool):
            if t == is_any:
                return is_any
            continue
        conds.append(t)
    if not conds:
        return not is_any
    return _sb(z3.Or(*conds) if is_any else z3.And(*conds))


def _int(E, path, fv, args, kwargs, frame):
    (v,) = args
    if isinstance(v, (int, float)):
        return int(v)
    if isinstance(v, str):
        try:
            return int(v)
        except ValueError:
            E.throw(path, "ValueError", "invalid literal for int()")
    h = E.ext_models.get("builtins.int")
    if h:
        return h(E, path, args, kwargs)
    return ExtVal("builtins.int", [v])


def _float(E, path, fv, args, kwargs, frame):
    (v,) = args
    if isinstance(v, (int, float)) and not isinstance(v, bool):
        return float(v)
    h = E.ext_models.get("builtins.float")
    if h:
        return h(E, path, args, kwargs)
    return ExtVal("builtins.float", [v])


def _super(E, path, fv, args, kwargs, frame):
    raise Unsupported("bare super()")


# ---- str methods --------------------------------------------------------------------
def _sterm(s):
    return z3.StringVal(s) if isinstance(s, str) else s.term()


STR_TO_STR = {"strip", "lstrip", "rstrip", "title", "capitalize", "casefold", "swapcase", "center", "ljust", "rjust",
              "zfill", "expandtabs", "removeprefix", "removesuffix", "translate"}


def _str_opaque(E, path, fv, args, kwargs):
    """An unmodelled str -> str method on a symbolic string: some string (uninterpreted function of the
    receiver and the constant arguments).  Sound over-approximation: nothing is known about the result."""
    name = fv.name.split(".", 1)[1]
    s = fv.self_val
    key = name + "".join("|" + repr(a) for a in args if isinstance(a, (str, int, type(None))))
    f = E.uf("str_" + key, z3.StringSort(), z3.StringSort())
    return SStr([Atom(f(_sterm(s)), (name, s) + tuple(args))])


def _str_replace(E, path, fv, args, kwargs, frame):
    s = fv.self_val
    if len(args) != 2:
        if len(args) == 3 and all(isinstance(a, (str, int)) for a in args) and isinstance(s, SStr):
            return _str_opaque(E, path, Builtin("str.replace_count", s), args, kwargs)
        raise Unsupported("str.replace with count")
    old, new = args
    if isinstance(s, str) and isinstance(old, str) and isinstance(new, str):
        return s.replace(old, new)
    if not (isinstance(old, str) and isinstance(new, str)):
        raise Unsupported("str.replace with symbolic pattern")
    if isinstance(s, SStr) and old and len(old) == 1:
        # distribute over the concatenation (a one-character pattern cannot straddle parts)
        parts = []
        for p in s.parts:
            if isinstance(p, str):
                parts.append(p.replace(old, new))
            else:
                parts.append(_replace_atom(E, p, old, new))
        return mk_str(parts)
    if isinstance(s, SStr) and len(s.parts) == 1:
        return mk_str([_replace_atom(E, s.parts[0], old, new)])
    f = E.uf("str_replace_all", z3.StringSort(), z3.StringSort(), z3.StringSort(), z3.StringSort())
    return SStr([Atom(f(_sterm(s), z3.StringVal(old), z3.StringVal(new)), ("replace", s, old, new))])


def _replace_atom(E, p, old, new):
    f = E.uf("str_replace_all", z3.StringSort(), z3.StringSort(), z3.StringSort(), z3.StringSort())
    return Atom(f(p.term, z3.StringVal(old), z3.StringVal(new)), ("replace", SStr([p]), old, new))


def _str_case(which):
    def h(E, path, fv, args, kwargs, frame):
        s = fv.self_val
        if isinstance(s, str):
            return getattr(s, which)()
        f = E.uf("str_" + which, z3.StringSort(), z3.StringSort())
        parts = []
        for p in s.parts:
            if isinstance(p, str):
                # str.upper/lower are per-character maps with context-free results except for
                # final sigma; constant parts here are ASCII in the code under contract
                if not p.isascii():
                    raise Unsupported("case mapping of non-ASCII constant inside symbolic string")
                parts.append(getattr(p, which)())
            else:
                parts.append(Atom(f(p.term), (which, SStr([p]))))
        return mk_str(parts)
    return h


def _str_split(E, path, fv, args, kwargs, frame):
    s = fv.self_val
    if isinstance(s, str) and all(isinstance(a, str) for a in args):
        return ListObj(list(s.split(*args)))
    h = E.ext_models.get("str.split")
    if h:
        return h(E, path, s, args)
    raise Unsupported("str.split on symbolic string")


def _dict_fromkeys(E, path, fv, args, kwargs, frame):
    # dict.fromkeys(xs) keeps the first occurrence of each element: over a mapped symbolic sequence this is a content-dependent
    # selection of its items, kept as a marker (only `sep.join(...)` of it is modelled, as a text no reader contract covers)
    if len(args) == 1 and isinstance(args[0], SeqMap) and not kwargs:
        return ExtVal("dict.fromkeys", [args[0]])
    raise Unsupported("builtin dict.fromkeys")


def _str_join(E, path, fv, args, kwargs, frame):
    sep = fv.self_val
    (it,) = args
    if isinstance(it, ExtVal) and it.name == "dict.fromkeys" and it.args and isinstance(it.args[0], SeqMap):
        sm = it.args[0]
        f = E.uf("str_join_distinct", z3.StringSort(), E.U.Seq, z3.IntSort(), z3.StringSort())
        path.ghost["nmaps"] = path.ghost.get("nmaps", 0) + 1
        return SStr([Atom(f(_sterm(sep), sm.seq_term, z3.IntVal(path.ghost["nmaps"])), ("join_map_filtered", sep, sm))])
    items = E.iter_concrete(path, it)
    if items is None:
        if isinstance(it, SeqMap):
            f = E.uf("str_join_map", z3.StringSort(), E.U.Seq, z3.IntSort(), z3.StringSort())
            path.ghost["nmaps"] = path.ghost.get("nmaps", 0) + 1
            t = f(_sterm(sep), it.seq_term, z3.IntVal(path.ghost["nmaps"]))
            return SStr([Atom(t, ("join_map", sep, it))])
        seq = E.symbolic_seq(path, it)
        t = E.U.str_join(_sterm(sep), seq)
        t = z3.simplify(t)
        return SStr([Atom(t, ("join_seq", sep, seq))])
    parts = []
    for i, x in enumerate(items):
        if i:
            parts.extend(E.str_parts(path, sep))
        if isinstance(x, Sym):
            tag = E.tag_of(path, x)
            if tag != "StrV":
                E.throw(path, "TypeError", f"sequence item {i}: expected str instance, {tag} found")
            x = E.from_pv(E.U.strv(E.PV.s(x.term)))
        if not isinstance(x, (str, SStr)):
            E.throw(path, "TypeError", f"sequence item {i}: expected str instance")
        parts.extend(E.str_parts(path, x))
    return mk_str(parts)


def _str_startswith(E, path, fv, args, kwargs, frame):
    s = fv.self_val
    (p,) = args
    if isinstance(s, str) and isinstance(p, str):
        return s.startswith(p)
    return _sb(z3.PrefixOf(_sterm(p), _sterm(s)))


def _str_endswith(E, path, fv, args, kwargs, frame):
    s = fv.self_val
    (p,) = args
    if isinstance(s, str) and isinstance(p, str):
        return s.endswith(p)
    return _sb(z3.SuffixOf(_sterm(p), _sterm(s)))


# ---- list methods -------------------------------------------------------------------
def _list_append(E, path, fv, args, kwargs, frame):
    lst = fv.self_val
    (x,) = args
    E.own_check(path, lst, "append")
    if lst.is_concrete():
        lst.content.append(x)
    else:
        lst.content = z3.Concat(lst.content, z3.Unit(E.to_pv(x)))
    return None


def _list_extend(E, path, fv, args, kwargs, frame):
    lst = fv.self_val
    (it,) = args
    E.own_check(path, lst, "extend")
    items = E.iter_concrete(path, it)
    if items is not None and lst.is_concrete():
        lst.content.extend(items)
    else:
        other = E.symbolic_seq(path, it) if items is None else E.U.seq([E.to_pv(x) for x in items])
        lst.content = z3.Concat(E.seq_term(lst), other)
    return None


def _list_insert(E, path, fv, args, kwargs, frame):
    lst = fv.self_val
    idx, x = args
    E.own_check(path, lst, "insert")
    if not isinstance(idx, int):
        raise Unsupported("list.insert with symbolic index")
    if lst.is_concrete():
        lst.content.insert(idx, x)
        return None
    if idx == 0:
        lst.content = z3.Concat(z3.Unit(E.to_pv(x)), lst.content)
        return None
    raise Unsupported("list.insert into symbolic list at non-zero index")


def _list_pop(E, path, fv, args, kwargs, frame):
    lst = fv.self_val
    E.own_check(path, lst, "pop")
    idx = args[0] if args else -1
    if not isinstance(idx, int):
        raise Unsupported("list.pop with symbolic index")
    if lst.is_concrete():
        try:
            return lst.content.pop(idx)
        except IndexError:
            E.throw(path, "IndexError", "pop from empty list / index out of range")
    seq = lst.content
    L = z3.Length(seq)
    if idx == -1:
        if not E.branch(path, L > 0):
            E.throw(path, "IndexError", "pop from empty list")
        v = E.from_pv(z3.simplify(seq[L - 1]), path)
        lst.content = z3.simplify(z3.SubSeq(seq, 0, L - 1))
        return v
    if idx == 0:
        if not E.branch(path, L > 0):
            E.throw(path, "IndexError", "pop from empty list")
        v = E.from_pv(z3.simplify(seq[0]), path)
        lst.content = z3.simplify(z3.SubSeq(seq, 1, L - 1))
        return v
    raise Unsupported("list.pop index")


# ---- dict methods -------------------------------------------------------------------
def _dict_items(E, path, fv, args, kwargs, frame):
    d = fv.self_val
    out = []
    for k, v in d.d.items():
        if isinstance(k, tuple) and k and k[0] == "sstr":
            k = k[2]
        out.append((k, v))
    return GenVal(out)


def _dict_get(E, path, fv, args, kwargs, frame):
    d = fv.self_val
    k = args[0]
    default = args[1] if len(args) > 1 else None
    if isinstance(k, Sym) and d.d and all(isinstance(kk, ClassRef) for kk in d.d) \
            and all(isinstance(v, int) and not isinstance(v, bool) for v in d.d.values()) \
            and isinstance(default, int) and path.entails(E.U.is_tag("ClsV", k.term)):
        e = z3.IntVal(default)
        for kk, v in reversed(list(d.d.items())):
            e = z3.If(k.term == E.U.clsv(kk.qualname), z3.IntVal(v), e)
        return _si(e)
    if isinstance(k, (SStr, Sym)):
        h = E.ext_models.get("<dict_get>")
        if h:
            r = h(E, path, d, k, default)
            if r is not NotImplemented:
                return r
        try:
            return E.dict_lookup_symbolic(path, d, k)
        except Raised as ex:
            if "builtins.KeyError" in ex.exc.mro:
                return default
            raise
    return d.d.get(E.hashable(k), default)


def _dict_keys(E, path, fv, args, kwargs, frame):
    return GenVal(list(fv.self_val.d.keys()))


def _dict_values(E, path, fv, args, kwargs, frame):
    return GenVal(list(fv.self_val.d.values()))


_TABLE = {
    "isinstance": _isinstance, "len": _len, "str": _str, "getattr": _getattr, "hasattr": _hasattr, "bool": _bool,
    "type": _type, "tuple": _tuple, "list": _list, "reversed": _reversed, "iter": _iter, "next": _next,
    "any": _any, "all": _all, "enumerate": _enumerate, "zip": _zip, "repr": _repr, "int": _int, "float": _float, "super": _super,
    "str.replace": _str_replace, "str.upper": _str_case("upper"), "str.lower": _str_case("lower"),
    "str.split": _str_split, "str.join": _str_join, "str.startswith": _str_startswith,
    "str.endswith": _str_endswith,
    "list.append": _list_append, "list.insert": _list_insert, "list.extend": _list_extend, "list.pop": _list_pop,
    "dict.fromkeys": _dict_fromkeys, "dict.items": _dict_items, "dict.get": _dict_get, "dict.keys": _dict_keys, "dict.values": _dict_values,
}
