"""The z3 universe of Python values (DESIGN section 4).

PV = NoneV | BoolV | IntV | StrV | ListV(Seq PV) | TupleV(Seq PV) | ClsV(Int)
   | ExtV(Int, Seq PV) | N_<Kind>(fields...)            one constructor per ast dataclass

Field sorts are PV because Python does not enforce annotations (grammar.py really stores an
Attribute in a `str` field); what a field may hold is a *precondition*, not a sort.
"""
import z3


class Universe:
    def __init__(self, facts):
        self.facts = facts
        dt = z3.Datatype("PV")
        ref = z3.DatatypeSort("PV")
        seq = z3.SeqSort(ref)
        dt.declare("NoneV")
        dt.declare("BoolV", ("b", z3.BoolSort()))
        dt.declare("IntV", ("i", z3.IntSort()))
        dt.declare("StrV", ("s", z3.StringSort()))
        dt.declare("ListV", ("items", seq))
        dt.declare("TupleV", ("titems", seq))
        dt.declare("ClsV", ("cls", z3.IntSort()))
        dt.declare("ExtV", ("ext_id", z3.IntSort()), ("ext_args", seq))
        for k in facts.kinds:
            dt.declare("N_" + k, *[(f"{k}_{f}", ref) for f in facts.kind_fields[k]])
        self.PV = dt.create()
        self.Seq = z3.SeqSort(self.PV)
        self.Str = z3.StringSort()
        PV = self.PV
        self.ctors = {}
        self.testers = {}
        self.accessors = {}
        for i in range(PV.num_constructors()):
            c = PV.constructor(i)
            name = c.name()
            self.ctors[name] = c
            self.testers[name] = PV.recognizer(i)
            self.accessors[name] = [PV.accessor(i, j) for j in range(c.arity())]
        # class table: index <-> qualname (ast classes, exception classes, builtins, externals on demand)
        self.cls_index = {}
        self.cls_names = []
        self.ext_index = {}
        self.ext_names = []
        self._fresh = 0
        # str.join over a sequence of PV strings (exact recursive definition)
        from .deffun import DefFun

        def _join_body(sep, sq):
            n = z3.Length(sq)
            return z3.If(n == 0, z3.StringVal(""),
                         z3.If(n == 1, PV.s(sq[0]),
                               z3.Concat(PV.s(sq[0]), sep, self.str_join(sep, z3.SubSeq(sq, 1, n - 1)))))
        self.str_join = DefFun("str_join", [self.Str, self.Seq], self.Str, _join_body, cheap=True)

    # ---- constructors -------------------------------------------------------------------
    def none(self):
        return self.PV.NoneV

    def boolv(self, b):
        return self.PV.BoolV(b if z3.is_expr(b) else z3.BoolVal(b))

    def intv(self, i):
        return self.PV.IntV(i if z3.is_expr(i) else z3.IntVal(i))

    def strv(self, s):
        return self.PV.StrV(s if z3.is_expr(s) else z3.StringVal(s))

    def seq(self, terms):
        terms = list(terms)
        if not terms:
            return z3.Empty(self.Seq)
        if len(terms) == 1:
            return z3.Unit(terms[0])
        return z3.Concat(*[z3.Unit(t) for t in terms])

    def listv(self, seq_term):
        return self.PV.ListV(seq_term)

    def tuplev(self, seq_term):
        return self.PV.TupleV(seq_term)

    def node(self, kind, *fields):
        return self.ctors["N_" + kind](*fields)

    def is_kind(self, kind, t):
        return self.testers["N_" + kind](t)

    def is_tag(self, tag, t):
        return self.testers[tag](t)

    def field(self, kind, fname, t):
        idx = self.facts.kind_fields[kind].index(fname)
        return self.accessors["N_" + kind][idx](t)

    def is_node(self, t, kinds=None):
        kinds = self.facts.kinds if kinds is None else kinds
        return z3.Or(*[self.is_kind(k, t) for k in kinds]) if kinds else z3.BoolVal(False)

    def clsv(self, qualname):
        if qualname not in self.cls_index:
            self.cls_index[qualname] = len(self.cls_names)
            self.cls_names.append(qualname)
        return self.PV.ClsV(z3.IntVal(self.cls_index[qualname]))

    def ext_id(self, name):
        if name not in self.ext_index:
            self.ext_index[name] = len(self.ext_names)
            self.ext_names.append(name)
        return self.ext_index[name]

    def extv(self, name, args):
        return self.PV.ExtV(z3.IntVal(self.ext_id(name)), self.seq(args))

    def fresh(self, prefix="v", sort=None):
        self._fresh += 1
        return z3.Const(f"{prefix}!{self._fresh}", sort if sort is not None else self.PV)

    # ---- syntactic helpers --------------------------------------------------------------
    def ctor_name(self, t):
        """Name of the constructor if `t` is syntactically a constructor application."""
        if z3.is_app(t) and t.sort() == self.PV:
            n = t.decl().name()
            if n in self.ctors and t.decl().kind() == z3.Z3_OP_DT_CONSTRUCTOR:
                return n
        return None

    # ---- model decoding -----------------------------------------------------------------
    def decode(self, v):
        """Concrete z3 value of sort PV / Seq PV / String / Int / Bool -> JSON-able structure."""
        if z3.is_string_value(v):
            return v.as_string_unescaped() if hasattr(v, "as_string_unescaped") else _unescape(v.as_string())
        if z3.is_int_value(v):
            return v.as_long()
        if z3.is_true(v):
            return True
        if z3.is_false(v):
            return False
        if v.sort() == self.Seq:
            return [self.decode(x) for x in _seq_elems(v)]
        if v.sort() == self.PV:
            n = self.ctor_name(v)
            if n is None:
                return {"?": str(v)}
            args = [self.decode(v.arg(i)) for i in range(v.num_args())]
            if n == "NoneV":
                return None
            if n in ("BoolV", "IntV", "StrV"):
                return args[0]
            if n == "ListV":
                return {"list": args[0]}
            if n == "TupleV":
                return {"tuple": args[0]}
            if n == "ClsV":
                i = args[0]
                return {"class": self.cls_names[i] if isinstance(i, int) and 0 <= i < len(self.cls_names) else i}
            if n == "ExtV":
                i = args[0]
                return {"ext": self.ext_names[i] if isinstance(i, int) and 0 <= i < len(self.ext_names) else i,
                        "args": args[1]}
            kind = n[2:]
            return {"node": kind, "fields": dict(zip(self.facts.kind_fields[kind], args))}
        return {"?": str(v)}


def _seq_elems(v):
    if z3.is_app(v):
        k = v.decl().kind()
        if k == z3.Z3_OP_SEQ_EMPTY:
            return []
        if k == z3.Z3_OP_SEQ_UNIT:
            return [v.arg(0)]
        if k == z3.Z3_OP_SEQ_CONCAT:
            out = []
            for i in range(v.num_args()):
                out.extend(_seq_elems(v.arg(i)))
            return out
    raise ValueError(f"not a concrete sequence: {v}")


def seq_elems_or_none(v):
    try:
        return _seq_elems(v)
    except ValueError:
        return None


def _unescape(s):
    import re
    return re.sub(r"\\u\{([0-9a-fA-F]+)\}", lambda m: chr(int(m.group(1), 16)), s)


def to_py_source(d):
    """Decoded structure -> Python constructor text evaluable with `from odata_query import ast`."""
    if d is None or isinstance(d, (bool, int, str)):
        return repr(d)
    if isinstance(d, list):
        return "[" + ", ".join(to_py_source(x) for x in d) + "]"
    if "list" in d:
        return "[" + ", ".join(to_py_source(x) for x in d["list"]) + "]"
    if "tuple" in d:
        items = d["tuple"]
        return "(" + ", ".join(to_py_source(x) for x in items) + ("," if len(items) == 1 else "") + ")"
    if "node" in d:
        return "ast." + d["node"] + "(" + ", ".join(to_py_source(d["fields"][f]) for f in d["fields"]) + ")"
    if "class" in d:
        return str(d["class"])
    return repr(d)
