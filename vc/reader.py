"""Readers: the assumed grammar contracts of whoever consumes the text we print (DESIGN 5.3).

A text-producing handler returns, symbolically, a *template*: constant text interleaved with
  expression holes   results of self.visit(child)            -> EXPR(child)
  list holes         sep.join(self.visit(x) for x in seq)     -> LIST(seq)
  data holes         raw or escaped node data                 -> DATA(...)
The reader tokenises the constant text with the dialect's lexical grammar, parses the token/hole
sequence with a precedence (Pratt) parser and returns
  * the tree with holes in place,
  * the binding strength exposed at the left and right edge of the whole (lvlL, lvlR),
  * side conditions: for each expression hole, the minimum strength its edges must have
    ("left" edge of the hole / "right" edge of the hole), to be discharged by z3 against the
    callee's contract (LminL / LminR of the child node),
  * data-hole conditions: where spliced data sits (inside '...', inside "...", bare) and how it was
    transformed, to be discharged by the homomorphism lemma / regular inclusion,
  * a list of syntax problems (empty = well formed).
"""
import re

INF = 1000


class Hole:
    def __init__(self, kind, payload):
        self.kind = kind            # 'expr' | 'list' | 'data' | 'alias' | 'opaque'
        self.payload = payload

    def __repr__(self):
        return f"<{self.kind}>"


class Tok:
    def __init__(self, kind, text=None, hole=None, parts=None):
        self.kind = kind            # 'num','str','qid','word','op','(',')',',','hole','listhole','.'
        self.text = text
        self.hole = hole
        self.parts = parts          # for str / qid: list of str | Hole (content between the quotes)

    def __repr__(self):
        return f"Tok({self.kind},{self.text!r})"


class Dialect:
    """Operator table of one reader.  Levels: higher binds tighter."""

    def __init__(self, name, binary, prefix, nonassoc=(), right_assoc=(), word_ops=(), special_calls=None,
                 keywords_atoms=(), case_insensitive_words=True, typed_literals=(), postfix=None, assoc=()):
        self.name = name
        self.binary = binary                # op text (upper) -> level
        self.prefix = prefix                # op text -> level
        self.nonassoc = set(nonassoc)       # levels that do not associate
        self.right_assoc = set(right_assoc)
        self.word_ops = set(word_ops)
        self.special_calls = special_calls or {}
        self.keyword_atoms = set(keywords_atoms)
        self.typed_literals = set(typed_literals)   # DATE '...', TIMESTAMP '...'
        self.postfix = postfix or {}
        self.assoc = set(assoc)             # levels of associative operators (x AND (y AND z) = (x AND y) AND z)


# SQLite (https://sqlite.org/lang_expr.html): || > * / % > + - > < <= > >= > = == != <> IS IN LIKE > NOT > AND > OR
SQLITE = Dialect(
    "sqlite",
    binary={"||": 9, "*": 8, "/": 8, "%": 8, "+": 7, "-": 7, "<": 5, "<=": 5, ">": 5, ">=": 5,
            "=": 4, "==": 4, "!=": 4, "<>": 4, "IS": 4, "IS NOT": 4, "IN": 4, "LIKE": 4, "NOT LIKE": 4,
            "AND": 2, "OR": 1},
    prefix={"NOT": 3, "-": 10, "+": 10},
    word_ops={"IS", "IN", "LIKE", "AND", "OR", "NOT"},
    keywords_atoms={"NULL", "TRUE", "FALSE", "CURRENT_TIMESTAMP"},
    assoc={1, 2},
)
# SQL-99 / Athena (Trino): comparison predicates do not associate; NOT below comparison
STANDARD = Dialect(
    "standard",
    binary={"||": 9, "*": 8, "/": 8, "%": 8, "+": 7, "-": 7, "<": 4, "<=": 4, ">": 4, ">=": 4,
            "=": 4, "!=": 4, "<>": 4, "IS": 4, "IS NOT": 4, "IN": 4, "LIKE": 4, "NOT LIKE": 4,
            "AND": 2, "OR": 1},
    prefix={"NOT": 3, "-": 10, "+": 10},
    nonassoc={4},
    word_ops={"IS", "IN", "LIKE", "AND", "OR", "NOT"},
    keywords_atoms={"NULL", "TRUE", "FALSE", "CURRENT_TIMESTAMP"},
    typed_literals={"DATE", "TIMESTAMP", "TIME", "INTERVAL"},
    assoc={1, 2},
)
# OData 4.01 URL conventions 5.1.1.14 (this library's grammar: C05)
ODATA = Dialect(
    "odata",
    binary={"IN": 8, "MUL": 6, "DIV": 6, "MOD": 6, "ADD": 5, "SUB": 5, "GT": 4, "GE": 4, "LT": 4, "LE": 4,
            "EQ": 3, "NE": 3, "AND": 2, "OR": 1},
    prefix={"NOT": 7, "-": 7},
    word_ops={"IN", "MUL", "DIV", "MOD", "ADD", "SUB", "GT", "GE", "LT", "LE", "EQ", "NE", "AND", "OR", "NOT"},
    keywords_atoms={"NULL", "TRUE", "FALSE"},
    typed_literals={"DURATION", "GEOGRAPHY"},
)

_SQL_TOKEN = re.compile(r"""
    (?P<ws>\s+)
  | (?P<num>\d+(?:\.\d+)?(?:[eE][+-]?\d+)?)
  | (?P<word>[A-Za-z_][A-Za-z_0-9]*)
  | (?P<op>\|\||<=|>=|<>|!=|==|[-+*/%<>=])
  | (?P<punct>[(),.])
""", re.X)


class TemplateError(Exception):
    pass


def LV(p=INF, refs=()):
    """exposed binding strength: min of a constant and the (symbolic) edge strengths of holes"""
    return (p, tuple(refs))


def lv_min(a, b):
    return (min(a[0], b[0]), a[1] + b[1])


def lex_template(parts, odata=False, sql=True):
    """parts: list of str | Hole  ->  (tokens, problems).  Quote handling: a quote character in constant text
    opens a literal that ends at the next quote character in constant text (doubled quotes inside constant
    text stay inside); holes between them are the literal's data."""
    toks = []
    problems = []
    i = 0
    # flatten into a stream of chars / holes
    stream = []
    for p in parts:
        if isinstance(p, str):
            stream.extend(p)
        else:
            stream.append(p)
    n = len(stream)
    # a sign directly in front of a spliced text (no blank, no parenthesis): the two may fuse into another token -- `--` opens
    # a comment in SQL, `-2018-01-01` / `-1` is lexed as a signed number by the OData lexer.  Side condition on the hole's
    # first character (`adj`), and what the template itself starts with (`lead`), both decided by the caller.
    info = {"adj": [], "lead": None}
    if n:
        info["lead"] = ("hole", stream[0]) if isinstance(stream[0], Hole) else ("const", stream[0])
    in_quote = None
    for k in range(n):
        ch = stream[k]
        if isinstance(ch, str) and ch in "'\"":
            in_quote = None if in_quote == ch else (ch if in_quote is None else in_quote)
        elif isinstance(ch, Hole) and in_quote is None and k > 0 and stream[k - 1] == "-":
            info["adj"].append((ch, "-"))
    lex_template.last_info = info
    while i < n:
        c = stream[i]
        if isinstance(c, Hole):
            if c.kind == "expr":
                toks.append(Tok("hole", hole=c))
            elif c.kind == "list":
                toks.append(Tok("listhole", hole=c))
            else:
                toks.append(Tok("barehole", hole=c))
            i += 1
            continue
        if c in "'\"":
            q = c
            content = []
            i += 1
            closed = False
            while i < n:
                d = stream[i]
                if isinstance(d, Hole):
                    content.append(d)
                    i += 1
                    continue
                if d == q:
                    if i + 1 < n and stream[i + 1] == q:
                        content.append(q + q)
                        i += 2
                        continue
                    closed = True
                    i += 1
                    break
                content.append(d)
                i += 1
            if not closed:
                problems.append(f"unterminated {q} literal")
            merged = []
            for x in content:
                if isinstance(x, str) and merged and isinstance(merged[-1], str):
                    merged[-1] += x
                else:
                    merged.append(x)
            toks.append(Tok("str" if q == "'" else "qid", parts=merged))
            continue
        # constant text up to the next hole or quote
        j = i
        buf = []
        while j < n and isinstance(stream[j], str) and stream[j] not in "'\"":
            buf.append(stream[j])
            j += 1
        text = "".join(buf)
        if sql and ("--" in text or "/*" in text):
            problems.append("SQL comment opener in the text (the rest of the clause is not read)")
        pos = 0
        while pos < len(text):
            m = _SQL_TOKEN.match(text, pos)
            if not m:
                if odata and text[pos] in "/:=":
                    toks.append(Tok(text[pos], text[pos]))
                    pos += 1
                    continue
                problems.append(f"cannot tokenise {text[pos:pos + 12]!r}")
                pos += 1
                continue
            pos = m.end()
            if m.lastgroup == "ws":
                toks.append(Tok("ws", m.group()))
            elif m.lastgroup == "punct":
                toks.append(Tok(m.group(), m.group()))
            else:
                toks.append(Tok(m.lastgroup, m.group()))
        i = j
    # token fusion: a hole directly adjacent to a word / number without separator
    out = []
    for k, t in enumerate(toks):
        if t.kind in ("hole", "barehole") and k > 0 and toks[k - 1].kind in ("word", "num", "hole", "barehole", "str", "qid"):
            problems.append("hole fused with the preceding token (no delimiter)")
        if t.kind in ("word", "num") and k > 0 and toks[k - 1].kind in ("hole", "barehole"):
            problems.append("hole fused with the following token (no delimiter)")
        out.append(t)
    return [t for t in out if t.kind != "ws"], problems


class Parser:
    def __init__(self, dialect, toks):
        self.d = dialect
        self.toks = toks
        self.i = 0
        self.problems = []
        self.side = []          # (hole, side 'L'|'R', op level, strict)
        self.data = []          # (hole, context 'str'|'qid'|'bare', surrounding parts)
        self.used = []          # expression / list holes consumed

    def peek(self, k=0):
        return self.toks[self.i + k] if self.i + k < len(self.toks) else None

    def next(self):
        t = self.peek()
        self.i += 1
        return t

    def op_at(self):
        """binary operator at the cursor -> (name, ntokens) or None"""
        t = self.peek()
        if t is None:
            return None
        if t.kind == "op" and t.text in self.d.binary:
            return t.text, 1
        if t.kind == "word":
            w = t.text.upper()
            t2 = self.peek(1)
            if w == "IS" and t2 is not None and t2.kind == "word" and t2.text.upper() == "NOT" and "IS NOT" in self.d.binary:
                return "IS NOT", 2
            if w == "NOT" and t2 is not None and t2.kind == "word" and t2.text.upper() == "LIKE" and "NOT LIKE" in self.d.binary:
                return "NOT LIKE", 2
            if w in self.d.binary and w in self.d.word_ops:
                return w, 1
        return None

    # returns (tree, lvlL, lvlR)
    def expr(self, min_level=0):
        left, lL, lR = self.prefix_expr()
        while True:
            op = self.op_at()
            if op is None:
                break
            name, ntok = op
            p = self.d.binary[name]
            if p < min_level:
                break
            if p in self.d.nonassoc and p == min_level and min_level > 0 and False:
                break
            self.i += ntok
            # left operand must expose, on its right edge, nothing weaker than p
            self.require(lR, p, strict=(p in self.d.right_assoc or p in self.d.nonassoc), what=f"left operand of {name}")
            nxt = p if p in self.d.right_assoc else p + 1
            right, rL, rR = self.expr(nxt)
            # AND / OR are associative: a same-level right operand regroups without changing the meaning
            self.require(rL, p, strict=(p not in self.d.right_assoc and p not in self.d.assoc),
                         what=f"right operand of {name}")
            if p in self.d.nonassoc:
                # a non-associative level may not be chained at all
                op2 = self.op_at()
                if op2 is not None and self.d.binary[op2[0]] == p:
                    self.problems.append(f"non-associative operators chained: {name} {op2[0]}")
            left = ("bin", name, left, right)
            lL = lv_min(LV(p), lL)
            lR = lv_min(LV(p), rR)
        return left, lL, lR

    def require(self, lvl, p, strict, what):
        """The exposed edge `lvl` of an operand must bind at least as tightly as p (tighter if strict)."""
        c, refs = lvl
        if c < p or (strict and c == p):
            self.problems.append(f"{what} binds too weakly (level {c} under operator level {p})")
        for hole, side in refs:
            self.side.append((hole, side, p, strict, what))

    def prefix_expr(self):
        t = self.peek()
        if t is None:
            self.problems.append("expression expected at end of text")
            return ("error",), LV(), LV()
        if (t.kind == "word" and t.text.upper() in self.d.prefix and t.text.upper() in self.d.word_ops) or \
                (t.kind == "op" and t.text in self.d.prefix):
            name = t.text.upper() if t.kind == "word" else t.text
            p = self.d.prefix[name]
            self.next()
            operand, oL, oR = self.expr(p)
            self.require(oL, p, strict=False, what=f"operand of prefix {name}")
            return ("un", name, operand), LV(), lv_min(LV(p), oR)
        return self.primary()

    def primary(self):
        t = self.next()
        if t.kind == "hole":
            self.used.append(t.hole)
            # strengths of a bare hole are symbolic: the callee's promise LminL / LminR of the child node
            return ("hole", t.hole), LV(INF, [(t.hole, "L")]), LV(INF, [(t.hole, "R")])
        if t.kind == "barehole":
            self.data.append((t.hole, "bare", None))
            return ("data", t.hole), LV(), LV()
        if t.kind == "num":
            return ("num", t.text), LV(), LV()
        if t.kind == "str":
            for x in t.parts:
                if isinstance(x, Hole):
                    self.data.append((x, "str", t.parts))
            return ("str", tuple(t.parts)), LV(), LV()
        if t.kind == "qid":
            return self.identifier(t)
        if t.kind == "(":
            return self.paren()
        if t.kind == "word":
            w = t.text.upper()
            nxt = self.peek()
            if w == "CASE":
                return self.case_expr()
            if w in self.d.typed_literals and nxt is not None and nxt.kind == "str":
                s = self.next()
                for x in s.parts:
                    if isinstance(x, Hole):
                        self.data.append((x, "str", s.parts))
                unit = None
                if w == "INTERVAL" and self.peek() is not None and self.peek().kind == "word":
                    unit = self.next().text.upper()
                return ("typed", w, tuple(s.parts), unit), LV(), LV()
            if nxt is not None and nxt.kind == "(":
                return self.call(t.text)
            if w in self.d.keyword_atoms:
                return ("kw", w), LV(), LV()
            if self.d.name == "odata":
                return self.odata_name(t)
            self.problems.append(f"unexpected word {t.text!r}")
            return ("error",), LV(), LV()
        self.problems.append(f"unexpected token {t.kind} {t.text!r}")
        return ("error",), LV(), LV()

    def identifier(self, t):
        parts = [tuple(t.parts)]
        for x in t.parts:
            if isinstance(x, Hole):
                self.data.append((x, "qid", t.parts))
        while self.peek() is not None and self.peek().kind == "." and self.peek(1) is not None and self.peek(1).kind == "qid":
            self.next()
            q = self.next()
            for x in q.parts:
                if isinstance(x, Hole):
                    self.data.append((x, "qid", q.parts))
            parts.append(tuple(q.parts))
        return ("ident", tuple(parts)), LV(), LV()

    def paren(self):
        # "(" already consumed: parenthesised expression, or a list  (a, b, ...)
        if self.peek() is not None and self.peek().kind == "listhole":
            h = self.next().hole
            self.used.append(h)
            if self.d.name == "odata" and self.peek() is not None and self.peek().kind == ",":
                self.next()
                self.expect(")")
                return ("list", ("listhole", h), ("trailing-comma",)), LV(), LV()
            self.expect(")")
            return ("list", ("listhole", h)), LV(), LV()
        if self.peek() is not None and self.peek().kind == ")":
            self.next()
            return ("list",), LV(), LV()
        items = [self.full_operand()]
        trailing = False
        while self.peek() is not None and self.peek().kind == ",":
            self.next()
            if self.d.name == "odata" and self.peek() is not None and self.peek().kind == ")":
                trailing = True
                break
            items.append(self.full_operand())
        self.expect(")")
        if trailing:
            return ("list",) + tuple(items) + (("trailing-comma",),), LV(), LV()
        if len(items) == 1:
            return ("paren", items[0]), LV(), LV()
        return ("list",) + tuple(items), LV(), LV()

    def full_operand(self):
        tree, _, _ = self.expr(0)
        return tree

    def expect(self, kind):
        t = self.next()
        if t is None or t.kind != kind:
            self.problems.append(f"expected {kind!r}, found {t.kind + ' ' + repr(t.text) if t else 'end of text'}")

    def call(self, name):
        self.expect("(")
        up = name.upper()
        sp = self.d.special_calls.get(up)
        args = []
        kw = []
        if self.peek() is not None and self.peek().kind == ")":
            self.next()
            return ("call", up, ()), LV(), LV()
        if self.peek() is not None and self.peek().kind == "listhole":
            h = self.next().hole
            self.used.append(h)
            self.expect(")")
            return ("call", up, (("listhole", h),)), LV(), LV()
        if up == "EXTRACT" and self.peek() is not None and self.peek().kind == "word" \
                and self.peek(1) is not None and self.peek(1).kind == "word" and self.peek(1).text.upper() == "FROM":
            args.append(("field", self.next().text.upper()))
            self.next()
            kw.append("FROM")
        while True:
            args.append(self.full_operand())
            t = self.peek()
            if t is None:
                self.problems.append("unterminated call")
                break
            if t.kind == "word" and t.text.upper() == "AS":
                self.next()
                kw.append("AS")
                ty = self.next()
                args.append(("type", ty.text.upper() if ty is not None and ty.kind == "word" else None))
                if ty is None or ty.kind != "word":
                    self.problems.append("type name expected after AS")
                t = self.peek()
                if t is None:
                    self.problems.append("unterminated call")
                    break
            if t.kind == ",":
                self.next()
                kw.append(",")
                continue
            if t.kind == "word" and t.text.upper() in ("FROM", "FOR", "IN"):
                self.next()
                kw.append(t.text.upper())
                continue
            break
        self.expect(")")
        return ("call", up, tuple(args), tuple(kw)), LV(), LV()

    def case_expr(self):
        # CASE [operand] WHEN cond THEN value ... [ELSE value] END   (standard SQL)
        operand = None
        t = self.peek()
        if not (t is not None and t.kind == "word" and t.text.upper() == "WHEN"):
            operand = self.full_operand()
        whens = []
        while self.peek() is not None and self.peek().kind == "word" and self.peek().text.upper() == "WHEN":
            self.next()
            cond = self.full_operand()
            t = self.next()
            if t is None or t.kind != "word" or t.text.upper() != "THEN":
                self.problems.append("CASE: THEN expected")
            val = self.full_operand() if t is not None else ("error",)
            whens.append((cond, val))
        els = None
        if self.peek() is not None and self.peek().kind == "word" and self.peek().text.upper() == "ELSE":
            self.next()
            els = self.full_operand()
        t = self.next()
        if t is None or t.kind != "word" or t.text.upper() != "END":
            self.problems.append("CASE: END expected")
        if not whens:
            self.problems.append("CASE without WHEN")
        return ("case", operand, tuple(whens), els), LV(), LV()

    def odata_name(self, t):
        return ("name", t.text), LV(), LV()


def read(dialect, parts, odata=False):
    toks, problems = lex_template(parts, odata=odata, sql=(dialect.name != "odata"))
    info = lex_template.last_info
    p = Parser(dialect, toks)
    if not toks:
        return {"tree": ("empty",), "lvlL": LV(), "lvlR": LV(), "problems": problems + ["empty text"], "side": [],
                "data": [], "used": [], "adj": [], "lead": None}
    tree, lL, lR = p.expr(0)
    if p.i < len(toks):
        p.problems.append(f"trailing text after expression: {toks[p.i].kind} {toks[p.i].text!r}")
    return {"tree": tree, "lvlL": lL, "lvlR": lR, "problems": problems + p.problems, "side": p.side, "data": p.data,
            "used": p.used, "adj": info["adj"], "lead": info["lead"]}
