"""Python `re` pattern (as CPython parses it) -> z3 regular expression over z3's Unicode strings.

Supported: literals, classes (ranges, \\d \\w \\s, negation), '.', alternation, groups, bounded and
unbounded repetition, re.IGNORECASE.  Unicode class tables and case-insensitive equivalents are the
ones CPython itself reports (extracted by E1), clipped to z3's alphabet (<= U+2FFFF, DESIGN 4.2).
Anything else raises RegexUnsupported (-> obligation undecided).
"""
import re
import z3

try:
    import re._parser as sre_parse
    import re._constants as sre_c
except ImportError:  # python < 3.11
    import sre_parse
    import sre_constants as sre_c

Z3_MAX = 0x2FFFF


class RegexUnsupported(Exception):
    pass


class Translator:
    def __init__(self, unicode_facts):
        self.uni = unicode_facts
        self._cat = {}

    # ---- character sets as sorted disjoint ranges ------------------------------------------
    def cat_ranges(self, name):
        if name not in self._cat:
            key = {"d": "d", "w": "w", "s": "s"}[name]
            rs = [(lo, min(hi, Z3_MAX)) for lo, hi in self.uni[key] if lo <= Z3_MAX]
            self._cat[name] = rs
        return self._cat[name]

    def ci_variants(self, cp):
        """code points that match literal chr(cp) under re.IGNORECASE"""
        ch = chr(cp)
        out = {cp}
        if ch.isascii() and ch.isalpha():
            out.update(x for x in self.uni["ci"][ch.lower()] if x <= Z3_MAX)
        elif not ch.isascii():
            out.update(ord(x) for x in (ch.lower(), ch.upper()) if len(x) == 1)
        return out

    @staticmethod
    def norm(ranges):
        ranges = sorted(ranges)
        out = []
        for lo, hi in ranges:
            if out and lo <= out[-1][1] + 1:
                out[-1] = (out[-1][0], max(out[-1][1], hi))
            else:
                out.append((lo, hi))
        return out

    @staticmethod
    def complement(ranges):
        out = []
        prev = 0
        for lo, hi in ranges:
            if lo > prev:
                out.append((prev, lo - 1))
            prev = hi + 1
        if prev <= Z3_MAX:
            out.append((prev, Z3_MAX))
        return out

    def ranges_re(self, ranges):
        ranges = self.norm(ranges)
        if not ranges:
            return z3.Empty(z3.ReSort(z3.StringSort()))
        parts = []
        for lo, hi in ranges:
            if lo == hi:
                parts.append(z3.Re(z3.StringVal(chr(lo))))
            else:
                parts.append(z3.Range(z3.StringVal(chr(lo)), z3.StringVal(chr(hi))))
        return parts[0] if len(parts) == 1 else z3.Union(*parts)

    def class_ranges(self, items, ignorecase):
        rs = []
        negate = False
        for op, av in items:
            if op == sre_c.NEGATE:
                negate = True
            elif op == sre_c.LITERAL:
                for v in (self.ci_variants(av) if ignorecase else {av}):
                    rs.append((v, v))
            elif op == sre_c.RANGE:
                lo, hi = av
                rs.append((lo, hi))
                if ignorecase:
                    for cp in range(lo, min(hi, 0x7F) + 1):
                        for v in self.ci_variants(cp):
                            rs.append((v, v))
            elif op == sre_c.CATEGORY:
                rs.extend(self.category(av))
            else:
                raise RegexUnsupported(f"class item {op}")
        rs = self.norm(rs)
        if negate:
            rs = self.complement(rs)
        return rs

    def category(self, av):
        name = str(av)
        table = {"CATEGORY_DIGIT": ("d", False), "CATEGORY_NOT_DIGIT": ("d", True),
                 "CATEGORY_WORD": ("w", False), "CATEGORY_NOT_WORD": ("w", True),
                 "CATEGORY_SPACE": ("s", False), "CATEGORY_NOT_SPACE": ("s", True)}
        if name not in table:
            raise RegexUnsupported(name)
        k, neg = table[name]
        rs = self.cat_ranges(k)
        return self.complement(rs) if neg else rs

    # ---- structure ---------------------------------------------------------------------------
    def translate(self, pattern, flags=0):
        tree = sre_parse.parse(pattern, flags)
        ic = bool(tree.state.flags & re.IGNORECASE)
        return self.seq(tree, ic)

    def seq(self, items, ic):
        parts = [self.item(op, av, ic) for op, av in items]
        if not parts:
            return z3.Re(z3.StringVal(""))
        return parts[0] if len(parts) == 1 else z3.Concat(*parts)

    def item(self, op, av, ic):
        if op == sre_c.LITERAL:
            vs = self.ci_variants(av) if ic else {av}
            return self.ranges_re([(v, v) for v in vs])
        if op == sre_c.NOT_LITERAL:
            vs = self.ci_variants(av) if ic else {av}
            return self.ranges_re(self.complement(self.norm([(v, v) for v in vs])))
        if op == sre_c.ANY:
            return self.ranges_re(self.complement([(10, 10)]))
        if op == sre_c.IN:
            return self.ranges_re(self.class_ranges(av, ic))
        if op == sre_c.BRANCH:
            _, alts = av
            return z3.Union(*[self.seq(a, ic) for a in alts]) if len(alts) > 1 else self.seq(alts[0], ic)
        if op == sre_c.SUBPATTERN:
            group, add_flags, del_flags, sub = av
            if add_flags or del_flags:
                raise RegexUnsupported("inline flags")
            return self.seq(sub, ic)
        if op in (sre_c.MAX_REPEAT, sre_c.MIN_REPEAT):
            lo, hi, sub = av
            r = self.seq(sub, ic)
            if hi == sre_c.MAXREPEAT:
                if lo == 0:
                    return z3.Star(r)
                if lo == 1:
                    return z3.Plus(r)
                return z3.Concat(z3.Loop(r, lo, lo), z3.Star(r))
            if lo == 0 and hi == 1:
                return z3.Option(r)
            return z3.Loop(r, lo, hi)
        if op == sre_c.CATEGORY:
            return self.ranges_re(self.category(av))
        raise RegexUnsupported(f"regex construct {op}")


def literal_ci(tr, word):
    """language of `word` under re.IGNORECASE as CPython decides it"""
    return tr.seq([(sre_c.LITERAL, ord(c)) for c in word], True)
