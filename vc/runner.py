"""E4-E6: discharge obligations, replay counter-models natively, known findings, evidence.

Exit codes (DESIGN section 6): 0 all obligations discharged (known findings printed);
1 violation; 2 undecided; 3 checker self-check failed.
"""
import hashlib
import json
import multiprocessing as mp
import os
import subprocess
import sys
import time
import traceback

ROOT = os.path.dirname(os.path.dirname(os.path.abspath(__file__)))
VENV_PY = os.environ.get("REPO_PYTHON", "/venv/bin/python")
REPO_ROOT = os.environ.get("REPO_ROOT", "/repo")


# ------------------------------------------------------------------------------------------
# solving
# ------------------------------------------------------------------------------------------
def discharge(hyps, goal, timeout_ms=10000):
    """Validity of (/\\ hyps) => goal.  -> (status, model|None, seconds, reason)"""
    import z3
    s = z3.Solver()
    s.set("timeout", timeout_ms)
    for h in hyps:
        s.add(h)
    s.add(z3.Not(goal))
    t0 = time.time()
    r = s.check()
    dt = time.time() - t0
    if r == z3.unsat:
        return "discharged", None, dt, "unsat"
    if r == z3.sat:
        return "refuted", s.model(), dt, "sat"
    return "undecided", None, dt, s.reason_unknown()


def smt2_of(hyps, goal):
    import z3
    s = z3.Solver()
    for h in hyps:
        s.add(h)
    s.add(z3.Not(goal))
    return s.to_smt2()


def cross_check_z3_cli(smt2, timeout_s=20):
    """Second back end: the Debian z3 4.8.12 binary on the exported SMT-LIB text."""
    import tempfile
    from .facts import scratch_dir
    d = scratch_dir()
    p = os.path.join(d, "q.smt2")
    try:
        with open(p, "w") as fh:
            fh.write(smt2)
        t0 = time.time()
        try:
            out = subprocess.run(["/usr/bin/z3", f"-T:{timeout_s}", p], capture_output=True, text=True,
                                 timeout=timeout_s + 5).stdout.strip().splitlines()
        except subprocess.TimeoutExpired:
            return "timeout", time.time() - t0
        return (out[0] if out else "error"), time.time() - t0
    finally:
        try:
            os.remove(p)
            os.rmdir(d)
        except OSError:
            pass


# ------------------------------------------------------------------------------------------
# native replay
# ------------------------------------------------------------------------------------------
def native_run(script, timeout=120, repo_root=None):
    """Run a Python script under the repository's interpreter with the tree under check first on
    sys.path.  The script prints one JSON object on its last stdout line."""
    env = dict(os.environ, PYTHONDONTWRITEBYTECODE="1")
    env.pop("DJANGO_SETTINGS_MODULE", None)
    root = repo_root or REPO_ROOT
    pre = f"import sys; sys.path.insert(0, {root!r})\n"
    try:
        p = subprocess.run([VENV_PY, "-c", pre + script], capture_output=True, text=True, timeout=timeout,
                           env=env, cwd=root)
    except subprocess.TimeoutExpired:
        return {"error": "timeout"}
    lines = [l for l in p.stdout.strip().splitlines() if l.strip()]
    if p.returncode != 0 or not lines:
        return {"error": "native script failed", "stderr": p.stderr[-2000:], "stdout": p.stdout[-500:]}
    try:
        return json.loads(lines[-1])
    except json.JSONDecodeError:
        return {"error": "bad native output", "stdout": p.stdout[-500:]}


# ------------------------------------------------------------------------------------------
# family execution in worker processes
# ------------------------------------------------------------------------------------------
_G = {}


def _worker(args):
    prop_name, fam, tier = args
    t0 = time.time()
    try:
        mod = _G["module"]
        res = mod.run_family(_G["facts"], fam, tier)
        return {"family": fam, "results": res, "seconds": time.time() - t0}
    except Exception as ex:
        if type(ex).__name__ in ("SummaryFailed", "Unsupported", "RegexUnsupported"):
            # outside the supported subset: the family is undecided, not a checker crash
            return {"family": fam, "seconds": time.time() - t0,
                    "results": [{"name": f"{prop_name}:{fam}:unsupported", "clause": "unsupported", "status": "undecided",
                                 "seconds": time.time() - t0, "reason": str(ex)[:300]}]}
        return {"family": fam, "results": [], "seconds": time.time() - t0,
                "crash": traceback.format_exc()[-3000:]}


def _child(conn, args):
    try:
        conn.send(_worker(args))
    except BaseException:                       # the parent reports a missing result as a crash
        try:
            conn.send({"family": args[1], "results": [], "seconds": 0.0, "crash": traceback.format_exc()[-3000:]})
        except Exception:
            pass
    finally:
        conn.close()


def run_families(module, facts, families, tier, procs=None):
    """One forked process per family, at most `procs` at a time.  A family whose process dies without a result (segfault,
    out of memory, RecursionError in C code) is a checker crash of that family; a family that exceeds the wall-clock
    limit is killed and undecided -- a check never hangs and never passes or fails because of either."""
    _G["module"] = module
    _G["facts"] = facts
    procs = procs or min(16, max(1, len(families)))
    if os.environ.get("VC_SERIAL") or procs == 1:
        return [_worker((module.PROPERTY, f, tier)) for f in families]
    limit = float(os.environ.get("VC_FAMILY_TIMEOUT", "900" if tier == "quick" else "3600"))
    ctx = mp.get_context("fork")
    pending = list(enumerate(families))
    running = {}            # index -> (process, parent_conn, t0, family)
    out = [None] * len(families)
    while pending or running:
        while pending and len(running) < procs:
            i, fam = pending.pop(0)
            pc, cc = ctx.Pipe(duplex=False)
            pr = ctx.Process(target=_child, args=(cc, (module.PROPERTY, fam, tier)))
            pr.start()
            cc.close()
            running[i] = (pr, pc, time.time(), fam)
        done = []
        for i, (pr, pc, t0, fam) in running.items():
            if pc.poll(0):
                try:
                    out[i] = pc.recv()
                except (EOFError, OSError):
                    out[i] = {"family": fam, "results": [], "seconds": time.time() - t0,
                              "crash": f"worker process of family {fam} ended without a result (exit code {pr.exitcode})"}
                done.append(i)
            elif not pr.is_alive():
                out[i] = {"family": fam, "results": [], "seconds": time.time() - t0,
                          "crash": f"worker process of family {fam} died without a result (exit code {pr.exitcode})"}
                done.append(i)
            elif time.time() - t0 > limit:
                pr.kill()
                out[i] = {"family": fam, "seconds": time.time() - t0,
                          "results": [{"name": f"{module.PROPERTY}:{fam}:timeout", "clause": "unsupported", "status": "undecided",
                                       "seconds": time.time() - t0, "reason": f"family exceeded the wall-clock limit of {limit:.0f}s"}]}
                done.append(i)
        for i in done:
            pr, pc, _, _ = running.pop(i)
            pr.join(timeout=5)
            pc.close()
        if not done:
            time.sleep(0.02)
    return out


# ------------------------------------------------------------------------------------------
# known findings
# ------------------------------------------------------------------------------------------
def load_known_findings(prop):
    p = os.path.join(ROOT, "known_findings.json")
    if not os.path.exists(p):
        return [], []
    data = json.load(open(p))
    kf = [f for f in data.get("findings", []) if f["property"] == prop or prop in f.get("also", [])]
    fixed = [f for f in data.get("fixed", []) if f["property"] == prop]
    return kf, fixed


# ------------------------------------------------------------------------------------------
# main driver
# ------------------------------------------------------------------------------------------
def main(module, argv=None):
    import argparse
    ap = argparse.ArgumentParser()
    ap.add_argument("--tier", default=os.environ.get("VERIF_TIER", "quick"), choices=["quick", "thorough"])
    ap.add_argument("--replay", default=None)
    ap.add_argument("--family", default=None, help="run only families whose name contains this text")
    ap.add_argument("--no-evidence", action="store_true")
    ap.add_argument("-v", "--verbose", action="store_true")
    a = ap.parse_args(argv)
    prop = module.PROPERTY
    seed = int(os.environ.get("VERIF_SEED", "0") or 0)
    t0 = time.time()
    from .facts import run_extract, ExtractError

    if a.replay:
        spec = json.load(open(a.replay))
        out = native_run(spec["native_script"]) if spec.get("native_script") else {"error": "no native script"}
        print(json.dumps({"obligation": spec.get("obligation"), "native": out}, indent=1))
        return 1 if out.get("violates") else 0

    try:
        facts = run_extract(REPO_ROOT)
    except ExtractError as e:
        print(f"UNDECIDED property={prop} extraction failed:\n{e}")
        return 2
    if facts.errors:
        mods = getattr(module, "NEEDS_MODULES", None)
        bad = [x for x in facts.errors if mods is None or x["module"] in mods]
        if bad:
            print(f"UNDECIDED property={prop} modules failed to import: {bad}")
            return 2

    kf, fixed = load_known_findings(prop)
    module.KNOWN = kf
    fams = module.families(facts)
    if a.family:
        fams = [f for f in fams if a.family in f]
    outs = run_families(module, facts, fams, a.tier)

    results = []
    crashes = []
    for o in outs:
        if o.get("crash"):
            crashes.append(o)
        for r in o["results"]:
            r["family"] = o["family"]
            results.append(r)

    violations = []
    undecided = []
    discharged = 0
    by_backend = {}
    kf_hit = {}
    replay_dir = os.path.join(ROOT, "replays", prop)
    if os.path.isdir(replay_dir) and not a.family:
        for fn in os.listdir(replay_dir):
            if fn.endswith(".json"):
                os.remove(os.path.join(replay_dir, fn))
    bounded = [r for r in results if r.get("bounded")]
    # place-holders of families that lie wholly inside a recorded finding's region, and canaries, are not obligations
    excluded = [r for r in results if r.get("clause") == "excluded"]
    results = [r for r in results if not r.get("bounded") and r.get("clause") != "excluded"]
    for r in bounded:
        if r["status"] == "refuted":
            violations.append(r)
        elif r["status"] != "discharged":
            undecided.append(r)
    for r in results:
        b = by_backend.setdefault(r.get("backend", "z3-5.1.0-api"), {"count": 0, "seconds": 0.0})
        b["count"] += 1
        b["seconds"] += r.get("seconds", 0.0)
        st = r["status"]
        if st == "discharged":
            discharged += 1
        elif st == "refuted":
            violations.append(r)
        else:
            undecided.append(r)

    # replay refuted obligations natively
    reported = []
    for r in violations:
        spec = module.replay_spec(facts, r) if hasattr(module, "replay_spec") else None
        native = None
        if spec and spec.get("native_script"):
            native = native_run(spec["native_script"])
        confirmed = bool(native and native.get("violates"))
        os.makedirs(replay_dir, exist_ok=True)
        h = hashlib.sha256((r["name"] + "#" + str(r.get("family")) + "#" + str(r.get("path")) + "#" +
                            json.dumps(r.get("info"), sort_keys=True, default=str)).encode()).hexdigest()[:12]
        rp = os.path.join(replay_dir, h + ".json")
        k = 1
        while rp in {x["replay"] for x in reported}:
            k += 1
            rp = os.path.join(replay_dir, f"{h}-{k}.json")
        payload = {"property": prop, "obligation": r["name"], "clause": r.get("clause"),
                   "source": r.get("source"), "backend": r.get("backend", "z3-5.1.0-api"),
                   "solver_output": r.get("solver_output"), "witness": r.get("witness"),
                   "native_script": spec.get("native_script") if spec else None,
                   "input_text": spec.get("input_text") if spec else None,
                   "required": spec.get("required") if spec else None,
                   "native": native, "confirmed": confirmed,
                   "rerun": f"./vcheck {prop} --replay {os.path.relpath(rp, ROOT)}"}
        with open(rp, "w") as fh:
            json.dump(payload, fh, indent=1, default=str)
        r["replay"] = rp
        r["confirmed"] = confirmed
        r["native"] = native
        reported.append(r)

    exit_code = 0
    lines = []
    for f in kf:
        # each recorded finding is re-run natively; the line is printed either way (the region stays
        # excluded), with a note when the defect no longer reproduces on the tree under check
        note = ""
        if f.get("native_script_gen") and not f.get("native_script"):
            # script text produced by a generator of the contracts package (keeps the committed file small)
            import importlib
            g = f["native_script_gen"]
            try:
                f["native_script"] = getattr(importlib.import_module(g["module"]), g["fn"])(*g.get("args", []))
            except Exception as ex:       # recorded in the note; the region stays excluded
                note = f" [note: reproduction script could not be generated: {ex}]"
        if f.get("native_script"):
            nat = native_run(f["native_script"])
            f["_native"] = nat
            if not nat.get("violates"):
                note = " [note: no longer reproduces natively: " + json.dumps(nat)[:160] + "]"
        lines.append(f"KNOWN-FINDING: property={prop} {f['what']}{note}")
    for r in reported:
        rel = os.path.relpath(r["replay"], ROOT)
        if r["confirmed"]:
            lines.append(f"VIOLATION property={prop} replay={rel} obligation={r['name']}")
        else:
            lines.append(f"VIOLATION property={prop} replay={rel} obligation={r['name']} no-failing-input-found")
        exit_code = 1
    if crashes:
        for c in crashes:
            lines.append(f"CHECKER-CRASH family={c['family']}\n{c['crash']}")
        exit_code = max(exit_code, 3) if exit_code != 1 else 1
    if undecided and exit_code == 0:
        exit_code = 2
    for r in undecided:
        lines.append(f"UNDECIDED obligation={r['name']} reason={r.get('reason')}")
    if not results and exit_code == 0:
        lines.append("CHECKER-SELFTEST zero obligations generated")
        exit_code = 3
    self_fail = [r for r in results if r.get("selfcheck_failed")]
    if self_fail and exit_code in (0, 2):
        exit_code = 3

    wall = time.time() - t0
    for l in lines:
        print(l)
    if a.verbose:
        for o in sorted(outs, key=lambda o: -o["seconds"])[:8]:
            print(f"  family {o['family']}: {o['seconds']:.1f}s")
    print(f"{prop}: obligations={len(results)} discharged={discharged} refuted={len(violations)} "
          f"undecided={len(undecided)} families={len(fams)} wall={wall:.1f}s exit={exit_code}")

    if not a.no_evidence and not a.family:
        ev = module.evidence(facts, results + bounded) if hasattr(module, "evidence") else {}
        samples = [{"name": r["name"], "status": r["status"], "seconds": round(r.get("seconds", 0), 4),
                    "goal": r.get("goal_text", "")[:300]} for r in results[:3] + results[-2:]]
        fuc = {}
        for r in results:
            s = r.get("source")
            if s:
                fuc[s["qualname"]] = s
        evidence = {
            "property_id": prop, "tier": a.tier, "seed": seed, "level": getattr(module, "LEVEL", "proof"),
            "coverage": {
                "obligations": len(results), "discharged": discharged,
                "checker_cmd": f"./vcheck {prop} --tier {a.tier}",
                "trusted_base": ev.get("trusted_base", []),
                "samples": list((ev.get("coverage_extra") or {}).get("case_samples", [])) + samples,
                "functions_under_contract": sorted(fuc.values(), key=lambda s: s["qualname"]),
                "by_backend": by_backend,
                "families": len(fams),
                "refuted": len(violations), "undecided": len(undecided),
                "known_findings_matched": [f["what"] for f in kf],
                "bounded_standins": ev.get("bounded_standins", []) + [
                    {"name": r["name"], "bound": r.get("bound"), "status": "held within the bound" if r["status"] == "discharged" else r["status"],
                     "seconds": round(r.get("seconds", 0), 2)} for r in bounded],
                "canaries_refuted": sum(1 for r in results if r.get("canary")),
                "families_inside_known_findings": [r["name"] for r in excluded],
                "explanation": ev.get("explanation", ""),
                **(ev.get("coverage_extra") or {}),
            },
            "assumptions": ev.get("assumptions", []),
            "wall_s": round(wall, 2),
            "violations": len(violations),
        }
        os.makedirs(os.path.join(ROOT, "evidence"), exist_ok=True)
        with open(os.path.join(ROOT, "evidence", prop + ".json"), "w") as fh:
            json.dump(evidence, fh, indent=1, default=str)
    return exit_code
