"""Shared specification vocabulary (DESIGN section 5): input invariants, generic
"rebuild from transformed children" spec functions, loop-invariant rule, input builders."""
import ast as pyast

import z3

from .symexec import (Infeasible, ListObj, Raised, SBool, Sym, Unsupported, _Return)

# ------------------------------------------------------------------------------------------
# Shape of ASTs the parser can produce (field kinds).  This is the *precondition* of every
# tree function and backend; it is proved as the parser's postcondition in C05/C10.
#   'str'      python str            'strs'   tuple of str
#   'expr'     any expression node   'exprs'  list of expression nodes (or named params)
#   ('kind', [names]) a node of one of the listed kinds      ('opt', X)  None or X
# ------------------------------------------------------------------------------------------
EXPR_KINDS = ["Identifier", "Attribute", "Null", "Integer", "Float", "Boolean", "String", "Geography",
              "Date", "Time", "DateTime", "Duration", "GUID", "List", "BinOp", "Compare", "BoolOp",
              "UnaryOp", "Call", "CollectionLambda"]
PATH_KINDS = ["Identifier", "Attribute"]

SHAPE = {
    "Identifier": {"name": "str", "namespace": "strs"},
    "Attribute": {"owner": ("kind", PATH_KINDS), "attr": "str"},
    "Null": {}, "Integer": {"val": "str"}, "Float": {"val": "str"}, "Boolean": {"val": "str"},
    "String": {"val": "str"}, "Geography": {"val": "str"}, "Date": {"val": "str"}, "Time": {"val": "str"},
    "DateTime": {"val": "str"}, "Duration": {"val": "str"}, "GUID": {"val": "str"},
    "List": {"val": "exprs"},
    "Add": {}, "Sub": {}, "Mult": {}, "Div": {}, "Mod": {},
    "BinOp": {"op": ("kind", ["Add", "Sub", "Mult", "Div", "Mod"]), "left": "expr", "right": "expr"},
    "Eq": {}, "NotEq": {}, "Lt": {}, "LtE": {}, "Gt": {}, "GtE": {}, "In": {},
    "Compare": {"comparator": ("kind", ["Eq", "NotEq", "Lt", "LtE", "Gt", "GtE", "In"]),
                "left": "expr", "right": "expr"},
    "And": {}, "Or": {},
    "BoolOp": {"op": ("kind", ["And", "Or"]), "left": "expr", "right": "expr"},
    "Not": {}, "USub": {},
    "UnaryOp": {"op": ("kind", ["Not", "USub"]), "operand": "expr"},
    "NamedParam": {"name": ("kind", ["Identifier"]), "param": "expr"},
    "Call": {"func": ("kind", ["Identifier"]), "args": "args"},
    "Any": {}, "All": {},
    "Lambda": {"identifier": ("kind", ["Identifier"]), "expression": "expr"},
    "CollectionLambda": {"owner": ("kind", PATH_KINDS), "operator": ("kind", ["Any", "All"]),
                         "lambda_": ("opt", ("kind", ["Lambda"]))},
}


class ShapeMismatch(Exception):
    """The ast module of the tree under check has kinds/fields the shape table does not know."""


def check_shape_table(facts):
    problems = []
    for k in facts.kinds:
        if k not in SHAPE:
            problems.append(f"ast.{k} is not in the shape table")
        elif list(SHAPE[k].keys()) != facts.kind_fields[k]:
            problems.append(f"ast.{k} fields {facts.kind_fields[k]} != shape table {list(SHAPE[k].keys())}")
    for k in SHAPE:
        if k not in facts.kinds:
            problems.append(f"shape table kind {k} missing from odata_query.ast")
    return problems


class Specs:
    """Spec functions over the PV universe shared by several properties (DefFuns: see deffun.py)."""

    def __init__(self, U):
        from .deffun import DefFun
        self.U = U
        self.PV = U.PV
        PV = U.PV
        B = z3.BoolSort()

        from .deffun import AllPred
        self.all_str = AllPred("all_str", U.Seq, lambda t: U.is_tag("StrV", t))
        self.all_shape = AllPred("all_shape", U.Seq,
                                 lambda t: z3.And(U.is_node(t, EXPR_KINDS + ["NamedParam"]), self._shape(t)))

        def shape_body(e):
            body = z3.BoolVal(False)
            for k in reversed(U.facts.kinds):
                conds = [self.field_ok(SHAPE[k][f], U.field(k, f, e)) for f in U.facts.kind_fields[k]]
                body = z3.If(U.is_kind(k, e), z3.And(*conds) if conds else z3.BoolVal(True), body)
            return body
        self._shape = DefFun("shape", [PV], B, shape_body)

    def shape(self):
        """shape(n): n is a tree the parser can produce, field-type-wise (recursive)."""
        return self._shape

    def field_ok(self, spec, t):
        U, PV = self.U, self.PV
        if spec == "str":
            return U.is_tag("StrV", t)
        if spec == "strs":
            return z3.And(U.is_tag("TupleV", t), self.all_str(PV.titems(t)))
        if spec == "expr":
            return z3.And(U.is_node(t, EXPR_KINDS), self._shape(t))
        if spec in ("exprs", "args"):
            return z3.And(U.is_tag("ListV", t), self.all_shape(PV.items(t)))
        if spec[0] == "kind":
            return z3.And(U.is_node(t, spec[1]), self._shape(t))
        if spec[0] == "opt":
            return z3.Or(U.is_tag("NoneV", t), self.field_ok(spec[1], t))
        raise ValueError(spec)

    def field_shape(self, kind, fname, t):
        return self.field_ok(SHAPE[kind][fname], t)

    # ---- generic structural map ----------------------------------------------------------
    def node_map(self, name, extra_sorts, special):
        """DefFun f(extra..., e) that rebuilds every node from f(children) (node fields and list
        items), except where `special(f, fmap, extras, e)` returns (cond, value) cases tried first.
        Returns (f, fmap) with fmap the pointwise lift to sequences."""
        from .deffun import DefFun
        U, PV = self.U, self.PV
        holder = {}

        def fmap_body(*args):
            extras, q = list(args[:-1]), args[-1]
            n = z3.Length(q)
            f = holder["f"]
            return z3.If(n == 0, z3.Empty(U.Seq),
                         z3.Concat(z3.Unit(z3.If(U.is_node(q[0]), f(*extras, q[0]), q[0])),
                                   holder["fmap"](*extras, z3.SubSeq(q, 1, n - 1))))

        def f_body(*args):
            extras, e = list(args[:-1]), args[-1]
            f, fmap = holder["f"], holder["fmap"]

            def lift(t):
                return z3.If(U.is_tag("ListV", t), PV.ListV(fmap(*extras, PV.items(t))),
                             z3.If(U.is_node(t), f(*extras, t), t))
            body = e
            for k in reversed(U.facts.kinds):
                fields = U.facts.kind_fields[k]
                rebuilt = e if not fields else U.node(k, *[lift(U.field(k, fn, e)) for fn in fields])
                body = z3.If(U.is_kind(k, e), rebuilt, body)
            for cond, val in reversed(special(f, fmap, extras, e)):
                body = z3.If(cond, val, body)
            return body

        holder["f"] = DefFun(name, list(extra_sorts) + [PV], PV, f_body)
        holder["fmap"] = DefFun(name + "_map", list(extra_sorts) + [U.Seq], U.Seq, fmap_body, cheap=True)
        return holder["f"], holder["fmap"]


# ------------------------------------------------------------------------------------------
# loop invariant rule for `for item in <symbolic sequence>` (DESIGN 5.5 / C14 / C16)
# ------------------------------------------------------------------------------------------
class InvariantMismatch(Exception):
    """The registered invariant does not fit the loop as it is now written (cannot even be evaluated)."""


class LoopStepDone(Exception):
    """Raised to end a path that checked one arbitrary iteration of a loop."""


from .symexec import _Continue as _LoopContinue  # noqa: E402


class SeqLoopInvariant:
    """inv(E, path, frame, rest_seq, whole_seq) -> z3 Bool over the frame's current locals."""

    def __init__(self, inv, modifies=None, ghost=(), on_entry=None):
        self.inv = inv
        self.modifies = modifies
        self.ghost = tuple(ghost)       # names of ghost sequences the loop body may extend
        self.on_entry = on_entry        # on_entry(E, path, frame, entry_dict): snapshot values at loop entry

    def run(self, E, path, frame, stmt, iterable):
        from .symexec import EnumIter, SInt
        U = E.U
        enum_start = None
        if isinstance(iterable, EnumIter):
            enum_start = iterable.start
            iterable = iterable.inner
        whole = E.symbolic_seq(path, iterable)
        path.ghost["_entry"] = {g: path.ghost.get(g) for g in self.ghost}
        try:
            if self.on_entry is not None:
                self.on_entry(E, path, frame, path.ghost["_entry"])
            init = self.inv(E, path, frame, whole, whole)
        except (Unsupported, Raised, KeyError, AttributeError, TypeError) as ex:
            raise InvariantMismatch(f"{type(ex).__name__}: {ex}")
        path.oblige("inv.init", init)
        for g in self.ghost:
            path.ghost[g] = U.fresh("hv_" + g, U.Seq)
        mods = self.modifies or _modified_names(stmt)
        typed = {}
        for name in mods:
            if not frame.is_local(name):
                continue
            cur = frame.lookup(path, name)
            # havoc keeps the runtime type of the variable (checked again at the end of the arbitrary iteration:
            # clause inv.type), so that the body is not explored for 48 impossible types
            tag = None
            if isinstance(cur, ListObj):
                tag = "ListV"
            elif isinstance(cur, Sym):
                t = z3.simplify(cur.term)
                tag = U.ctor_name(t) or path.tags.get(t.get_id())
                if tag is None:
                    for cand in ("ListV", "StrV", "TupleV", "NoneV"):
                        if path.entails(U.is_tag(cand, t)):
                            tag = cand
                            break
            if isinstance(cur, ListObj):
                nl = ListObj(U.fresh("hv_" + name, U.Seq), fresh=cur.fresh)
                nl.published = cur.published
                _rebind(frame, name, nl)
            elif tag == "ListV":
                _rebind(frame, name, ListObj(U.fresh("hv_" + name, U.Seq), fresh=False))
            elif isinstance(cur, bool):
                _rebind(frame, name, SBool(U.fresh("hv_" + name, z3.BoolSort())))
                tag = "bool"
            else:
                h = U.fresh("hv_" + name)
                if tag is not None:
                    path.assume_fact(U.is_tag(tag, h))
                    path.tags[h.get_id()] = tag
                _rebind(frame, name, Sym(h))
            typed[name] = tag
        rest = U.fresh("rest", U.Seq)
        done = U.fresh("done", U.Seq)
        path.assume(whole == z3.Concat(done, rest))
        path.sub_roots[rest.get_id()] = True
        k = path.choose([("step", None), ("exit", None)])
        if k == 0:
            path.assume(z3.Length(rest) > 0)
            path.assume(self.inv(E, path, frame, rest, whole))
            item = E.from_pv(z3.simplify(rest[0]), path)
            if enum_start is not None:
                item = (SInt(z3.Length(done) + enum_start), item)
            E.assign(path, frame, stmt.target, item)
            try:
                E.exec_block(path, frame, stmt.body)
            except _LoopContinue:
                pass
            path.oblige("inv.step", self.inv(E, path, frame, z3.SubSeq(rest, 1, z3.Length(rest) - 1), whole))
            for name, tag in typed.items():
                if tag is None:
                    continue
                v = frame.lookup(path, name)
                if tag == "bool":
                    ok = isinstance(v, (bool, SBool))
                elif tag == "ListV":
                    ok = isinstance(v, ListObj) or (isinstance(v, Sym) and path.entails(U.is_tag("ListV", v.term)))
                else:
                    ok = isinstance(v, Sym) and path.entails(U.is_tag(tag, v.term)) or \
                        (tag == "StrV" and isinstance(v, (str,))) or (tag == "NoneV" and v is None)
                path.oblige("inv.type", z3.BoolVal(bool(ok)), {"variable": name, "type": tag})
            raise LoopStepDone()
        path.assume(rest == z3.Empty(U.Seq))
        path.assume(self.inv(E, path, frame, rest, whole))
        if stmt.orelse:
            E.exec_block(path, frame, stmt.orelse)


def _rebind(frame, name, v):
    f = frame
    while f is not None:
        if name in f.locals:
            f.locals[name] = v
            return
        f = f.parent
    frame.locals[name] = v


def _modified_names(stmt):
    names = set()
    for n in pyast.walk(stmt):
        if isinstance(n, pyast.Name) and isinstance(n.ctx, pyast.Store):
            names.add(n.id)
        if isinstance(n, pyast.Call) and isinstance(n.func, pyast.Attribute) and isinstance(n.func.value, pyast.Name) \
                and n.func.attr in ("append", "extend", "pop", "insert", "clear", "remove", "update"):
            names.add(n.func.value.id)
        if isinstance(n, pyast.Subscript) and isinstance(n.ctx, pyast.Store) and isinstance(n.value, pyast.Name):
            names.add(n.value.id)
    tgt = set()
    for n in pyast.walk(stmt.target):
        if isinstance(n, pyast.Name):
            tgt.add(n.id)
    return sorted(names - tgt)


# ------------------------------------------------------------------------------------------
# structural descent (termination measure of the modular/inductive rule)
# ------------------------------------------------------------------------------------------
def below_input(path, term, U):
    """True iff `term` is obtained from a registered strict sub-value of the input by accessors,
    sequence indexing or sub-sequence only -- i.e. it is a strict sub-term of the input node."""
    return _below(path, z3.simplify(term))


def _below(path, t):
    while True:
        if z3.is_const(t) and t.decl().kind() == z3.Z3_OP_UNINTERPRETED:
            return t.get_id() in path.sub_roots
        if not z3.is_app(t) or t.num_args() == 0:
            return False
        k = t.decl().kind()
        if k == z3.Z3_OP_DT_ACCESSOR:
            t = t.arg(0)
        elif k in (z3.Z3_OP_SEQ_NTH, z3.Z3_OP_SEQ_EXTRACT, z3.Z3_OP_SEQ_AT):
            t = t.arg(0)
        elif t.decl().name() in ("seq.nth_i", "seq.nth_u"):
            t = t.arg(0)
        elif k == z3.Z3_OP_ITE:
            # simplify() turns s[i] into ite(len(s) <= i, nth_u(s, i), nth_i(s, i))
            return _below(path, t.arg(1)) and _below(path, t.arg(2))
        else:
            return False


def fresh_node(E, path, kind, prefix="f"):
    """N_kind(f1..fn) over fresh field constants, registered as strict sub-values of the input."""
    U = E.U
    consts = []
    for fn in U.facts.kind_fields[kind]:
        c = z3.Const(f"{prefix}_{fn}", U.PV)
        consts.append(c)
        path.sub_roots[c.get_id()] = True
    return U.node(kind, *consts), consts
