"""Default models of a few stdlib callables reached from the functions under contract."""
import z3

from .symexec import ExtVal, Obj, Sym, Unsupported, SBool


def install(E):
    E.ext_models["dataclasses.fields"] = _fields
    E.ext_models["_operator.contains"] = _op_contains
    E.ext_models["_operator.eq"] = _op_eq


def _fields(E, path, args, kwargs):
    (node,) = args
    if isinstance(node, Sym):
        tag = E.tag_of(path, node)
        if tag.startswith("N_"):
            kind = tag[2:]
            return tuple(Obj("dataclasses.Field", {"name": f}) for f in E.facts.kind_fields[kind])
    E.throw(path, "TypeError", "must be called with a dataclass type or instance")


def _op_contains(E, path, args, kwargs):
    a, b = args
    return E.py_in(path, b, a)


def _op_eq(E, path, args, kwargs):
    a, b = args
    return E.py_eq(path, a, b)
