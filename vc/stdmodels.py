"""Default models of a few stdlib callables reached from the functions under contract."""
import z3

from .symexec import ExtVal, Obj, Sym, Unsupported, SBool


def install(E):
    E.ext_models["dataclasses.fields"] = _fields
    E.ext_models["_operator.contains"] = _op_contains
    E.ext_models["_operator.eq"] = _op_eq


def _fields(E, path, args, kwargs):
    (node,) = args
    if isinstance(node, Sym):
        tag = E.tag_of(path, node)
        if tag.startswith("N_"):
            kind = tag[2:]
            return tuple(Obj("dataclasses.Field", {"name": f}) for f in E.facts.kind_fields[kind])
    E.throw(path, "TypeError", "must be called with a dataclass type or instance")


def _op_contains(E, path, args, kwargs):
    a, b = args
    return E.py_in(path, b, a)


def _op_eq(E, path, args, kwargs):
    a, b = args
    return E.py_eq(path, a, b)


# ------------------------------------------------------------------------------------------
# compiled regular expressions held in module constants (re.compile descriptors from E1)
# ------------------------------------------------------------------------------------------
def _group_min_widths(pattern, flags):
    """minimum length of the text captured by each group (from CPython's own regex parser)"""
    import re
    try:
        import re._parser as sp
        import re._constants as sc
    except ImportError:
        import sre_parse as sp
        import sre_constants as sc
    out = {}

    def walk(items):
        for op, av in items:
            if op == sc.SUBPATTERN:
                group, _, _, sub = av
                if group:
                    out[group] = int(sub.getwidth()[0])
                walk(sub)
            elif op in (sc.MAX_REPEAT, sc.MIN_REPEAT):
                walk(av[2])
            elif op == sc.BRANCH:
                for alt in av[1]:
                    walk(alt)
    walk(sp.parse(pattern, flags))
    return out


def _group_finite_values(pattern, flags):
    """groups that are a single character from a set of at most 4 characters -> their possible values"""
    try:
        import re._parser as sp
        import re._constants as sc
    except ImportError:
        import sre_parse as sp
        import sre_constants as sc
    out = {}

    def walk(items):
        for op, av in items:
            if op == sc.SUBPATTERN:
                group, _, _, sub = av
                if group and len(sub) == 1:
                    o2, a2 = sub[0]
                    if o2 == sc.LITERAL:
                        out[group] = [chr(a2)]
                    elif o2 == sc.IN and all(x[0] == sc.LITERAL for x in a2) and len(a2) <= 4:
                        out[group] = [chr(x[1]) for x in a2]
                walk(sub)
            elif op in (sc.MAX_REPEAT, sc.MIN_REPEAT):
                walk(av[2])
            elif op == sc.BRANCH:
                for alt in av[1]:
                    walk(alt)
    walk(sp.parse(pattern, flags))
    return out


def install_regex(E):
    from .symexec import Atom, SStr, SBool

    class ReMatch:
        sym_mro = ["re.Match", "builtins.object"]

        def __init__(self, pattern, flags, subject, ok):
            self.pattern, self.flags, self.subject = pattern, flags, subject
            self.sym_truthy = ok

        def sym_getattr(self, E, path, name):
            if name == "groups":
                return ReGroups(self)
            E.throw(path, "AttributeError", name)

    class ReGroups:
        sym_mro = ["builtins.builtin_function_or_method", "builtins.object"]
        sym_truthy = True

        def __init__(self, m):
            self.m = m

        def sym_call(self, E, path, args, kwargs):
            import re
            n = re.compile(self.m.pattern, self.m.flags).groups
            U = E.U
            widths = _group_min_widths(self.m.pattern, self.m.flags)
            out = []
            subj = self.m.subject
            st = subj.term() if isinstance(subj, SStr) else z3.StringVal(subj)
            finite = _group_finite_values(self.m.pattern, self.m.flags)
            for i in range(n):
                if (i + 1) in finite:
                    # a group over a tiny alphabet (e.g. a sign): enumerate its values instead of keeping it symbolic
                    vals = finite[i + 1]
                    k = path.choose([("absent", None)] + [(v, None) for v in vals])
                    out.append(None if k == 0 else vals[k - 1])
                    continue
                g = U.fresh(f"group{i + 1}")
                f = E.uf(f"re_group_{i + 1}", z3.StringSort(), z3.StringSort())
                # a group is None (did not participate) or a string: a function of the subject
                path.assume_fact(z3.Or(U.is_tag("NoneV", g), z3.And(U.is_tag("StrV", g), E.PV.s(g) == f(st),
                                                                  z3.Length(f(st)) >= widths.get(i + 1, 0))))
                path.ghost.setdefault("regroups", {})[z3.simplify(f(st)).get_id()] = (self.m.pattern, self.m.flags, i + 1)
                path.ghost["regroups"][z3.simplify(E.PV.s(g)).get_id()] = (self.m.pattern, self.m.flags, i + 1)
                out.append(E.from_pv(g))
            # from_pv of a fresh constant yields Sym; string atoms are created when the value is used
            return tuple(out)

    class ReMethod:
        sym_mro = ["builtins.builtin_function_or_method", "builtins.object"]
        sym_truthy = True

        def __init__(self, pattern, flags, name):
            self.pattern, self.flags, self.name = pattern, flags, name

        def sym_call(self, E, path, args, kwargs):
            if self.name == "fullmatch":
                (subj,) = args
                subj = E.as_sstr(path, subj)
                st = subj.term() if isinstance(subj, SStr) else z3.StringVal(subj)
                ok = E.uf("re_fullmatch", z3.StringSort(), z3.StringSort(), z3.BoolSort())(z3.StringVal(self.pattern), st)
                return ReMatch(self.pattern, self.flags, subj, ok)
            if self.name == "sub":
                repl, subj = args
                subj = E.as_sstr(path, subj)
                if not isinstance(repl, str):
                    raise Unsupported("re.sub with non-constant replacement")
                st = subj.term() if isinstance(subj, SStr) else z3.StringVal(subj)
                f = E.uf("re_sub", z3.StringSort(), z3.StringSort(), z3.StringSort(), z3.StringSort())
                return SStr([Atom(f(z3.StringVal(self.pattern), z3.StringVal(repl), st),
                                  ("resub", subj if isinstance(subj, SStr) else SStr([subj]), self.pattern, repl))])
            raise Unsupported(f"re.Pattern.{self.name}")

    def attr_model(E, path, o, name):
        if isinstance(o, ExtVal) and o.name == "re.compile" and name in ("fullmatch", "sub"):
            return ReMethod(o.args[0], o.args[1], name)
        return NotImplemented
    E.attr_models[("re.compile", "fullmatch")] = attr_model
    E.attr_models[("re.compile", "sub")] = attr_model
