"""E2 -- pyvc: symbolic execution of the *real* function sources (via `ast`) into z3 terms.

One `Engine` per process; one `Path` per explored execution path.  Forking is done by
re-execution with a decision prefix (functions under contract are a few lines long).
Callees with a contract are replaced by the contract (modular rule); callees without one
are inlined.  Anything outside the supported subset raises `Unsupported`, which makes the
enclosing obligation family *undecided* -- never passed, never a violation.
"""
import ast as pyast
import builtins as _builtins
import textwrap

import z3

from .pyval import Universe, seq_elems_or_none


# =========================================================================================
# values
# =========================================================================================
class Unsupported(Exception):
    pass


class Raised(Exception):
    def __init__(self, exc):
        self.exc = exc


class _Return(Exception):
    def __init__(self, value):
        self.value = value


class Infeasible(Exception):
    pass


class Sym:
    """A Python value known only as a z3 term of sort PV."""
    __slots__ = ("term",)

    def __init__(self, term):
        self.term = term

    def __repr__(self):
        return f"Sym({self.term})"


class SBool:
    __slots__ = ("e",)

    def __init__(self, e):
        self.e = e

    def __repr__(self):
        return f"SBool({self.e})"


class SInt:
    __slots__ = ("e",)

    def __init__(self, e):
        self.e = e

    def __repr__(self):
        return f"SInt({self.e})"


class Atom:
    """Opaque piece of a symbolic string; `origin` says where it came from (for readers)."""
    __slots__ = ("term", "origin")

    def __init__(self, term, origin):
        self.term = term
        self.origin = origin

    def __repr__(self):
        return f"<{self.origin[0]}:{self.term}>"


class SStr:
    """Symbolic string: a concatenation of constant text and atoms."""
    __slots__ = ("parts",)

    def __init__(self, parts):
        out = []
        for p in parts:
            if isinstance(p, str):
                if not p:
                    continue
                if out and isinstance(out[-1], str):
                    out[-1] += p
                else:
                    out.append(p)
            else:
                out.append(p)
        self.parts = tuple(out)

    def term(self):
        ts = [z3.StringVal(p) if isinstance(p, str) else p.term for p in self.parts]
        if not ts:
            return z3.StringVal("")
        if len(ts) == 1:
            return ts[0]
        return z3.Concat(*ts)

    def __repr__(self):
        return "SStr(" + " ".join(repr(p) for p in self.parts) + ")"


def mk_str(parts):
    s = SStr(parts)
    if all(isinstance(p, str) for p in s.parts):
        return "".join(s.parts)
    return s


class ListObj:
    """A Python list object (identity matters for mutation/ownership)."""
    _n = 0

    def __init__(self, content, fresh=True):
        self.content = content          # python list of values | z3 Seq term
        self.fresh = fresh              # created by the function under execution
        self.published = False          # stored into a node / returned to a caller that may alias it
        ListObj._n += 1
        self.id = ListObj._n

    def is_concrete(self):
        return isinstance(self.content, list)

    def __repr__(self):
        return f"ListObj({self.content})"


class DictObj:
    def __init__(self, d=None):
        self.d = dict(d or {})


class ClassRef:
    def __init__(self, desc):
        self.desc = desc
        self.qualname = desc["qualname"]
        self.name = desc.get("name") or self.qualname.rsplit(".", 1)[-1]
        self.mro = desc.get("mro") or [self.qualname]
        self.repo = desc.get("repo", False)

    def __repr__(self):
        return f"ClassRef({self.qualname})"

    def __eq__(self, o):
        return isinstance(o, ClassRef) and o.qualname == self.qualname

    def __hash__(self):
        return hash(self.qualname)


class FuncRef:
    def __init__(self, fact, closure=None, defcls=None, fdef=None):
        self.fact = fact
        self.closure = closure or {}
        self.defcls = defcls            # qualname of the class whose member table resolved it
        self.fdef = fdef                # for nested defs / lambdas
        self.qualname = fact["qualname"] if fact else "<lambda>"

    def __repr__(self):
        return f"FuncRef({self.qualname})"


class BoundMethod:
    def __init__(self, self_val, func):
        self.self_val = self_val
        self.func = func

    def __repr__(self):
        return f"BoundMethod({self.func})"


class Builtin:
    def __init__(self, name, self_val=None):
        self.name = name
        self.self_val = self_val

    def __repr__(self):
        return f"Builtin({self.name})"


class ExtRef:
    """A name that resolves outside the repository (Django, SQLAlchemy, operator, ...)."""

    def __init__(self, qualname, desc=None):
        self.qualname = qualname
        self.desc = desc or {}

    def __repr__(self):
        return f"ExtRef({self.qualname})"


class ExtVal:
    """Result of calling an external callable: an uninterpreted, deterministic constructor term."""

    def __init__(self, name, args=(), kwargs=(), cls_mro=None):
        self.name = name
        self.args = tuple(args)
        self.kwargs = tuple(kwargs)     # tuple of (key, value)
        self.cls_mro = cls_mro          # mro qualnames when `name` is a class

    def __repr__(self):
        kw = "".join(f", {k}={v!r}" for k, v in self.kwargs)
        return f"{self.name.rsplit('.', 1)[-1]}({', '.join(map(repr, self.args))}{kw})"


class Obj:
    """Instance of a repository class (visitor, exception)."""

    def __init__(self, cls_qualname, attrs=None, unmodelled=()):
        self.cls = cls_qualname
        self.attrs = dict(attrs or {})
        self.unmodelled = frozenset(unmodelled)   # fields the real constructor sets that the model leaves out

    def __repr__(self):
        return f"Obj({self.cls.rsplit('.', 1)[-1]}, {self.attrs})"


class ExcVal:
    def __init__(self, cls_qualname, mro, args=(), attrs=None):
        self.cls = cls_qualname
        self.mro = mro
        self.args = tuple(args)
        self.attrs = dict(attrs or {})

    @property
    def name(self):
        return self.cls.rsplit(".", 1)[-1]

    def __repr__(self):
        return f"ExcVal({self.name}, {self.args}, {self.attrs})"


class SeqMap:
    """Symbolic-length sequence whose i-th element is `elem_value[elem_var := seq[i]]`."""

    def __init__(self, seq_term, elem_var, elem_value, ctx=None):
        self.seq_term = seq_term
        self.elem_var = elem_var
        self.elem_value = elem_value
        self.ctx = ctx


class GhostMap:
    """A dict known only through ghost functions has(k)/get(k) (e.g. AliasRewriter.replacements)."""

    def __init__(self, has_fn, get_fn, hashable=None, on_get=None):
        self.has_fn = has_fn
        self.get_fn = get_fn
        self.hashable = hashable
        self.on_get = on_get

    def _key(self, E, path, k):
        t = E.to_pv(k)
        if self.hashable is not None:
            if not E.branch(path, self.hashable(t)):
                E.throw(path, "TypeError", "unhashable type")
        return t

    def contains(self, E, path, k):
        t = self._key(E, path, k)
        c = z3.simplify(self.has_fn(t))
        if z3.is_true(c):
            return True
        if z3.is_false(c):
            return False
        return SBool(c)

    def getitem(self, E, path, k):
        t = self._key(E, path, k)
        if not E.branch(path, self.has_fn(t)):
            E.throw(path, "KeyError", k)
        v = self.get_fn(t)
        if self.on_get is not None:
            self.on_get(E, path, t, v)
        return E.from_pv(v, path)

    def sym_getattr(self, E, path, name):
        if name == "get":
            gm = self

            class _Get:
                def sym_call(self_, E_, path_, args, kwargs):
                    if kwargs or len(args) not in (1, 2):
                        raise Unsupported("dict.get signature")
                    t = gm._key(E_, path_, args[0])
                    if E_.branch(path_, gm.has_fn(t)):
                        v = gm.get_fn(t)
                        if gm.on_get is not None:
                            gm.on_get(E_, path_, t, v)
                        return E_.from_pv(v, path_)
                    return args[1] if len(args) == 2 else None
            return _Get()
        raise Unsupported(f"getattr {name} on GhostMap")


class Module:
    def __init__(self, name):
        self.name = name

    def __repr__(self):
        return f"Module({self.name})"


BUILTIN_EXC = {}
for _n in dir(_builtins):
    _o = getattr(_builtins, _n)
    if isinstance(_o, type) and issubclass(_o, BaseException):
        BUILTIN_EXC[_n] = ["builtins." + c.__name__ for c in _o.__mro__]


# =========================================================================================
# path state
# =========================================================================================
class Obligation:
    def __init__(self, clause, hyps, goal, info=None):
        self.clause = clause            # from the fixed vocabulary of DESIGN section 6
        self.hyps = list(hyps)
        self.goal = goal
        self.info = info or {}


class Path:
    def __init__(self, engine, prefix, replay_log=()):
        self.engine = engine
        self.prefix = list(prefix)
        self.replay_log = list(replay_log)   # solver answers recorded by the parent path up to its fork point
        self.log = []
        self.qi = 0
        self.pos = 0
        self.trace = []
        self.pc = []
        self.obligations = []
        self.ghost = {}
        self.tags = {}                  # term id -> known constructor tag
        self.notes = []
        self.solver = z3.Solver()
        self.solver.set("rlimit", engine.rlimit_feas)
        self.calls = 0
        self.sub_roots = {}             # z3 const id -> True : terms structurally below the input
        from .deffun import Unfolder
        self.unfolder = Unfolder(rounds=3)
        self.insts = []                 # defining-equation instances added for pc (deffun.py)

    def assume(self, cond):
        if isinstance(cond, bool):
            if not cond:
                raise Infeasible()
            return
        cond = z3.simplify(cond)
        if z3.is_true(cond):
            return
        if z3.is_false(cond):
            raise Infeasible()
        self.pc.append(cond)
        self.solver.add(cond)
        for inst in self.unfolder.add([cond]):
            self.insts.append(inst)
            self.solver.add(inst)

    def query(self, compute):
        """Solver-derived answer, replayed from the parent's log while on the shared prefix
        (execution is deterministic, so the k-th query of a replay is the k-th query of the parent)."""
        if self.qi < len(self.replay_log):
            r = self.replay_log[self.qi]
        else:
            r = compute()
        self.qi += 1
        self.log.append(r)
        return r

    def assume_fact(self, cond):
        """A fact that holds for every input (e.g. an inductively established range of a callee): known to
        the path's solver and to its obligations, but not part of the path condition."""
        cond = z3.simplify(cond)
        if z3.is_true(cond):
            return
        self.solver.add(cond)
        self.insts.append(cond)
        for inst in self.unfolder.add([cond]):
            self.insts.append(inst)
            self.solver.add(inst)

    def feasible(self, cond=None):
        if cond is not None:
            c = z3.simplify(cond)
            if z3.is_true(c):
                return True
            if z3.is_false(c):
                return False

            def compute():
                self.engine.stats["feas_checks"] += 1
                return self.solver.check(c) != z3.unsat
        else:
            def compute():
                self.engine.stats["feas_checks"] += 1
                return self.solver.check() != z3.unsat
        return self.query(compute)

    def entails(self, cond):
        c = z3.simplify(cond)
        if z3.is_true(c):
            return True
        if z3.is_false(c):
            return False

        def compute():
            self.engine.stats["feas_checks"] += 1
            return self.solver.check(z3.Not(c)) == z3.unsat
        return self.query(compute)

    def choose(self, options):
        """options: list of (label, cond|None).  Returns the index taken on this path."""
        feas = []
        for i, (label, cond) in enumerate(options):
            if cond is None or self.feasible(cond):
                feas.append(i)
        if not feas:
            raise Infeasible()
        if len(feas) == 1:
            k = feas[0]
        else:
            if self.pos < len(self.prefix):
                k = feas[self.prefix[self.pos]]
                j = self.prefix[self.pos]
            else:
                j = 0
                k = feas[0]
                for alt in range(1, len(feas)):
                    self.engine._work.append((self.trace + [alt], list(self.log)))
            self.trace.append(j)
            self.pos += 1
        label, cond = options[k]
        if cond is not None:
            self.assume(cond)
        return k

    def oblige(self, clause, goal, info=None):
        if isinstance(goal, bool):
            goal = z3.BoolVal(goal)
        self.obligations.append(Obligation(clause, list(self.pc) + list(self.insts), goal, info))


# =========================================================================================
# engine
# =========================================================================================
class Engine:
    def __init__(self, facts, universe=None):
        self.facts = facts
        self.U = universe or Universe(facts)
        self.PV = self.U.PV
        self.contracts = {}             # qualname -> callable(engine, path, fref, self_val, args, kwargs)
        self.loop_invariants = {}       # (qualname, ordinal) -> invariant object
        self.ext_models = {}            # external qualname -> callable(engine, path, args, kwargs)
        self.attr_models = {}           # (ext name, attr) -> callable
        self.rlimit_feas = 2_000_000
        self.max_depth = 12
        self.stats = {"feas_checks": 0, "paths": 0}
        self._work = []
        self.ufs = {}
        self.drop_calls = {"log.debug"}
        self.havoc_unknown_loops = False
        self.len_split = 3

    # ---- uninterpreted helpers ----------------------------------------------------------
    def uf(self, name, *sorts):
        key = (name,) + tuple(str(s) for s in sorts)
        if key not in self.ufs:
            self.ufs[key] = z3.Function(name, *sorts)
        return self.ufs[key]

    # ---- exploration --------------------------------------------------------------------
    def explore(self, runner, max_paths=4000):
        """runner(path) -> outcome.  Returns list of (path, outcome)."""
        self._work = [([], [])]
        results = []
        while self._work:
            prefix, rlog = self._work.pop()
            path = Path(self, prefix, rlog)
            self.stats["paths"] += 1
            if self.stats["paths"] > max_paths * 50:
                raise Unsupported("path explosion")
            try:
                out = runner(path)
            except Infeasible:
                continue
            except Unsupported as u:
                out = ("unsupported", str(u))
            results.append((path, out))
            if len(results) > max_paths:
                raise Unsupported("path explosion")
        return results

    def run_function(self, path, fref, args, kwargs=None, self_val=None):
        """Execute and normalise the outcome: ('return', v) | ('raise', ExcVal)."""
        try:
            v = self.call_function(path, fref, list(args), dict(kwargs or {}), self_val=self_val,
                                   use_contract=False)
            return ("return", v)
        except Raised as r:
            return ("raise", r.exc)

    # ---- conversions --------------------------------------------------------------------
    def to_pv(self, v):
        U = self.U
        if v is None:
            return U.none()
        if isinstance(v, bool):
            return U.boolv(v)
        if isinstance(v, int):
            return U.intv(v)
        if isinstance(v, str):
            return U.strv(v)
        if isinstance(v, SStr):
            return U.strv(v.term())
        if isinstance(v, SBool):
            return U.boolv(v.e)
        if isinstance(v, SInt):
            return U.intv(v.e)
        if isinstance(v, Sym):
            return v.term
        if isinstance(v, tuple):
            return U.tuplev(U.seq([self.to_pv(x) for x in v]))
        if isinstance(v, ListObj):
            return U.listv(self.seq_term(v))
        if isinstance(v, ClassRef):
            return U.clsv(v.qualname)
        if isinstance(v, ExtVal):
            name = v.name + "".join(f"|{k}" for k, _ in v.kwargs)
            return U.extv(name, [self.to_pv(a) for a in v.args] + [self.to_pv(x) for _, x in v.kwargs])
        if isinstance(v, ExtRef):
            return U.extv("ref:" + v.qualname, [])
        if isinstance(v, FuncRef):
            return U.extv("fn:" + v.qualname, [])
        if isinstance(v, BoundMethod):
            return U.extv("bm:" + getattr(v.func, "qualname", str(v.func)), [self.to_pv(v.self_val)])
        if isinstance(v, Builtin):
            return U.extv("builtin:" + v.name, [])
        raise Unsupported(f"to_pv: {type(v).__name__}")

    def seq_term(self, lst):
        if isinstance(lst, ListObj):
            if lst.is_concrete():
                return self.U.seq([self.to_pv(x) for x in lst.content])
            return lst.content
        if isinstance(lst, tuple):
            return self.U.seq([self.to_pv(x) for x in lst])
        raise Unsupported("seq_term")

    def from_pv(self, t, path=None):
        """PV term -> most concrete Python-side value."""
        t = z3.simplify(t)
        U = self.U
        n = U.ctor_name(t)
        if n == "NoneV":
            return None
        if n == "StrV":
            s = t.arg(0)
            if z3.is_string_value(s):
                return U.decode(s)
            return SStr([Atom(s, ("term",))])
        if n == "BoolV":
            b = t.arg(0)
            if z3.is_true(b):
                return True
            if z3.is_false(b):
                return False
            return SBool(b)
        if n == "IntV":
            i = t.arg(0)
            if z3.is_int_value(i):
                return i.as_long()
            return SInt(i)
        if n == "TupleV":
            el = seq_elems_or_none(t.arg(0))
            if el is not None:
                return tuple(self.from_pv(x, path) for x in el)
            return Sym(t)
        if n == "ListV":
            return Sym(t)
        if n == "ClsV":
            i = t.arg(0)
            if z3.is_int_value(i) and i.as_long() < len(U.cls_names):
                return self.class_by_qualname(U.cls_names[i.as_long()])
        return Sym(t)

    def class_by_qualname(self, qn):
        c = self.facts.classes.get(qn)
        if c:
            return ClassRef({"qualname": qn, "name": c["name"], "mro": c["mro"], "repo": True})
        if qn.startswith("builtins."):
            n = qn.split(".", 1)[1]
            if n in BUILTIN_EXC:
                return ClassRef({"qualname": qn, "name": n, "mro": BUILTIN_EXC[n], "repo": False})
            return ClassRef({"qualname": qn, "name": n, "mro": [qn, "builtins.object"], "repo": False})
        return ClassRef({"qualname": qn, "name": qn.rsplit(".", 1)[-1], "mro": [qn], "repo": False})

    # ---- tags (runtime type of a Sym) ---------------------------------------------------
    def tag_of(self, path, sym, expected=None):
        """Runtime constructor of a Sym on this path; forks when several are feasible."""
        t = z3.simplify(sym.term)
        n = self.U.ctor_name(t)
        if n:
            return n
        key = t.get_id()
        if key in path.tags:
            return path.tags[key]
        # syntactic: pc contains a tester on t
        # model-guided enumeration of feasible constructors
        def compute():
            feas = []
            s = path.solver
            s.push()
            try:
                while True:
                    self.stats["feas_checks"] += 1
                    r = s.check()
                    if r == z3.unsat:
                        break
                    if r == z3.unknown:
                        return "unknown"
                    m = s.model()
                    v = m.eval(t, model_completion=True)
                    cn = self.U.ctor_name(v)
                    if cn is None:
                        return "unknown"
                    feas.append(cn)
                    s.add(z3.Not(self.U.testers[cn](t)))
                    if len(feas) > 64:
                        break
            finally:
                s.pop()
            return sorted(feas)
        feas = path.query(compute)
        if feas == "unknown":
            raise Unsupported("tag enumeration: solver unknown")
        if not feas:
            raise Infeasible()
        k = path.choose([(cn, self.U.testers[cn](t)) for cn in feas])
        path.tags[key] = feas[k]
        return feas[k]

    # ---- truthiness ---------------------------------------------------------------------
    def truthy(self, path, v):
        """-> python bool | z3 Bool"""
        if v is None or isinstance(v, (bool, int, str, tuple)):
            return bool(v)
        if isinstance(v, float):
            return bool(v)
        if isinstance(v, SBool):
            return v.e
        if isinstance(v, SInt):
            return v.e != 0
        if isinstance(v, SStr):
            if any(isinstance(p, str) for p in v.parts):
                return True
            return z3.Length(v.term()) > 0
        if isinstance(v, ListObj):
            if v.is_concrete():
                return len(v.content) > 0
            return z3.Length(v.content) > 0
        if isinstance(v, DictObj):
            return len(v.d) > 0
        if isinstance(v, (ClassRef, FuncRef, BoundMethod, Builtin, ExtRef, Obj, ExcVal, Module)):
            return True
        if hasattr(v, "sym_truthy"):
            return v.sym_truthy         # bool or z3 Bool
        if isinstance(v, ExtVal):
            return self.uf("ext_truthy", self.PV, z3.BoolSort())(self.to_pv(v))
        if isinstance(v, SeqMap):
            return z3.Length(v.seq_term) > 0
        if isinstance(v, Sym):
            tag = self.tag_of(path, v)
            t = v.term
            U = self.U
            if tag == "NoneV":
                return False
            if tag == "BoolV":
                return self.PV.b(t)
            if tag == "IntV":
                return self.PV.i(t) != 0
            if tag == "StrV":
                return z3.Length(self.PV.s(t)) > 0
            if tag == "ListV":
                return z3.Length(self.PV.items(t)) > 0
            if tag == "TupleV":
                return z3.Length(self.PV.titems(t)) > 0
            if tag == "ExtV":
                return self.uf("ext_truthy", self.PV, z3.BoolSort())(t)
            return True
        raise Unsupported(f"truthy: {type(v).__name__}")

    def branch(self, path, cond):
        """Decide a condition on this path (forking if symbolic). Returns python bool."""
        c = cond
        if isinstance(c, bool):
            return c
        c = z3.simplify(c)
        if z3.is_true(c):
            return True
        if z3.is_false(c):
            return False
        k = path.choose([("T", c), ("F", z3.Not(c))])
        return k == 0

    def test(self, path, v):
        return self.branch(path, self.truthy(path, v))

    # ---- exceptions ---------------------------------------------------------------------
    def make_exc(self, path, name, *args):
        qn = "builtins." + name
        return ExcVal(qn, BUILTIN_EXC[name], args)

    def throw(self, path, name, *args):
        raise Raised(self.make_exc(path, name, *args))

    # ---- name resolution ----------------------------------------------------------------
    def desc_to_value(self, desc, module=None):
        k = desc["k"]
        if k == "const":
            return desc["v"]
        if k == "tuple":
            return tuple(self.desc_to_value(x, module) for x in desc["items"])
        if k == "list":
            return ListObj([self.desc_to_value(x, module) for x in desc["items"]], fresh=False)
        if k == "dict":
            d = DictObj()
            for kd, vd in desc["items"]:
                d.d[self.hashable(self.desc_to_value(kd, module))] = self.desc_to_value(vd, module)
            return d
        if k == "module":
            return Module(desc["name"])
        if k == "class":
            if desc["qualname"].startswith("builtins.") or (desc.get("repo") and desc["qualname"] in self.facts.classes):
                init = self.facts.classes.get(desc["qualname"], {}).get("members", {}).get("__init__") if desc.get("repo") else None
                if init is not None and init.get("definer_repo") is False and not str(init.get("definer", "")).startswith("builtins."):
                    # a repository subclass whose constructor is the dependency's (e.g. the custom Django lookup):
                    # constructing it is an external constructor call
                    return ExtRef(desc["qualname"], desc)
                return ClassRef(desc)
            # classes of the dependencies, and repository subclasses of them whose module is not under contract
            # (e.g. the custom Django lookup): external constructors
            return ExtRef(desc["qualname"], desc)
        if k == "func":
            if desc.get("repo"):
                f = self.facts.functions.get(desc["qualname"])
                if f:
                    return FuncRef(f)
                # method referenced through its class
                cq, _, mn = desc["qualname"].rpartition(".")
                m = self.facts.member(cq, mn)
                if m:
                    return FuncRef(m, defcls=cq)
                raise Unsupported(f"repo function without source: {desc['qualname']}")
            qn = desc["qualname"]
            if qn and qn.startswith("builtins."):
                return Builtin(qn.split(".", 1)[1])
            return ExtRef(qn or desc.get("name") or "?", desc)
        if k == "regex":
            return ExtVal("re.compile", (desc["pattern"], desc["flags"]))
        if k in ("callable", "opaque", "set"):
            return ExtRef(desc.get("qualname") or desc.get("type") or "opaque", desc)
        raise Unsupported(f"descriptor {k}")

    def hashable(self, v):
        if isinstance(v, (str, int, bool, type(None), tuple, ClassRef)):
            return v
        if isinstance(v, ExtRef):
            return ("ext", v.qualname)
        raise Unsupported(f"unhashable dict key {type(v).__name__}")

    def lookup_global(self, frame, name):
        env = self.facts.module_env(frame.module)
        if name in env:
            return self.desc_to_value(env[name], frame.module)
        if hasattr(_builtins, name):
            o = getattr(_builtins, name)
            if isinstance(o, type) and issubclass(o, BaseException):
                return ClassRef({"qualname": "builtins." + name, "name": name, "mro": BUILTIN_EXC[name], "repo": False})
            if isinstance(o, type):
                return ClassRef({"qualname": "builtins." + name, "name": name,
                                 "mro": ["builtins." + c.__name__ for c in o.__mro__], "repo": False})
            return Builtin(name)
        raise Raised(self.make_exc(None, "NameError", name))

    # ---- calling ------------------------------------------------------------------------
    def call_value(self, path, fv, args, kwargs, frame=None):
        if hasattr(fv, "sym_call"):
            return fv.sym_call(self, path, args, kwargs)
        if isinstance(fv, BoundMethod):
            if isinstance(fv.func, FuncRef):
                return self.call_function(path, fv.func, [fv.self_val] + list(args), kwargs, self_val=fv.self_val)
            raise Unsupported("bound method of non-function")
        if isinstance(fv, FuncRef):
            return self.call_function(path, fv, list(args), kwargs)
        if isinstance(fv, Builtin):
            from . import pybuiltins
            return pybuiltins.call(self, path, fv, list(args), kwargs, frame)
        if isinstance(fv, ClassRef):
            return self.instantiate(path, fv, list(args), kwargs)
        if isinstance(fv, ExtRef):
            return self.call_external(path, fv, list(args), kwargs)
        if isinstance(fv, Sym):
            tag = self.tag_of(path, fv)
            if tag == "ClsV":
                raise Unsupported("call of symbolic class")
            if tag == "ExtV":
                m = self.ext_models.get("<call>")
                if m:
                    return m(self, path, fv, args, kwargs)
                return ExtVal("<call>", [fv] + list(args), sorted(kwargs.items()))
            self.throw(path, "TypeError", "object is not callable")
        if isinstance(fv, ExtVal):
            m = self.ext_models.get("<call>")
            if m:
                return m(self, path, fv, args, kwargs)
            return ExtVal("<call>", [fv] + list(args), sorted(kwargs.items()))
        if fv is None or isinstance(fv, (str, int, SStr, tuple, ListObj)):
            self.throw(path, "TypeError", "object is not callable")
        raise Unsupported(f"call of {type(fv).__name__}")

    def call_external(self, path, fv, args, kwargs):
        m = self.ext_models.get(fv.qualname)
        if m:
            return m(self, path, args, kwargs)
        mro = fv.desc.get("mro") if fv.desc.get("k") == "class" else None
        return ExtVal(fv.qualname, args, sorted(kwargs.items()), cls_mro=mro)

    def instantiate(self, path, cref, args, kwargs):
        qn = cref.qualname
        facts = self.facts
        if qn.startswith("odata_query.ast."):
            name = cref.name
            if name in facts.kinds:
                cf = facts.ast_classes[name]
                fields = cf["dataclass"]["fields"]
                vals = {}
                if len(args) > len(fields):
                    self.throw(path, "TypeError", f"{name}() takes {len(fields)} positional arguments")
                for f, a in zip(fields, args):
                    vals[f["name"]] = a
                for k, v in kwargs.items():
                    if k in vals or k not in [f["name"] for f in fields]:
                        self.throw(path, "TypeError", f"{name}() got an unexpected keyword argument {k}")
                    vals[k] = v
                for f in fields:
                    if f["name"] not in vals:
                        if f["has_default"]:
                            if name == "Identifier" and f["name"] == "namespace":
                                vals[f["name"]] = ()
                            else:
                                raise Unsupported(f"default of {name}.{f['name']}")
                        else:
                            self.throw(path, "TypeError", f"{name}() missing argument {f['name']}")
                for v in vals.values():
                    if isinstance(v, ListObj):
                        v.published = True
                return Sym(self.U.node(name, *[self.to_pv(vals[f["name"]]) for f in fields]))
            raise Unsupported(f"instantiation of abstract ast class {name}")
        if qn.startswith("builtins."):
            n = qn.split(".", 1)[1]
            if n in BUILTIN_EXC:
                return ExcVal(qn, BUILTIN_EXC[n], args)
            from . import pybuiltins
            return pybuiltins.call(self, path, Builtin(n), args, kwargs, None)
        cf = facts.classes.get(qn)
        if cf is None:
            raise Unsupported(f"instantiate {qn}")
        is_exc = any(m.startswith("builtins.") and m.split(".", 1)[1] in BUILTIN_EXC for m in cf["mro"])
        if is_exc:
            obj = ExcVal(qn, cf["mro"], args)
        else:
            obj = Obj(qn)
        init = cf["members"].get("__init__")
        if init and init.get("definer_repo"):
            self.call_function(path, FuncRef(init, defcls=init["definer"]), [obj] + args, kwargs, self_val=obj,
                               use_contract=False)
        return obj

    def call_function(self, path, fref, args, kwargs, self_val=None, use_contract=True):
        path.calls += 1
        if path.calls > 3000:
            raise Unsupported("call budget exceeded")
        if use_contract:
            c = self.contracts.get(fref.qualname)
            if c is not None:
                r = c(self, path, fref, args, kwargs)
                if r is not NotImplemented:
                    return r
        # an uncontracted function is inlined; inlining it into itself without bound is not a proof technique
        depth = getattr(self, "_inline_depth", None)
        if depth is None:
            depth = self._inline_depth = {}
        qn = fref.qualname
        if depth.get(qn, 0) >= 6:
            raise Unsupported(f"unbounded recursion through {qn}: the function needs a contract or a derived summary")
        depth[qn] = depth.get(qn, 0) + 1
        try:
            return self._call_function_body(path, fref, args, kwargs)
        finally:
            depth[qn] -= 1

    def _call_function_body(self, path, fref, args, kwargs):
        fdef = fref.fdef or self.facts.fdef(fref.fact)
        w = fref.fact.get("wrapper") if fref.fact else None
        if w and w.get("source") and not getattr(fref, "_unwrapped", False):
            # execute the decorator's wrapper, which calls the real function via its closure
            wdef = _parse_cached(self, w["source"])
            inner = FuncRef(fref.fact, fref.closure, fref.defcls)
            inner._unwrapped = True
            clos = {}
            for k, d in (w.get("closure") or {}).items():
                if d.get("k") == "func" and d.get("qualname") == fref.fact["qualname"]:
                    clos[k] = inner
                elif d.get("k") != "unbound":
                    clos[k] = self.desc_to_value(d)
            wf = FuncRef({"qualname": w["qualname"], "module": w.get("module") or fref.fact["module"],
                          "name": wdef.name, "sha256": "w" + fref.fact["sha256"], "source": w["source"]},
                         closure=clos, fdef=wdef)
            return self._exec_def(path, wf, wdef, args, kwargs)
        return self._exec_def(path, fref, fdef, args, kwargs)

    def _exec_def(self, path, fref, fdef, args, kwargs):
        frame = Frame(self, fref, fdef)
        if len(path.ghost.setdefault("stack", [])) > self.max_depth:
            raise Unsupported(f"inlining depth exceeded at {fref.qualname}")
        path.ghost["stack"].append(fref.qualname)
        try:
            self.bind_args(path, frame, fdef.args, args, kwargs)
            isgen = _is_generator(fdef)
            if isgen:
                frame.yields = []
            try:
                if isinstance(fdef, pyast.Lambda):
                    return self.eval(path, frame, fdef.body)
                self.exec_block(path, frame, fdef.body)
            except _Return as r:
                if isgen:
                    return GenVal(frame.yields)
                return r.value
            if isgen:
                return GenVal(frame.yields)
            return None
        finally:
            path.ghost["stack"].pop()

    def bind_args(self, path, frame, a, args, kwargs):
        params = [x.arg for x in a.posonlyargs + a.args]
        ndef = len(a.defaults)
        loc = frame.locals
        args = list(args)
        # a symbolic *args list arrives as a single StarArgs marker
        star = None
        if args and isinstance(args[-1], StarArgs):
            star = args.pop()
        for i, p in enumerate(params):
            if i < len(args):
                loc[p] = args[i]
        consumed = min(len(args), len(params))
        extra = args[consumed:]
        missing = [p for p in params[consumed:]]
        if star is not None:
            # symbolic-length tail: split on its length as far as needed
            seq = star.seq
            need_min = 0
            for p in missing:
                idx = params.index(p)
                has_def = idx >= len(params) - ndef
                if p in kwargs:
                    continue
                if not has_def:
                    need_min += 1
            n_missing = len([p for p in missing if p not in kwargs])
            L = z3.Length(seq)
            if a.vararg is None:
                # length must be between need_min and n_missing
                ok = z3.And(L >= need_min, L <= n_missing)
                if not self.branch(path, ok):
                    self.throw(path, "TypeError", "wrong number of positional arguments")
                # split on exact length
                opts = [(f"len={k}", L == k) for k in range(need_min, n_missing + 1)]
                k = path.choose(opts) + need_min
                for j in range(k):
                    loc[missing[j]] = self.from_pv(seq[j], path)
                    self.note_sub(path, star, loc[missing[j]])
                missing = missing[k:]
            else:
                if extra or missing:
                    if not missing:
                        raise Unsupported("*args after explicit extras")
                    # need at least len(non-default missing) elements
                    if not self.branch(path, L >= need_min):
                        self.throw(path, "TypeError", "missing positional arguments")
                    raise Unsupported("symbolic *args partially bound to named parameters")
                loc[a.vararg.arg] = SymTuple(seq, star)
                extra = []
        elif a.vararg is not None:
            loc[a.vararg.arg] = tuple(extra)
            extra = []
        if extra:
            self.throw(path, "TypeError", f"{frame.fref.qualname}() takes {len(params)} positional arguments but {len(args)} were given")
        kwonly = [x.arg for x in a.kwonlyargs]
        rest_kw = {}
        for k, v in kwargs.items():
            if k in params:
                if k in loc:
                    self.throw(path, "TypeError", f"multiple values for argument {k}")
                loc[k] = v
            elif k in kwonly:
                loc[k] = v
            elif a.kwarg is not None:
                rest_kw[k] = v
            else:
                self.throw(path, "TypeError", f"unexpected keyword argument {k}")
        if a.kwarg is not None:
            loc[a.kwarg.arg] = DictObj(rest_kw)
        for i, p in enumerate(params):
            if p not in loc:
                di = i - (len(params) - ndef)
                if di >= 0:
                    loc[p] = self.eval(path, frame, a.defaults[di])
                else:
                    self.throw(path, "TypeError", f"missing required positional argument {p}")
        for x, d in zip(a.kwonlyargs, a.kw_defaults):
            if x.arg not in loc:
                if d is None:
                    self.throw(path, "TypeError", f"missing keyword-only argument {x.arg}")
                loc[x.arg] = self.eval(path, frame, d)

    def note_sub(self, path, parent, child):
        pass

    # ---- statements ---------------------------------------------------------------------
    def exec_block(self, path, frame, stmts):
        for s in stmts:
            self.exec_stmt(path, frame, s)

    def exec_stmt(self, path, frame, s):
        m = getattr(self, "st_" + type(s).__name__, None)
        if m is None:
            raise Unsupported(f"statement {type(s).__name__} in {frame.fref.qualname}")
        return m(path, frame, s)

    def st_Expr(self, path, frame, s):
        if isinstance(s.value, pyast.Constant):
            return  # docstring
        if isinstance(s.value, pyast.Call):
            name = _dotted(s.value.func)
            if name in self.drop_calls:
                return
        self.eval(path, frame, s.value)

    def st_Pass(self, path, frame, s):
        return

    def st_ImportFrom(self, path, frame, s):
        """function-local `from m import a [as b]`: names of extracted repository modules resolve through the module's
        environment; every other name is an external reference (uninterpreted)"""
        mod = s.module or ""
        if s.level:
            base = frame.module.split(".")
            base = base[:len(base) - s.level]
            mod = ".".join(base + ([mod] if mod else []))
        for a in s.names:
            if a.name == "*":
                raise Unsupported("import *")
            try:
                env = self.facts.module_env(mod)
            except Exception:
                env = None
            if env and a.name in env:
                v = self.desc_to_value(env[a.name], mod)
            elif mod.startswith("odata_query"):
                raise Unsupported(f"import of {mod}.{a.name}: module not extracted")
            else:
                v = ExtRef(f"{mod}.{a.name}")
            frame.locals[a.asname or a.name] = v

    def st_Import(self, path, frame, s):
        for a in s.names:
            if a.name.startswith("odata_query"):
                raise Unsupported(f"import of {a.name} inside a function")
            frame.locals[a.asname or a.name.split(".")[0]] = Module(a.name if a.asname else a.name.split(".")[0])

    def st_Return(self, path, frame, s):
        raise _Return(self.eval(path, frame, s.value) if s.value is not None else None)

    def st_Assign(self, path, frame, s):
        v = self.eval(path, frame, s.value)
        for t in s.targets:
            self.assign(path, frame, t, v)

    def st_AnnAssign(self, path, frame, s):
        if s.value is not None:
            self.assign(path, frame, s.target, self.eval(path, frame, s.value))

    def st_AugAssign(self, path, frame, s):
        cur = self.eval(path, frame, _load(s.target))
        rhs = self.eval(path, frame, s.value)
        self.assign(path, frame, s.target, self.binop(path, s.op, cur, rhs))

    def assign(self, path, frame, t, v):
        if isinstance(t, pyast.Name):
            frame.locals[t.id] = v
            return
        if isinstance(t, (pyast.Tuple, pyast.List)):
            items = self.unpack(path, v, t.elts)
            for e, x in zip(t.elts, items):
                if isinstance(e, pyast.Starred):
                    self.assign(path, frame, e.value, x)
                else:
                    self.assign(path, frame, e, x)
            return
        if isinstance(t, pyast.Attribute):
            o = self.eval(path, frame, t.value)
            return self.setattr(path, o, t.attr, v)
        if isinstance(t, pyast.Subscript):
            o = self.eval(path, frame, t.value)
            if isinstance(t.slice, pyast.Slice):
                # slice assignment on a list of concrete length with concrete bounds
                if t.slice.step is not None or not (isinstance(o, ListObj) and o.is_concrete()):
                    raise Unsupported("slice assignment on a symbolic sequence")
                lo = self.eval(path, frame, t.slice.lower) if t.slice.lower is not None else None
                hi = self.eval(path, frame, t.slice.upper) if t.slice.upper is not None else None
                items = self.iter_concrete(path, v)
                if items is None or not all(x is None or (isinstance(x, int) and not isinstance(x, bool)) for x in (lo, hi)):
                    raise Unsupported("slice assignment with symbolic bounds or value")
                self.own_check(path, o, "slice assignment")
                o.content[lo:hi] = list(items)
                return
            k = self.eval(path, frame, t.slice)
            return self.setitem(path, o, k, v)
        raise Unsupported(f"assignment target {type(t).__name__}")

    def unpack(self, path, v, elts):
        nstar = [i for i, e in enumerate(elts) if isinstance(e, pyast.Starred)]
        items = self.iter_concrete(path, v)
        if items is None:
            if not nstar:
                # a, b = <sequence of symbolic length>: ValueError unless it has exactly len(targets) elements
                seq = self.symbolic_seq(path, v)
                if not self.branch(path, z3.Length(seq) == len(elts)):
                    self.throw(path, "ValueError", "wrong number of values to unpack")
                return [self.from_pv(z3.simplify(seq[j]), path) for j in range(len(elts))]
            if len(nstar) == 1:
                seq = self.symbolic_seq(path, v)
                L = z3.Length(seq)
                i = nstar[0]
                after = len(elts) - i - 1
                if not self.branch(path, L >= len(elts) - 1):
                    self.throw(path, "ValueError", "not enough values to unpack")
                head = [self.from_pv(z3.simplify(seq[j]), path) for j in range(i)]
                tail = [self.from_pv(z3.simplify(seq[L - after + j]), path) for j in range(after)]
                mid = ListObj(z3.simplify(z3.SubSeq(seq, i, L - i - after)))
                return head + [mid] + tail
            raise Unsupported("unpacking a symbolic-length sequence")
        if not nstar:
            if len(items) != len(elts):
                self.throw(path, "ValueError", "wrong number of values to unpack")
            return items
        i = nstar[0]
        after = len(elts) - i - 1
        if len(items) < len(elts) - 1:
            self.throw(path, "ValueError", "not enough values to unpack")
        mid = items[i:len(items) - after]
        return items[:i] + [ListObj(list(mid))] + items[len(items) - after:]

    def setattr(self, path, o, name, v):
        if hasattr(o, "sym_setattr"):
            return o.sym_setattr(self, path, name, v)
        if isinstance(o, (Obj, ExcVal)):
            o.attrs[name] = v
            path.ghost.setdefault("writes", []).append(("attr", o, name))
            return
        h = self.attr_models.get(("<setattr>",))
        if h:
            return h(self, path, o, name, v)
        if isinstance(o, Sym):
            tag = self.tag_of(path, o)
            if tag.startswith("N_"):
                # frozen dataclass
                raise Raised(ExcVal("dataclasses.FrozenInstanceError",
                                    ["dataclasses.FrozenInstanceError"] + BUILTIN_EXC["AttributeError"], (name,)))
            self.throw(path, "AttributeError", name)
        if isinstance(o, ExtVal):
            path.ghost.setdefault("writes", []).append(("extattr", o, name))
            return
        raise Unsupported(f"setattr on {type(o).__name__}")

    def setitem(self, path, o, k, v):
        if isinstance(o, DictObj):
            o.d[self.hashable(self.concrete_key(path, k))] = v
            return
        if isinstance(o, ListObj) and o.is_concrete() and isinstance(k, int):
            self.own_check(path, o, "setitem")
            if not -len(o.content) <= k < len(o.content):
                self.throw(path, "IndexError", "list assignment index out of range")
            o.content[k] = v
            return
        if isinstance(o, Sym) and self.tag_of(path, o) == "ListV":
            o = ListObj(self.PV.items(o.term), fresh=False)
        if isinstance(o, ListObj) and isinstance(k, (int, SInt)):
            # element store into a list of symbolic length: the list afterwards is some list of the same length
            self.own_check(path, o, "setitem")
            seq = self.seq_term(o)
            L = z3.Length(seq)
            ke = k.e if isinstance(k, SInt) else z3.IntVal(k)
            if not self.branch(path, z3.And(ke >= -L, ke < L)):
                self.throw(path, "IndexError", "list assignment index out of range")
            idx = z3.If(ke >= 0, ke, L + ke)
            new = self.U.fresh("stored", self.U.Seq)
            j = z3.FreshConst(z3.IntSort(), "j")
            path.assume_fact(z3.And(z3.Length(new) == L, new[idx] == self.to_pv(v)))
            o.content = new
            o.store_note = (seq, idx)
            return
        raise Unsupported(f"setitem on {type(o).__name__}")

    def concrete_key(self, path, k):
        if isinstance(k, Sym) and path is not None and self.tag_of(path, k) == "StrV":
            k = self.from_pv(self.U.strv(self.PV.s(k.term)))
        if isinstance(k, SStr):
            # dictionary keyed by a symbolic string: keep the term as key identity
            return ("sstr", k.term().get_id(), k)
        return k

    def own_check(self, path, lst, what):
        """Ownership obligation (DESIGN 4.6): a mutated list must be fresh and unpublished."""
        ok = lst.fresh and not lst.published
        path.oblige("own.fresh", z3.BoolVal(bool(ok)), {"what": what, "list": lst.id})

    def st_If(self, path, frame, s):
        if self.test(path, self.eval(path, frame, s.test)):
            self.exec_block(path, frame, s.body)
        else:
            self.exec_block(path, frame, s.orelse)

    def st_Raise(self, path, frame, s):
        if s.exc is None:
            cur = frame.handling[-1] if frame.handling else None
            if cur is None:
                self.throw(path, "RuntimeError", "No active exception to reraise")
            raise Raised(cur)
        e = self.eval(path, frame, s.exc)
        if isinstance(e, ClassRef):
            e = self.instantiate(path, e, [], {})
        if not isinstance(e, ExcVal):
            self.throw(path, "TypeError", "exceptions must derive from BaseException")
        raise Raised(e)

    def st_Try(self, path, frame, s):
        try:
            try:
                self.exec_block(path, frame, s.body)
            except Raised as r:
                for h in s.handlers:
                    if h.type is None or self.exc_matches(path, frame, r.exc, h.type):
                        if h.name:
                            frame.locals[h.name] = r.exc
                        frame.handling.append(r.exc)
                        try:
                            self.exec_block(path, frame, h.body)
                        finally:
                            frame.handling.pop()
                        break
                else:
                    raise
            else:
                self.exec_block(path, frame, s.orelse)
        finally:
            if s.finalbody:
                self.exec_block(path, frame, s.finalbody)

    def exc_matches(self, path, frame, exc, type_expr):
        t = self.eval(path, frame, type_expr)
        ts = t if isinstance(t, tuple) else (t,)
        for c in ts:
            if isinstance(c, ClassRef):
                if c.qualname in exc.mro:
                    return True
            elif isinstance(c, ExtRef):
                if c.qualname in exc.mro:
                    return True
            else:
                raise Unsupported("except clause with non-class")
        return False

    def st_For(self, path, frame, s):
        it = self.eval(path, frame, s.iter)
        items = self.iter_concrete(path, it)
        if items is None:
            from .speclib import SeqLoopInvariant, InvariantMismatch
            inv = self.loop_invariants.get((frame.fref.qualname, frame.loop_ordinal(s)))
            if inv is not None:
                try:
                    return inv.run(self, path, frame, s, it)
                except InvariantMismatch as m:
                    path.notes.append(("invariant-mismatch", str(m)))
            if inv is not None or isinstance(it, EnumIter) or self.havoc_unknown_loops:
                # no usable invariant for this loop: the trivial invariant still checks the safety and ownership
                # obligations of an arbitrary iteration; everything the loop modifies is unknown afterwards
                return SeqLoopInvariant(lambda *a: z3.BoolVal(True)).run(self, path, frame, s, it)
            items = self.split_length(path, it)
        for x in items:
            self.assign(path, frame, s.target, x)
            try:
                self.exec_block(path, frame, s.body)
            except _Break:
                break
            except _Continue:
                continue
        else:
            self.exec_block(path, frame, s.orelse)

    def st_While(self, path, frame, s):
        """`while` without an invariant: executed by unrolling.  Every iteration's test is a branch; a path that still loops
        after the bound is Unsupported (undecided), never cut off silently."""
        bound = 12
        for _ in range(bound):
            if not self.test(path, self.eval(path, frame, s.test)):
                self.exec_block(path, frame, s.orelse)
                return
            try:
                self.exec_block(path, frame, s.body)
            except _Break:
                return
            except _Continue:
                continue
        raise Unsupported(f"while loop still running after {bound} unrolled iterations (no invariant given)")

    def st_Break(self, path, frame, s):
        raise _Break()

    def st_Continue(self, path, frame, s):
        raise _Continue()

    def st_FunctionDef(self, path, frame, s):
        fact = {"qualname": frame.fref.qualname + ".<locals>." + s.name, "module": frame.module,
                "name": s.name, "sha256": f"nested:{id(s)}", "source": ""}
        frame.locals[s.name] = FuncRef(fact, closure=frame.locals, fdef=s)

    def st_Assert(self, path, frame, s):
        if not self.test(path, self.eval(path, frame, s.test)):
            self.throw(path, "AssertionError")

    # ---- iteration ----------------------------------------------------------------------
    def iter_concrete(self, path, v):
        """List of element values if the length is concrete on this path, else None."""
        if isinstance(v, tuple):
            return list(v)
        if isinstance(v, ListObj):
            if v.is_concrete():
                return list(v.content)
            el = seq_elems_or_none(z3.simplify(v.content))
            if el is not None:
                return [self.from_pv(x, path) for x in el]
            return self.try_fix_length(path, v.content)
        if isinstance(v, SymTuple):
            return self.try_fix_length(path, v.seq)
        if isinstance(v, DictObj):
            return list(v.d.keys())
        if isinstance(v, str):
            return list(v)
        if isinstance(v, Sym):
            tag = self.tag_of(path, v)
            if tag == "ListV":
                return self.iter_concrete(path, ListObj(self.PV.items(v.term), fresh=False))
            if tag == "TupleV":
                el = seq_elems_or_none(z3.simplify(self.PV.titems(v.term)))
                if el is not None:
                    return [self.from_pv(x, path) for x in el]
                return self.try_fix_length(path, self.PV.titems(v.term))
            if tag in ("NoneV", "IntV", "BoolV") or tag.startswith("N_"):
                self.throw(path, "TypeError", "object is not iterable")
            raise Unsupported(f"iteration over {tag}")
        if isinstance(v, GenVal):
            return v.items
        if isinstance(v, (SeqMap, EnumIter)):
            return None
        if v is None or isinstance(v, (int, bool)):
            self.throw(path, "TypeError", "object is not iterable")
        raise Unsupported(f"iteration over {type(v).__name__}")

    def try_fix_length(self, path, seq):
        seq = z3.simplify(seq)
        el = seq_elems_or_none(seq)
        if el is not None:
            return [self.from_pv(x, path) for x in el]
        key = ("len", seq.get_id())
        if key in path.tags:
            n = path.tags[key]
            return [self.from_pv(seq[i], path) for i in range(n)]
        def compute():
            s = path.solver
            self.stats["feas_checks"] += 1
            if s.check() != z3.sat:
                return None
            n = s.model().eval(z3.Length(seq), model_completion=True)
            if not z3.is_int_value(n):
                return None
            return n.as_long()
        n = path.query(compute)
        if n is None or n > 8:
            return None
        if path.entails(z3.Length(seq) == n):
            path.tags[key] = n
            return [self.from_pv(seq[i], path) for i in range(n)]
        return None

    def split_length(self, path, v):
        """Case split on the length of a symbolic sequence (0..len_split); longer => Unsupported."""
        seq = self.symbolic_seq(path, v)
        L = z3.Length(seq)
        K = self.len_split
        opts = [(f"len={k}", L == k) for k in range(K + 1)] + [("len>K", L > K)]
        k = path.choose(opts)
        if k > K:
            raise Unsupported(f"loop over a sequence longer than {K} without an invariant")
        path.tags[("len", z3.simplify(seq).get_id())] = k
        return [self.from_pv(seq[i], path) for i in range(k)]

    def symbolic_seq(self, path, v):
        if isinstance(v, ListObj):
            return self.seq_term(v)
        if isinstance(v, SymTuple):
            return v.seq
        if isinstance(v, Sym):
            tag = self.tag_of(path, v)
            if tag == "ListV":
                return self.PV.items(v.term)
            if tag == "TupleV":
                return self.PV.titems(v.term)
        if isinstance(v, tuple):
            return self.seq_term(v)
        raise Unsupported(f"symbolic_seq of {type(v).__name__}")

    # ---- expressions --------------------------------------------------------------------
    def eval(self, path, frame, e):
        m = getattr(self, "ex_" + type(e).__name__, None)
        if m is None:
            raise Unsupported(f"expression {type(e).__name__} in {frame.fref.qualname}")
        return m(path, frame, e)

    def ex_Constant(self, path, frame, e):
        v = e.value
        if v is None or isinstance(v, (bool, int, str, float)):
            return v
        if v is Ellipsis:
            return ExtRef("builtins.Ellipsis")
        raise Unsupported(f"constant {type(v).__name__}")

    def ex_Name(self, path, frame, e):
        return frame.lookup(path, e.id)

    def ex_Attribute(self, path, frame, e):
        chain = _dotted(e)
        if chain:
            root = chain.split(".", 1)[0]
            if not frame.is_local(root):
                d = self.facts.resolve_chain(frame.module, chain)
                if d is not None:
                    return self.desc_to_value(d, frame.module)
        o = self.eval(path, frame, e.value)
        return self.getattr(path, o, e.attr, frame)

    def ex_JoinedStr(self, path, frame, e):
        parts = []
        for v in e.values:
            if isinstance(v, pyast.Constant):
                parts.append(v.value)
            elif isinstance(v, pyast.FormattedValue):
                if v.format_spec is not None:
                    raise Unsupported("f-string format spec")
                x = self.eval(path, frame, v.value)
                if v.conversion in (114, 97):       # !r / !a : repr() of the value, an opaque string
                    try:
                        pv = self.to_pv(x)
                    except Unsupported:
                        pv = self.U.fresh("reprarg")
                    t = self.uf("py_repr", self.PV, z3.StringSort())(pv)
                    parts.append(Atom(t, ("py_repr", pv)))
                else:
                    parts.extend(self.str_parts(path, self.to_str(path, x)))
            else:
                raise Unsupported("f-string part")
        return mk_str(parts)

    def percent_format(self, path, fmt, arg):
        """`fmt % arg` for a constant format with %s / %d / %r / %% conversions and no flags"""
        import re as _re
        args = list(arg) if isinstance(arg, tuple) else [arg]
        parts, pos, used = [], 0, 0
        for m in _re.finditer(r"%(.)", fmt):
            parts.append(fmt[pos:m.start()])
            pos = m.end()
            cv = m.group(1)
            if cv == "%":
                parts.append("%")
                continue
            if cv not in "sdr":
                raise Unsupported(f"% conversion {cv!r}")
            if used >= len(args):
                self.throw(path, "TypeError", "not enough arguments for format string")
            x = args[used]
            used += 1
            if cv == "r":
                try:
                    pv = self.to_pv(x)
                except Unsupported:
                    pv = self.U.fresh("reprarg")
                parts.append(Atom(self.uf("py_repr", self.PV, z3.StringSort())(pv), ("py_repr", pv)))
            else:
                parts.extend(self.str_parts(path, self.to_str(path, x)))
        parts.append(fmt[pos:])
        if used != len(args):
            self.throw(path, "TypeError", "not all arguments converted during string formatting")
        return mk_str([p for p in parts if not (isinstance(p, str) and p == "")])

    def as_sstr(self, path, v):
        """str value as str | SStr (a Sym known to be a string is opened up)"""
        if isinstance(v, Sym):
            if self.tag_of(path, v) != "StrV":
                self.throw(path, "TypeError", "expected string or bytes-like object")
            return self.from_pv(self.U.strv(self.PV.s(v.term)))
        return v

    def str_parts(self, path, s):
        if isinstance(s, str):
            return [s]
        if isinstance(s, SStr):
            return list(s.parts)
        raise Unsupported(f"str_parts {type(s).__name__}")

    def to_str(self, path, x):
        """str(x) / format(x, '')"""
        if isinstance(x, (str, SStr)):
            return x
        if x is None or isinstance(x, (bool, int, float)):
            return str(x)
        if isinstance(x, Sym):
            tag = self.tag_of(path, x)
            if tag == "StrV":
                return self.from_pv(self.U.strv(self.PV.s(x.term)))
            if tag == "NoneV":
                return "None"
            t = self.uf("py_str", self.PV, z3.StringSort())(x.term)
            return SStr([Atom(t, ("py_str", x.term, tag))])
        if isinstance(x, (ExtVal, ExtRef, Obj, ListObj, tuple, ExcVal, ClassRef, SInt, SBool)):
            try:
                pv = self.to_pv(x)
            except Unsupported:
                pv = self.U.fresh("strarg")
            t = self.uf("py_str", self.PV, z3.StringSort())(pv)
            return SStr([Atom(t, ("py_str", pv, type(x).__name__))])
        if hasattr(x, "sym_mro"):
            # str() of a foreign object (e.g. a sly Token): some string, assumed not to raise
            t = self.U.fresh("objstr", z3.StringSort())
            return SStr([Atom(t, ("py_str_obj", type(x).__name__))])
        raise Unsupported(f"str() of {type(x).__name__}")

    def ex_Tuple(self, path, frame, e):
        out = []
        pieces = []         # z3 Seq pieces, used when a starred operand has symbolic length
        symbolic = False
        for x in e.elts:
            if isinstance(x, pyast.Starred):
                v = self.eval(path, frame, x.value)
                items = self.iter_concrete(path, v)
                if items is None:
                    symbolic = True
                    pieces.append(self.symbolic_seq(path, v) if not isinstance(v, SymTuple) else v.seq)
                else:
                    out.extend(items)
                    pieces.extend(z3.Unit(self.to_pv(i)) for i in items)
            else:
                v = self.eval(path, frame, x)
                out.append(v)
                try:
                    pieces.append(z3.Unit(self.to_pv(v)))
                except Unsupported:
                    pieces.append(None)
        if not symbolic:
            return tuple(out)
        if any(p is None for p in pieces):
            raise Unsupported("tuple display mixing symbolic-length and non-term elements")
        return SymTuple(z3.Concat(*pieces) if len(pieces) > 1 else pieces[0])

    def ex_List(self, path, frame, e):
        out = []
        for x in e.elts:
            if isinstance(x, pyast.Starred):
                items = self.iter_concrete(path, self.eval(path, frame, x.value))
                if items is None:
                    raise Unsupported("starred symbolic sequence in list display")
                out.extend(items)
            else:
                out.append(self.eval(path, frame, x))
        return ListObj(out)

    def ex_Dict(self, path, frame, e):
        d = DictObj()
        for k, v in zip(e.keys, e.values):
            if k is None:
                src = self.eval(path, frame, v)
                if not isinstance(src, DictObj):
                    raise Unsupported("** of non-dict in dict display")
                d.d.update(src.d)
            else:
                d.d[self.hashable(self.concrete_key(path, self.eval(path, frame, k)))] = self.eval(path, frame, v)
        return d

    def ex_IfExp(self, path, frame, e):
        if self.test(path, self.eval(path, frame, e.test)):
            return self.eval(path, frame, e.body)
        return self.eval(path, frame, e.orelse)

    def ex_BoolOp(self, path, frame, e):
        isand = isinstance(e.op, pyast.And)
        v = None
        for i, x in enumerate(e.values):
            v = self.eval(path, frame, x)
            if i == len(e.values) - 1:
                return v
            t = self.test(path, v)
            if isand and not t:
                return v
            if not isand and t:
                return v
        return v

    def ex_UnaryOp(self, path, frame, e):
        v = self.eval(path, frame, e.operand)
        if isinstance(e.op, pyast.Not):
            t = self.truthy(path, v)
            if isinstance(t, bool):
                return not t
            return SBool(z3.simplify(z3.Not(t)))
        if isinstance(e.op, pyast.USub):
            if isinstance(v, (int, float)):
                return -v
            if isinstance(v, SInt):
                return SInt(-v.e)
            if isinstance(v, (ExtVal, Sym)):
                return self.ext_op(path, "operator.neg", [v])
        if isinstance(e.op, pyast.Invert):
            if isinstance(v, (ExtVal, Sym)):
                return self.ext_op(path, "operator.invert", [v])
        raise Unsupported(f"unary {type(e.op).__name__} on {type(v).__name__}")

    def ext_op(self, path, name, args):
        return self.call_external(path, ExtRef(name, {"k": "func"}), list(args), {})

    def ex_BinOp(self, path, frame, e):
        l = self.eval(path, frame, e.left)
        r = self.eval(path, frame, e.right)
        return self.binop(path, e.op, l, r)

    def binop(self, path, op, l, r):
        opn = type(op).__name__
        if isinstance(l, (int, float)) and not isinstance(l, bool) and isinstance(r, (int, float)) and not isinstance(r, bool):
            try:
                return {"Add": lambda: l + r, "Sub": lambda: l - r, "Mult": lambda: l * r,
                        "Div": lambda: l / r, "Mod": lambda: l % r, "FloorDiv": lambda: l // r}[opn]()
            except KeyError:
                raise Unsupported(f"binop {opn}")
            except ZeroDivisionError:
                self.throw(path, "ZeroDivisionError")
        if opn == "Add":
            if isinstance(l, (str, SStr)) and isinstance(r, (str, SStr)):
                return mk_str(self.str_parts(path, l) + self.str_parts(path, r))
            if isinstance(l, tuple) and isinstance(r, tuple):
                return l + r
            if isinstance(l, ListObj) and isinstance(r, ListObj):
                if l.is_concrete() and r.is_concrete():
                    return ListObj(l.content + r.content)
                return ListObj(z3.Concat(self.seq_term(l), self.seq_term(r)))
            if isinstance(l, (str, SStr)) or isinstance(r, (str, SStr)):
                other = r if isinstance(l, (str, SStr)) else l
                if isinstance(other, Sym):
                    tag = self.tag_of(path, other)
                    if tag == "StrV":
                        o = self.from_pv(self.U.strv(self.PV.s(other.term)))
                        return self.binop(path, op, o, r) if other is l else self.binop(path, op, l, o)
                    self.throw(path, "TypeError", f"can only concatenate str (not {tag}) to str")
                if other is None or isinstance(other, (int, tuple, ListObj, ClassRef, Obj)):
                    self.throw(path, "TypeError", "can only concatenate str to str")
            if isinstance(l, Sym) and isinstance(r, (tuple, ListObj, Sym)) or isinstance(r, Sym) and isinstance(l, (tuple, ListObj)):
                return self.sym_concat(path, l, r)
        if opn == "Mult" and (isinstance(l, (tuple, str)) and isinstance(r, int) and not isinstance(r, bool)
                              or isinstance(r, (tuple, str)) and isinstance(l, int) and not isinstance(l, bool)):
            return l * r                # repetition of a concrete tuple / string
        if isinstance(l, (SInt, int)) and isinstance(r, (SInt, int)) and not isinstance(l, bool) and not isinstance(r, bool):
            a = l.e if isinstance(l, SInt) else z3.IntVal(l)
            b = r.e if isinstance(r, SInt) else z3.IntVal(r)
            if opn == "Add":
                return SInt(a + b)
            if opn == "Sub":
                return SInt(a - b)
            if opn == "Mult":
                return SInt(a * b)
        if isinstance(l, (ExtVal, ExtRef)) or isinstance(r, (ExtVal, ExtRef)) or \
                (isinstance(l, Sym) and self._maybe_ext(path, l)) or (isinstance(r, Sym) and self._maybe_ext(path, r)):
            name = {"Add": "operator.add", "Sub": "operator.sub", "Mult": "operator.mul", "Div": "operator.truediv",
                    "Mod": "operator.mod", "BitAnd": "operator.and_", "BitOr": "operator.or_"}.get(opn)
            if name:
                return self.ext_op(path, name, [l, r])
        if opn == "Mod" and isinstance(l, str):
            return self.percent_format(path, l, r)
        if opn == "Mod" and isinstance(l, SStr):
            raise Unsupported("% formatting with a symbolic format string")
        raise Unsupported(f"binop {opn} on {type(l).__name__}, {type(r).__name__}")

    def _maybe_ext(self, path, s):
        """Is this Sym an external object on this path? (forks only on that question)"""
        t = z3.simplify(s.term)
        n = self.U.ctor_name(t)
        if n:
            return n == "ExtV"
        key = t.get_id()
        if key in path.tags:
            return path.tags[key] == "ExtV"
        return self.branch(path, self.U.is_tag("ExtV", t))

    def sym_concat(self, path, l, r):
        def as_seq(v):
            if isinstance(v, tuple):
                return "TupleV", self.seq_term(v)
            if isinstance(v, ListObj):
                return "ListV", self.seq_term(v)
            tag = self.tag_of(path, v)
            if tag == "TupleV":
                return tag, self.PV.titems(v.term)
            if tag == "ListV":
                return tag, self.PV.items(v.term)
            self.throw(path, "TypeError", f"unsupported operand type(s) for +: {tag}")
        lt, ls = as_seq(l)
        rt, rs = as_seq(r)
        if lt != rt:
            self.throw(path, "TypeError", "can only concatenate same sequence types")
        seq = z3.simplify(z3.Concat(ls, rs))
        if lt == "TupleV":
            return self.from_pv(self.U.tuplev(seq))
        return ListObj(seq)

    def ex_Compare(self, path, frame, e):
        left = self.eval(path, frame, e.left)
        result = None
        for op, rx in zip(e.ops, e.comparators):
            right = self.eval(path, frame, rx)
            c = self.compare(path, op, left, right)
            if len(e.ops) == 1:
                return c
            t = self.test(path, c)
            if not t:
                return False
            result = True
            left = right
        return result

    def compare(self, path, op, l, r):
        opn = type(op).__name__
        if opn in ("Eq", "NotEq"):
            eq = self.py_eq(path, l, r)
            if opn == "Eq":
                return eq
            return (not eq) if isinstance(eq, bool) else SBool(z3.simplify(z3.Not(eq.e)))
        if opn in ("Is", "IsNot"):
            res = self.py_is(path, l, r)
            if opn == "Is":
                return res
            return (not res) if isinstance(res, bool) else SBool(z3.simplify(z3.Not(res.e)))
        if opn in ("In", "NotIn"):
            res = self.py_in(path, l, r)
            if opn == "In":
                return res
            return (not res) if isinstance(res, bool) else SBool(z3.simplify(z3.Not(res.e)))
        if opn in ("Lt", "LtE", "Gt", "GtE"):
            if isinstance(l, (int, float)) and isinstance(r, (int, float)):
                return {"Lt": l < r, "LtE": l <= r, "Gt": l > r, "GtE": l >= r}[opn]
            if isinstance(l, (SInt, int)) and isinstance(r, (SInt, int)):
                a = l.e if isinstance(l, SInt) else z3.IntVal(l)
                b = r.e if isinstance(r, SInt) else z3.IntVal(r)
                return SBool(z3.simplify({"Lt": a < b, "LtE": a <= b, "Gt": a > b, "GtE": a >= b}[opn]))
            if isinstance(l, (ExtVal, Sym)) or isinstance(r, (ExtVal, Sym)):
                name = {"Lt": "operator.lt", "LtE": "operator.le", "Gt": "operator.gt", "GtE": "operator.ge"}[opn]
                return self.ext_op(path, name, [l, r])
        raise Unsupported(f"compare {opn} on {type(l).__name__}, {type(r).__name__}")

    def py_eq(self, path, l, r):
        """Python == on values that have structural equality in the encoding."""
        simple = (type(None), bool, int, str, float)
        if isinstance(l, simple) and isinstance(r, simple):
            return l == r
        if isinstance(l, ClassRef) or isinstance(r, ClassRef):
            if isinstance(l, ClassRef) and isinstance(r, ClassRef):
                return l.qualname == r.qualname
            if isinstance(l, ExtRef) or isinstance(r, ExtRef):
                return False
        if isinstance(l, ExtRef) and isinstance(r, ExtRef):
            return l.qualname == r.qualname
        if isinstance(l, (ExtVal,)) or isinstance(r, (ExtVal,)):
            # == on external objects is overloaded (SQLAlchemy builds expressions)
            return self.ext_op(path, "operator.eq", [l, r])
        if isinstance(l, Sym) and self._maybe_ext(path, l) or isinstance(r, Sym) and self._maybe_ext(path, r):
            return self.ext_op(path, "operator.eq", [l, r])
        try:
            a, b = self.to_pv(l), self.to_pv(r)
        except Unsupported:
            raise Unsupported(f"== on {type(l).__name__}, {type(r).__name__}")
        c = z3.simplify(a == b)
        if z3.is_true(c):
            return True
        if z3.is_false(c):
            return False
        return SBool(c)

    def py_is(self, path, l, r):
        if r is None or l is None:
            other = l if r is None else r
            if other is None:
                return True
            if isinstance(other, Sym):
                c = z3.simplify(self.U.is_tag("NoneV", other.term))
                if z3.is_true(c):
                    return True
                if z3.is_false(c):
                    return False
                return SBool(c)
            return False
        if isinstance(l, ClassRef) or isinstance(r, ClassRef):
            if isinstance(l, Sym) or isinstance(r, Sym):
                return self.py_eq(path, l, r)
            return isinstance(l, ClassRef) and isinstance(r, ClassRef) and l.qualname == r.qualname
        if isinstance(l, bool) or isinstance(r, bool):
            return self.py_eq(path, l, r)
        if isinstance(l, (Sym, ListObj, tuple)) and isinstance(r, (Sym, ListObj, tuple)):
            # object identity is not part of the value model: syntactically the same value => identical; otherwise
            # an unknown boolean that implies equality (sound over-approximation of `is`)
            if isinstance(l, ListObj) and isinstance(r, ListObj):
                if l is r:
                    return True
                if l.fresh != r.fresh or (l.fresh and r.fresh):
                    return False
            try:
                a, b = self.to_pv(l), self.to_pv(r)
            except Unsupported:
                raise Unsupported(f"`is` on {type(l).__name__}, {type(r).__name__}")
            if z3.simplify(a).eq(z3.simplify(b)) and not isinstance(l, ListObj):
                return True
            ident = z3.FreshConst(z3.BoolSort(), "is")
            path.assume_fact(z3.Implies(ident, a == b))
            return SBool(ident)
        if isinstance(l, (str, SStr, int, SInt)) or isinstance(r, (str, SStr, int, SInt)):
            raise Unsupported("`is` on str/int values")
        return l is r

    def py_in(self, path, x, c):
        if isinstance(c, GhostMap):
            return c.contains(self, path, x)
        if isinstance(c, tuple) or (isinstance(c, ListObj) and c.is_concrete()):
            items = list(c) if isinstance(c, tuple) else c.content
            conds = []
            for it in items:
                eq = self.py_eq(path, x, it)
                if eq is True:
                    return True
                if eq is False:
                    continue
                if not isinstance(eq, SBool):
                    raise Unsupported("`in` with overloaded ==")
                conds.append(eq.e)
            if not conds:
                return False
            return SBool(z3.simplify(z3.Or(*conds)))
        if isinstance(c, ListObj) and not c.is_concrete():
            # membership in a list of symbolic length: x is one of its elements
            try:
                return SBool(z3.Contains(c.content, z3.Unit(self.to_pv(x))))
            except Unsupported:
                pass
        if isinstance(c, DictObj):
            if isinstance(x, (SStr, Sym)):
                keys = list(c.d.keys())
                h = self.ext_models.get("<dict_in>")
                if h:
                    return h(self, path, x, c)
                conds = []
                for k in keys:
                    if isinstance(k, tuple) and k and k[0] == "sstr":
                        eq = self.py_eq(path, x, k[2])
                    else:
                        eq = self.py_eq(path, x, k)
                    if eq is True:
                        return True
                    if eq is False:
                        continue
                    conds.append(eq.e)
                if not conds:
                    return False
                return SBool(z3.simplify(z3.Or(*conds)))
            return self.hashable(x) in c.d
        if isinstance(c, Sym) and isinstance(x, (str, SStr)) and self.tag_of(path, c) == "StrV":
            c = self.as_sstr(path, c)           # substring test on a value known to be a string
        if isinstance(c, (str, SStr)) and isinstance(x, (str, SStr)):
            if isinstance(c, str) and isinstance(x, str):
                return x in c
            ct = c.term() if isinstance(c, SStr) else z3.StringVal(c)
            xt = x.term() if isinstance(x, SStr) else z3.StringVal(x)
            return SBool(z3.Contains(ct, xt))
        h = self.ext_models.get("<in>")
        if h:
            r = h(self, path, x, c)
            if r is not NotImplemented:
                return r
        if isinstance(c, Sym):
            tag = self.tag_of(path, c)
            if tag in ("ListV", "TupleV"):
                seq = self.PV.items(c.term) if tag == "ListV" else self.PV.titems(c.term)
                return SBool(z3.Contains(seq, z3.Unit(self.to_pv(x))))
        raise Unsupported(f"`in` on {type(c).__name__}")

    def ex_Subscript(self, path, frame, e):
        o = self.eval(path, frame, e.value)
        if isinstance(e.slice, pyast.Slice):
            lo = self.eval(path, frame, e.slice.lower) if e.slice.lower is not None else None
            hi = self.eval(path, frame, e.slice.upper) if e.slice.upper is not None else None
            if e.slice.step is not None:
                raise Unsupported("slice step")
            return self.getslice(path, o, lo, hi)
        k = self.eval(path, frame, e.slice)
        return self.getitem(path, o, k, frame)

    def getitem(self, path, o, k, frame=None):
        if hasattr(o, "sym_getitem"):
            return o.sym_getitem(self, path, k)
        if isinstance(o, (tuple, str)) and isinstance(k, int):
            try:
                return o[k]
            except IndexError:
                self.throw(path, "IndexError", "index out of range")
        if isinstance(o, ListObj) and isinstance(k, int):
            if o.is_concrete():
                try:
                    return o.content[k]
                except IndexError:
                    self.throw(path, "IndexError", "list index out of range")
            return self.seq_index(path, o.content, k)
        if isinstance(o, SymTuple) and isinstance(k, int):
            return self.seq_index(path, o.seq, k)
        if isinstance(o, SStr) and isinstance(k, int):
            t = o.term()
            L = z3.Length(t)
            ok = (L > k) if k >= 0 else (L >= -k)
            if not self.branch(path, ok):
                self.throw(path, "IndexError", "string index out of range")
            idx = z3.IntVal(k) if k >= 0 else L + k
            return SStr([Atom(z3.SubString(t, idx, 1), ("char", o, k))])
        if isinstance(o, SeqMap) and isinstance(k, int):
            L = z3.Length(o.seq_term)
            ok = (L > k) if k >= 0 else (L >= -k)
            if not self.branch(path, ok):
                self.throw(path, "IndexError", "list index out of range")
            idx = z3.IntVal(k) if k >= 0 else L + k
            return o.instantiate(self, path, z3.simplify(o.seq_term[idx]))
        if isinstance(o, GhostMap):
            return o.getitem(self, path, k)
        if isinstance(o, DictObj):
            if isinstance(k, (SStr, Sym)):
                return self.dict_lookup_symbolic(path, o, k)
            hk = self.hashable(k)
            if hk in o.d:
                return o.d[hk]
            self.throw(path, "KeyError", k)
        if isinstance(o, Sym):
            tag = self.tag_of(path, o)
            if tag in ("ListV", "TupleV") and isinstance(k, int):
                seq = self.PV.items(o.term) if tag == "ListV" else self.PV.titems(o.term)
                return self.seq_index(path, seq, k)
            if tag == "StrV" and isinstance(k, int):
                return self.getitem(path, self.from_pv(self.U.strv(self.PV.s(o.term))), k, frame)
            if tag == "ExtV":
                return self.ext_op(path, "operator.getitem", [o, k])
            self.throw(path, "TypeError", f"{tag} object is not subscriptable")
        if isinstance(o, (ExtVal, ExtRef)):
            h = self.attr_models.get(("<getitem>",))
            if h:
                return h(self, path, o, k)
            if isinstance(k, Sym) and self.tag_of(path, k) == "StrV":
                k = self.as_sstr(path, k)
            if isinstance(k, (str, SStr)):
                # mapping-like external object: KeyError iff the key is absent (assumed contract of the dependency)
                kt = z3.StringVal(k) if isinstance(k, str) else k.term()
                has = self.uf("ext_has_key", self.PV, z3.StringSort(), z3.BoolSort())(self.to_pv(o), kt)
                if not self.branch(path, has):
                    self.throw(path, "KeyError", k)
            return self.ext_op(path, "operator.getitem", [o, k])
        h = self.attr_models.get(("<getitem>", type(o).__name__))
        if h:
            return h(self, path, o, k)
        if o is None or isinstance(o, (int, bool)):
            self.throw(path, "TypeError", "object is not subscriptable")
        raise Unsupported(f"getitem on {type(o).__name__}[{type(k).__name__}]")

    def seq_index(self, path, seq, k):
        L = z3.Length(seq)
        ok = (L > k) if k >= 0 else (L >= -k)
        if not self.branch(path, ok):
            self.throw(path, "IndexError", "index out of range")
        idx = z3.IntVal(k) if k >= 0 else L + k
        return self.from_pv(z3.simplify(seq[idx]), path)

    def dict_lookup_symbolic(self, path, d, k):
        keys = list(d.d.keys())
        opts = []
        for kk in keys:
            eq = self.py_eq(path, k, kk if not (isinstance(kk, tuple) and kk and kk[0] == "sstr") else kk[2])
            if eq is True:
                return d.d[kk]
            if eq is False:
                continue
            opts.append((kk, eq.e))
        none = z3.Not(z3.Or(*[c for _, c in opts])) if opts else z3.BoolVal(True)
        i = path.choose([(str(kk), c) for kk, c in opts] + [("<missing>", none)])
        if i == len(opts):
            self.throw(path, "KeyError", k)
        return d.d[opts[i][0]]

    def getslice(self, path, o, lo, hi):
        if isinstance(o, (str, tuple)) and all(x is None or isinstance(x, int) for x in (lo, hi)):
            return o[lo:hi]
        if isinstance(o, ListObj) and o.is_concrete() and all(x is None or isinstance(x, int) for x in (lo, hi)):
            return ListObj(o.content[lo:hi])
        if isinstance(o, Sym):
            tag = self.tag_of(path, o)
            if tag == "StrV":
                o = self.from_pv(self.U.strv(self.PV.s(o.term)))
            elif tag == "NoneV" or tag.startswith("N_"):
                self.throw(path, "TypeError", "object is not subscriptable")
            elif tag == "ListV":
                o = ListObj(self.PV.items(o.term), fresh=False)
            elif tag == "TupleV":
                return self.from_pv(self.U.tuplev(self._seq_slice(self.PV.titems(o.term), lo, hi)))
            else:
                raise Unsupported(f"slice of {tag}")
        if isinstance(o, ListObj) and all(x is None or isinstance(x, int) for x in (lo, hi)):
            return ListObj(self._seq_slice(self.seq_term(o), lo, hi))
        if isinstance(o, SymTuple) and all(x is None or isinstance(x, int) for x in (lo, hi)):
            return SymTuple(self._seq_slice(o.seq, lo, hi))
        if isinstance(o, str):
            return o[lo:hi]
        if isinstance(o, SStr):
            t = o.term()
            L = z3.Length(t)

            def norm(x, default):
                if x is None:
                    return default
                if isinstance(x, SInt):
                    # Python's clamping of a symbolic bound: negative counts from the end, then clamp to [0, len]
                    e = x.e
                    e = z3.If(e < 0, L + e, e)
                    return z3.If(e < 0, z3.IntVal(0), z3.If(e > L, L, e))
                if not isinstance(x, int):
                    raise Unsupported("symbolic slice bound")
                if x >= 0:
                    return z3.If(L < x, L, z3.IntVal(x))
                return z3.If(L + x < 0, z3.IntVal(0), L + x)
            a = norm(lo, z3.IntVal(0))
            b = norm(hi, L)
            res = z3.SubString(t, a, z3.If(b - a < 0, z3.IntVal(0), b - a))
            return SStr([Atom(res, ("slice", o, lo, hi))])
        raise Unsupported(f"slice of {type(o).__name__}")

    def _seq_slice(self, seq, lo, hi):
        L = z3.Length(seq)

        def norm(x, default):
            if x is None:
                return default
            if x >= 0:
                return z3.If(L < x, L, z3.IntVal(x))
            return z3.If(L + x < 0, z3.IntVal(0), L + x)
        a = norm(lo, z3.IntVal(0))
        b = norm(hi, L)
        return z3.simplify(z3.SubSeq(seq, a, z3.If(b - a < 0, z3.IntVal(0), b - a)))

    def ex_Lambda(self, path, frame, e):
        fact = {"qualname": frame.fref.qualname + ".<lambda>", "module": frame.module, "name": "<lambda>",
                "sha256": f"lambda:{id(e)}", "source": ""}
        return FuncRef(fact, closure=frame.locals, fdef=e)

    def ex_Yield(self, path, frame, e):
        f = frame
        while f.parent is not None:
            f = f.parent
        f.yields.append(self.eval(path, frame, e.value) if e.value is not None else None)
        return None

    def ex_Starred(self, path, frame, e):
        raise Unsupported("starred expression outside call/display")

    def ex_ListComp(self, path, frame, e):
        r = self.comprehension(path, frame, e.elt, e.generators)
        if isinstance(r, list):
            return ListObj(r)
        return r

    def ex_GeneratorExp(self, path, frame, e):
        r = self.comprehension(path, frame, e.elt, e.generators)
        if isinstance(r, list):
            return GenVal(r)
        return r

    def ex_DictComp(self, path, frame, e):
        if len(e.generators) != 1:
            raise Unsupported("nested dict comprehension")
        g = e.generators[0]
        it = self.eval(path, frame, g.iter)
        if isinstance(it, ExtVal) and self.ext_models.get("<dictcomp>"):
            return self.ext_models["<dictcomp>"](self, path, frame, e, it)
        items = self.iter_concrete(path, it)
        if items is None:
            h = self.ext_models.get("<dictcomp>")
            if h:
                return h(self, path, frame, e, it)
            raise Unsupported("dict comprehension over symbolic iterable")
        sub = frame.child()
        d = DictObj()
        for x in items:
            self.assign(path, sub, g.target, x)
            if all(self.test(path, self.eval(path, sub, c)) for c in g.ifs):
                d.d[self.hashable(self.concrete_key(path, self.eval(path, sub, e.key)))] = self.eval(path, sub, e.value)
        return d

    def comprehension(self, path, frame, elt, gens):
        if len(gens) != 1:
            raise Unsupported("nested comprehension")
        g = gens[0]
        it = self.eval(path, frame, g.iter)
        items = self.iter_concrete(path, it)
        sub = frame.child()
        if items is None:
            if g.ifs:
                raise Unsupported("filtered comprehension over symbolic sequence")
            seq = self.symbolic_seq(path, it) if not isinstance(it, SeqMap) else None
            if seq is None:
                raise Unsupported("comprehension over mapped sequence")
            # generic element: evaluate the element expression once for an arbitrary member
            ev = self.U.fresh("elem")
            path.ghost.setdefault("elem_of", {})[ev.get_id()] = seq
            # an arbitrary member: ev = seq[j] for some index j (so element-wise facts about seq apply to it)
            j = z3.FreshConst(z3.IntSort(), "j")
            path.assume_fact(z3.And(j >= 0, j < z3.Length(seq), ev == seq[j]))
            path.sub_roots[ev.get_id()] = True
            self.assign(path, sub, g.target, self.from_pv(ev, path))
            h = self.ext_models.get("<elem_assume>")
            if h:
                h(self, path, ev, seq)
            val = self.eval(path, sub, elt)
            return SeqMap(seq, ev, val)
        out = []
        for x in items:
            self.assign(path, sub, g.target, x)
            if all(self.test(path, self.eval(path, sub, c)) for c in g.ifs):
                out.append(self.eval(path, sub, elt))
        return out

    def ex_Call(self, path, frame, e):
        # super().m(...)
        if isinstance(e.func, pyast.Attribute) and isinstance(e.func.value, pyast.Call) \
                and isinstance(e.func.value.func, pyast.Name) and e.func.value.func.id == "super" \
                and not frame.is_local("super"):
            return self.call_super(path, frame, e)
        fv = self.eval(path, frame, e.func)
        args = []
        for a in e.args:
            if isinstance(a, pyast.Starred):
                v = self.eval(path, frame, a.value)
                items = self.iter_concrete(path, v)
                if items is None:
                    if a is not e.args[-1]:
                        raise Unsupported("symbolic *args not in last position")
                    args.append(StarArgs(self.symbolic_seq(path, v), v))
                else:
                    args.extend(items)
            else:
                args.append(self.eval(path, frame, a))
        kwargs = {}
        for k in e.keywords:
            v = self.eval(path, frame, k.value)
            if k.arg is None:
                if isinstance(v, (ExtVal, Sym)) and "**" not in kwargs:
                    kwargs["**"] = v            # an opaque mapping splatted into an (external) call
                    continue
                if not isinstance(v, DictObj):
                    raise Unsupported("** of non-dict")
                for kk, vv in v.d.items():
                    if isinstance(kk, tuple) and kk and kk[0] == "sstr":
                        kwargs[kk] = vv
                    elif isinstance(kk, str):
                        kwargs[kk] = vv
                    else:
                        self.throw(path, "TypeError", "keywords must be strings")
            else:
                kwargs[k.arg] = v
        if args and isinstance(args[-1], StarArgs) and not isinstance(fv, (FuncRef, BoundMethod)):
            # callee cannot take a symbolic tail: split its length
            st = args.pop()
            items = self.split_length(path, st.orig)
            args.extend(items)
        return self.call_value(path, fv, args, kwargs, frame)

    def call_super(self, path, frame, e):
        cls = frame.fref.defcls
        self_val = frame.self_val()
        if cls is None or self_val is None:
            raise Unsupported("super() outside a method")
        obj_cls = self_val.cls if isinstance(self_val, (Obj, ExcVal)) else None
        cf = self.facts.classes.get(obj_cls)
        mro = cf["mro"] if cf else self.facts.classes[cls]["mro"]
        name = e.func.attr
        args = [self.eval(path, frame, a) for a in e.args]
        kwargs = {k.arg: self.eval(path, frame, k.value) for k in e.keywords}
        start = mro.index(cls) + 1 if cls in mro else 0
        for c in mro[start:]:
            cfc = self.facts.classes.get(c)
            if cfc is None:
                # builtin / external base (object.__init__, Exception.__init__)
                if name == "__init__":
                    if isinstance(self_val, ExcVal):
                        self_val.args = tuple(args)
                    return None
                raise Unsupported(f"super().{name} resolves outside the repository ({c})")
            m = cfc["members"].get(name)
            if m and m["definer"] == c:
                return self.call_function(path, FuncRef(m, defcls=c), [self_val] + args, kwargs, self_val=self_val)
        raise Unsupported(f"super().{name} not found")

    def init_fields(self, cls):
        """instance fields assigned (`self.X = ...`) by the repository constructors on the MRO of `cls`"""
        cache = self.__dict__.setdefault("_init_fields", {})
        if cls not in cache:
            out = set()
            cf = self.facts.classes.get(cls)
            for c in (cf["mro"] if cf else []):
                m = (self.facts.classes.get(c) or {}).get("members", {}).get("__init__")
                if not m or not m.get("source"):
                    continue
                try:
                    tree = pyast.parse(textwrap.dedent(m["source"]))
                except SyntaxError:
                    continue
                for n in pyast.walk(tree):
                    if isinstance(n, pyast.Attribute) and isinstance(n.value, pyast.Name) and n.value.id == "self" and \
                            isinstance(n.ctx, pyast.Store):
                        out.add(n.attr)
            cache[cls] = out
        return cache[cls]

    # ---- attribute access ---------------------------------------------------------------
    def getattr(self, path, o, name, frame=None, default=_builtins.NotImplemented):
        from . import pybuiltins
        r = pybuiltins.getattr_value(self, path, o, name, frame)
        if r is pybuiltins.MISSING:
            if isinstance(o, Obj) and (name in getattr(o, "unmodelled", ()) or name in self.init_fields(o.cls)):
                # the constructor stores this field, the contract's object model says nothing about it: not a violation
                raise Unsupported(f"reads the instance field `{name}`, which the constructor sets but the contract's object model "
                                  "does not cover (its relation to the modelled fields is not specified)")
            if default is not _builtins.NotImplemented:
                return default
            self.throw(path, "AttributeError", name)
        return r


class _Break(Exception):
    pass


class _Continue(Exception):
    pass


class StarArgs:
    """Marker: a symbolic-length sequence passed as *args."""

    def __init__(self, seq, orig):
        self.seq = seq
        self.orig = orig


class SymTuple:
    """A tuple of symbolic length (the callee's *args)."""

    def __init__(self, seq, star=None):
        self.seq = seq
        self.star = star


class EnumIter:
    """enumerate(<symbolic-length sequence>, start)"""

    def __init__(self, inner, start=0):
        self.inner = inner
        self.start = start


class GenVal:
    """A generator whose items are already computed (comprehension semantics are eager here;
    sound for the pure element expressions the functions under contract use)."""

    def __init__(self, items):
        self.items = items


def _seqmap_instantiate(self, engine, path, elem_term):
    return substitute_value(engine, self.elem_value, self.elem_var, elem_term)


SeqMap.instantiate = _seqmap_instantiate


def substitute_value(engine, v, var, repl):
    """v[var := repl] for values built from z3 terms."""
    def st(t):
        return z3.simplify(z3.substitute(t, (var, repl)))
    if isinstance(v, Sym):
        return engine.from_pv(st(v.term))
    if isinstance(v, SStr):
        parts = []
        for p in v.parts:
            if isinstance(p, str):
                parts.append(p)
            else:
                parts.append(Atom(st(p.term), subst_origin(engine, p.origin, var, repl)))
        return mk_str(parts)
    if isinstance(v, SBool):
        return SBool(st(v.e))
    if isinstance(v, SInt):
        return SInt(st(v.e))
    if isinstance(v, tuple):
        return tuple(substitute_value(engine, x, var, repl) for x in v)
    if isinstance(v, ListObj):
        if v.is_concrete():
            return ListObj([substitute_value(engine, x, var, repl) for x in v.content], fresh=v.fresh)
        return ListObj(st(v.content), fresh=v.fresh)
    if isinstance(v, ExtVal):
        return ExtVal(v.name, [substitute_value(engine, x, var, repl) for x in v.args],
                      [(k, substitute_value(engine, x, var, repl)) for k, x in v.kwargs], v.cls_mro)
    return v


def subst_origin(engine, origin, var, repl):
    out = []
    for x in origin:
        if z3.is_expr(x):
            out.append(z3.simplify(z3.substitute(x, (var, repl))))
        elif isinstance(x, (SStr, Sym)):
            out.append(substitute_value(engine, x, var, repl))
        else:
            out.append(x)
    return tuple(out)


class Frame:
    def __init__(self, engine, fref, fdef, parent=None):
        self.engine = engine
        self.fref = fref
        self.fdef = fdef
        self.locals = {}
        self.parent = parent
        self.module = fref.fact["module"] if fref.fact else None
        self.handling = []
        self._loops = None

    def child(self):
        f = Frame(self.engine, self.fref, self.fdef, parent=self)
        f.handling = self.handling
        return f

    def is_local(self, name):
        f = self
        while f is not None:
            if name in f.locals:
                return True
            f = f.parent
        return name in self.fref.closure

    def lookup(self, path, name):
        f = self
        while f is not None:
            if name in f.locals:
                return f.locals[name]
            f = f.parent
        if name in self.fref.closure:
            return self.fref.closure[name]
        if _assigned_in(self.fdef, name):
            raise Raised(self.engine.make_exc(path, "UnboundLocalError", name))
        return self.engine.lookup_global(self, name)

    def self_val(self):
        a = self.fdef.args
        params = [x.arg for x in a.posonlyargs + a.args]
        f = self
        while f.parent is not None:
            f = f.parent
        if params:
            return f.locals.get(params[0])
        return None

    def loop_ordinal(self, node):
        if self._loops is None:
            self._loops = [n for n in pyast.walk(self.fdef) if isinstance(n, (pyast.For, pyast.While))]
            self._loops.sort(key=lambda n: (n.lineno, n.col_offset))
        return self._loops.index(node)


_assigned_cache = {}
_gen_cache = {}


def _is_generator(fdef):
    key = id(fdef)
    if key not in _gen_cache:
        res = False
        if not isinstance(fdef, pyast.Lambda):
            stack = list(fdef.body)
            while stack:
                n = stack.pop()
                if isinstance(n, (pyast.Yield, pyast.YieldFrom)):
                    res = True
                    break
                if isinstance(n, (pyast.FunctionDef, pyast.Lambda)):
                    continue
                stack.extend(pyast.iter_child_nodes(n))
        _gen_cache[key] = res
    return _gen_cache[key]


def _assigned_in(fdef, name):
    key = id(fdef)
    if key not in _assigned_cache:
        names = set()
        for n in pyast.walk(fdef):
            if isinstance(n, pyast.Name) and isinstance(n.ctx, pyast.Store):
                names.add(n.id)
            elif isinstance(n, pyast.ExceptHandler) and n.name:
                names.add(n.name)
            elif isinstance(n, (pyast.FunctionDef,)) and n is not fdef:
                names.add(n.name)
        for a in (fdef.args.posonlyargs + fdef.args.args + fdef.args.kwonlyargs):
            names.add(a.arg)
        if fdef.args.vararg:
            names.add(fdef.args.vararg.arg)
        if fdef.args.kwarg:
            names.add(fdef.args.kwarg.arg)
        _assigned_cache[key] = names
    return name in _assigned_cache[key]


def _dotted(e):
    parts = []
    while isinstance(e, pyast.Attribute):
        parts.append(e.attr)
        e = e.value
    if isinstance(e, pyast.Name):
        parts.append(e.id)
        return ".".join(reversed(parts))
    return None


def _load(t):
    import copy
    t2 = copy.copy(t)
    t2.ctx = pyast.Load()
    return t2


_parse_cache = {}


def _parse_cached(engine, src):
    from .facts import parse_src
    if src not in _parse_cache:
        _parse_cache[src] = parse_src(src)
    return _parse_cache[src]
